"""Bit-width upper-bound analysis (whole crate, field-based, interprocedural fixpoint).

For every abstract location — struct field (owner ADT, field), function parameter, function return
— computes an upper bound on the number of significant bits of the unsigned values that can be
stored there, by abstract interpretation of MIR rvalues:
    const c -> bit_length(c);  `as u8` -> 8;  a & b -> min;  a | b, a ^ b -> max;  a << k -> +k;
    a >> k -> -k;  min(a,b) -> min;  everything else -> width of the type.
Values enter at the wire parser (bytes, 8 bits each), at `rand::random` and at the public API
(parameters of `pub` functions in the crate's public modules get the width of their type).
Used to decide "is this id inside the 20-bit packet-id space on every path" (C03.L counter loops,
C01.g) without naming a single local variable.
"""
import re
from collections import defaultdict

from mirlib import _strip_generics

TW = {"u8": 8, "u16": 16, "u32": 32, "u64": 64, "usize": 64, "bool": 1, "u128": 128,
      "i8": 8, "i16": 16, "i32": 32, "i64": 64, "isize": 64}

PASS_THROUGH = {
    "Option::unwrap", "Option::take", "Option::as_ref", "Option::as_mut", "Option::expect",
    "mem::take", "mem::replace", "Option::clone", "T::into", "Into::into",
}


def type_width(ty):
    t = ty.strip()
    while t.startswith("&"):
        t = t[1:].strip()
        if t.startswith("'"):
            t = t.split(" ", 1)[1] if " " in t else t
        if t.startswith("mut "):
            t = t[4:]
    if t in TW:
        return TW[t]
    m = re.match(r"(?:std::option::)?Option<(.*)>$", t)
    if m:
        return type_width(m.group(1))
    return 64


class BitWidth:
    def __init__(self, facts):
        self.F = facts
        self.val = defaultdict(int)  # location -> width (optimistic start 0)
        self.sources = defaultdict(list)  # location -> [(body, kind, node)]
        self.external = set()
        self._collect()
        self._solve()

    # ------------------------------------------------------------------------------------------
    def _is_external_fn(self, f):
        p = f["path"]
        if f.get("kind") == "Closure":
            return True  # closure parameters: called through generic FnMut, not tracked
        if f.get("trait"):
            return True
        if f.get("vis") != "Public":
            return False
        top = p.split("::")[0]
        return top in ("server", "client") or "::" not in p or p.count("::") == 1 and top[0].isupper()

    def field_loc(self, pl):
        """('field', owner, name) for a place whose value is (the content of) a named field"""
        projs = pl["p"]
        # walk back over trailing Option plumbing
        i = len(projs) - 1
        while i >= 0:
            p = projs[i]
            if p == "*":
                i -= 1
                continue
            if isinstance(p, dict) and "dc" in p and p["dc"] in ("Some",):
                i -= 1
                continue
            if isinstance(p, dict) and "f" in p and p.get("o", "").endswith("Option::Some"):
                i -= 1
                continue
            break
        if i < 0:
            return None
        p = projs[i]
        if isinstance(p, dict) and "f" in p and p.get("o"):
            return ("field", p["o"], p["f"])
        return None

    def _collect(self):
        F = self.F
        for path, f in F.fns.items():
            b = F.body(path)
            if self._is_external_fn(f):
                for i in range(1, b.argc + 1):
                    self.external.add(("arg", path, i))
            for bb in sorted(b.reachable):
                for s in b.stmts(bb):
                    if s["k"] != "assign":
                        continue
                    pl, rv = s["pl"], s["rv"]
                    if pl["p"]:
                        loc = self.field_loc(pl)
                        if loc:
                            self.sources[loc].append((b, "rv", rv))
                        else:
                            # write through a reference local: (*_5) = v with _5 = &mut place
                            tgt = self._deref_target(b, pl)
                            if tgt is not None:
                                loc = self.field_loc(tgt)
                                if loc:
                                    self.sources[loc].append((b, "rv", rv))
                    elif pl["l"] == 0:
                        self.sources[("ret", path)].append((b, "rv", rv))
                    if rv["k"] == "agg" and rv.get("ak") == "adt":
                        owner = rv["adt"]
                        adt = F.adts.get(owner)
                        is_enum = adt and adt["kind"] == "Enum"
                        if rv["adt"].endswith("::Option") or rv["adt"] == "std::option::Option":
                            continue
                        if is_enum or not adt:
                            owner = owner + "::" + rv["variant"] if (is_enum or rv["variant"] != owner.split("::")[-1]) else owner
                        for name, op in zip(rv.get("fields", []), rv["ops"]):
                            self.sources[("field", owner, name)].append((b, "op", op))
                    if rv["k"] == "agg" and rv.get("ak") == "closure":
                        for i, op in enumerate(rv["ops"]):
                            self.sources[("field", "closure:" + rv["closure"], str(i))].append((b, "op", op))
                t = b.term(bb)
                if t["k"] == "call":
                    callee = t.get("fn")
                    tgt = F.local_fn_of(callee) if callee else None
                    if tgt and not t.get("unresolved"):
                        for i, a in enumerate(t["args"]):
                            self.sources[("arg", tgt, i + 1)].append((b, "op", a))
                    d = t["dest"]
                    if d["p"]:
                        loc = self.field_loc(d)
                        if loc:
                            self.sources[loc].append((b, "call", t))
                    elif d["l"] == 0:
                        self.sources[("ret", path)].append((b, "call", t))

    def _deref_target(self, b, pl):
        if all(p == "*" for p in pl["p"]) and b.is_single_def(pl["l"]):
            loc, kind, node = b.defs[pl["l"]][0]
            if kind == "assign" and node["rv"]["k"] == "ref":
                return node["rv"]["pl"]
        return None

    # ------------------------------------------------------------------------------------------
    def _solve(self):
        for it in range(64):
            changed = False
            for loc, srcs in self.sources.items():
                w = self.val[loc]
                for b, kind, node in srcs:
                    if kind == "rv":
                        x = self.rvalue(b, node, ())
                    elif kind == "op":
                        x = self.operand(b, node, ())
                    else:
                        x = self.call(b, node, ())
                    if x > w:
                        w = x
                if w != self.val[loc]:
                    self.val[loc] = w
                    changed = True
            if not changed:
                self.iterations = it + 1
                return
        self.iterations = 64

    def loc_width(self, loc, tw):
        if loc in self.external:
            return tw
        if loc[0] == "arg" and not self.sources.get(loc):
            return tw  # no call site seen: unknown caller
        if loc[0] == "field" and not self.sources.get(loc):
            return tw
        return min(self.val[loc], tw)

    def place_ty(self, b, pl):
        ty = b.locals[pl["l"]]["ty"]
        for p in pl["p"]:
            if isinstance(p, dict) and "ty" in p:
                ty = p["ty"]
            elif p == "*":
                ty = ty.lstrip("&")
                if ty.startswith("mut "):
                    ty = ty[4:]
            elif isinstance(p, dict) and ("idx" in p or "cidx" in p):
                m = re.match(r"\[(.*?)(;.*)?\]$", ty.strip())
                ty = m.group(1) if m else "?"
        return ty

    def place(self, b, pl, stack):
        tw = type_width(self.place_ty(b, pl))
        projs = [p for p in pl["p"] if p != "*"]
        if projs:
            loc = self.field_loc(pl)
            if loc:
                return self.loc_width(loc, tw)
            # component of a local tuple built in this body (`let (a, b) = (x, y)`, a helper's tuple result after inlining)
            if len(projs) == 1 and isinstance(projs[0], dict) and str(projs[0].get("f", "")).isdigit() and pl["l"] not in stack:
                ds = b.defs.get(pl["l"], [])
                for _hop in range(4):   # `let t = helper_result;` copies of the tuple
                    if len(ds) == 1 and ds[0][1] == "assign" and ds[0][2]["rv"]["k"] == "use" and ds[0][2]["rv"]["op"]["k"] in ("copy", "move") and not ds[0][2]["rv"]["op"]["pl"]["p"]:
                        ds = b.defs.get(ds[0][2]["rv"]["op"]["pl"]["l"], [])
                    else:
                        break
                if ds and all(k == "assign" and n["rv"]["k"] == "agg" and int(projs[0]["f"]) < len(n["rv"].get("ops", [])) for _, k, n in ds):
                    return min(tw, max(self.operand(b, n["rv"]["ops"][int(projs[0]["f"])], stack + (pl["l"],)) for _, k, n in ds))
            # field of a local aggregate (tuple temp etc.)
            return tw
        l = pl["l"]
        if pl["p"]:  # only derefs: through a reference
            tgt = self._deref_target(b, pl)
            if tgt is not None:
                return self.place(b, tgt, stack)
        if 1 <= l <= b.argc and not b.defs.get(l):
            return self.loc_width(("arg", b.path, l), tw)
        if l in stack:
            return 0
        w = 0
        ds = b.defs.get(l, [])
        if not ds or b.partial.get(l):
            return tw
        for loc, kind, node in ds:
            if kind == "assign":
                x = self.rvalue(b, node["rv"], stack + (l,))
            else:
                x = self.call(b, node, stack + (l,))
            w = max(w, x)
        return min(w, tw)

    def operand(self, b, op, stack):
        if op["k"] == "const":
            if "static" in op:
                sc = self.F.consts.get(op["static"])
                if sc and "bytes_hex" in sc:
                    return int.from_bytes(bytes.fromhex(sc["bytes_hex"]), "little").bit_length()
            if "bits" in op:
                return int(op["bits"]).bit_length()
            return type_width(op.get("ty", ""))
        if op["k"] in ("copy", "move"):
            return self.place(b, op["pl"], stack)
        return 64

    def rvalue(self, b, rv, stack):
        k = rv["k"]
        if k == "use":
            return self.operand(b, rv["op"], stack)
        if k == "ref":
            return self.place(b, rv["pl"], stack)
        if k == "cast":
            tw = type_width(rv["ty"])
            if rv.get("ck") == "IntToInt" and not rv.get("from", "").startswith("i"):
                return min(self.operand(b, rv["op"], stack), tw)
            return tw
        if k == "bin":
            op = rv["op"]
            tw = type_width(rv.get("ty", ""))
            a = self.operand(b, rv["a"], stack)
            c = self.operand(b, rv["b"], stack)
            if op == "BitAnd":
                return min(a, c)
            if op in ("BitOr", "BitXor"):
                return max(a, c)
            if op in ("Shl", "ShlUnchecked") and rv["b"]["k"] == "const" and "bits" in rv["b"]:
                return min(tw, a + int(rv["b"]["bits"])) if a else 0
            if op in ("Shr", "ShrUnchecked") and rv["b"]["k"] == "const" and "bits" in rv["b"]:
                return max(0, a - int(rv["b"]["bits"]))
            if op in ("Rem",) and rv["b"]["k"] == "const" and "bits" in rv["b"]:
                return max(0, int(rv["b"]["bits"]) - 1).bit_length()
            if op == "Div":
                return a
            if op in ("Lt", "Le", "Gt", "Ge", "Eq", "Ne"):
                return 1
            return tw
        if k == "agg":
            if rv.get("ak") == "adt" and rv["adt"].endswith("Option"):
                if rv["variant"] == "Some":
                    return self.operand(b, rv["ops"][0], stack)
                return 0
            return 64
        return 64

    def call(self, b, t, stack):
        fn = t.get("fn")
        dty = self.place_ty(b, t["dest"])
        tw = type_width(dty)
        if fn is None:
            return tw
        sn = self.F.short(fn)
        args = t["args"]
        if sn in PASS_THROUGH or sn.endswith("::clone") or sn.endswith("::deref") or sn.endswith("::deref_mut"):
            return min(tw, self.operand(b, args[0], stack)) if args else tw
        if sn == "Option::unwrap_or":
            return min(tw, max(self.operand(b, args[0], stack), self.operand(b, args[1], stack)))
        if sn == "Ord::min":
            return min(self.operand(b, args[0], stack), self.operand(b, args[1], stack))
        if sn == "Ord::max":
            return max(self.operand(b, args[0], stack), self.operand(b, args[1], stack))
        tgt = self.F.local_fn_of(fn)
        if tgt and not t.get("unresolved"):
            return self.loc_width(("ret", tgt), tw) if self.sources.get(("ret", tgt)) else tw
        return tw
