#!/usr/bin/env python3
"""Helpers for the independently seeded defects kept under /verif/seeded/<id>/.

  seeded.py validate <patch.diff> <demo.patch> <workdir-name>
      confirms, in a scratch git worktree of /repo's HEAD under /tmp (removed afterwards):
        (a) HEAD + demo            : the demonstration passes
        (b) HEAD + patch + demo    : the demonstration fails
        (c) HEAD + patch           : the existing suite's stable tests (BASELINE.json) all pass
      prints a JSON verdict.
  seeded.py check <patch.diff>
      applies the patch to /repo (git apply), runs every registered quick check, undoes it
      (git checkout -- .), prints which properties/instances raised a non-known VIOLATION.
"""
import json
import os
import re
import shutil
import subprocess
import sys

VERIF = os.path.dirname(os.path.dirname(os.path.abspath(__file__)))
BASE = json.load(open("/root/.vp/BASELINE.json"))
STABLE = set(t.split("::", 1)[1] if t.startswith("uflow::") else t for t in BASE["stable_pass"])
IGNORE = {"ideal_transfer", "reliable_transfer", "client_handshake_timeout", "server_disconnect_now", "server_active_timeout"}


def sh(cmd, cwd=None, env=None, timeout=1800):
    p = subprocess.run(cmd, cwd=cwd, env=env, stdout=subprocess.PIPE, stderr=subprocess.STDOUT, text=True, timeout=timeout)
    return p.returncode, p.stdout


def run_suite(wt, tgt, retry=True):
    """full suite inside a private network namespace (the integration tests bind fixed UDP ports);
    tests that fail are re-run alone (they are timing-sensitive under load) before being believed"""
    env = dict(os.environ, CARGO_TARGET_DIR=tgt, CARGO_NET_OFFLINE="true", RUST_BACKTRACE="0")
    ns = ["unshare", "-rn", "sh", "-c"]
    rc, out = sh(ns + ["ip link set lo up; cargo test --offline --no-fail-fast -- --test-threads 8"], cwd=wt, env=env)
    res = {}
    for m in re.finditer(r"^test (\S+) \.\.\. (ok|FAILED|ignored)", out, re.M):
        res[m.group(1)] = m.group(2)
    built = "error: could not compile" not in out and "error[E" not in out
    if retry and built:
        for t, v in list(res.items()):
            if v == "FAILED" and "::" not in t:  # integration tests have bare names
                for _ in range(3):
                    rc2, o2 = sh(ns + ["ip link set lo up; cargo test --offline --tests %s -- --exact --test-threads 1" % t], cwd=wt, env=env)
                    if re.search(r"^test %s \.\.\. ok" % re.escape(t), o2, re.M):
                        res[t] = "ok"
                        break
    return built, res, out


def validate(patch, demo, name):
    wt = "/tmp/val-%s" % name
    tgt = "/tmp/val-%s-tgt" % name
    sh(["git", "-C", "/repo", "worktree", "remove", "--force", wt])
    shutil.rmtree(wt, ignore_errors=True)
    rc, out = sh(["git", "-C", "/repo", "worktree", "add", "--detach", wt, "HEAD"])
    verdict = {"name": name}
    try:
        def reset():
            sh(["git", "checkout", "--", "."], cwd=wt)
            sh(["git", "clean", "-fdq"], cwd=wt)

        def apply(p):
            rc, o = sh(["git", "apply", "--whitespace=nowarn", p], cwd=wt)
            return rc == 0, o

        ok, o = apply(demo)
        if not ok:
            return dict(verdict, ok=False, why="demo does not apply: " + o[-300:])
        b1, r1, o1 = run_suite(wt, tgt)
        reset()
        ok, o = apply(patch)
        if not ok:
            return dict(verdict, ok=False, why="patch does not apply: " + o[-300:])
        b3, r3, o3 = run_suite(wt, tgt)
        ok, o = apply(demo)
        if not ok:
            return dict(verdict, ok=False, why="demo does not apply on top of the patch: " + o[-300:])
        b2, r2, o2 = run_suite(wt, tgt)
        new_tests = sorted(t for t in r1 if t not in STABLE and t.split("::")[-1] not in IGNORE and not any(t == s or s.endswith("::" + t) for s in STABLE))
        fails = lambda r: {t for t, v in r.items() if v == "FAILED"}
        f1, f2, f3 = fails(r1), fails(r2), fails(r3)
        demo_pass_clean = b1 and bool(new_tests) and not (f1 & set(new_tests))
        demo_fail_patched = b2 and bool(f2 & set(new_tests))
        suite_ok = b3 and not {t for t in f3 if t.split("::")[-1] not in IGNORE}
        missing = sorted(s for s in STABLE if not any(t == s or s.endswith(t) or t.endswith(s) for t in r3))
        verdict.update(
            ok=bool(demo_pass_clean and demo_fail_patched and suite_ok),
            compiles=b3,
            demo_tests=new_tests,
            demo_passes_without_patch=demo_pass_clean,
            demo_fails_with_patch=demo_fail_patched,
            demo_failing_tests=sorted(f2 & set(new_tests)),
            existing_suite_unchanged=suite_ok,
            existing_suite_failures_with_patch=sorted(f3),
            clean_failures=sorted(f1),
        )
        if not verdict["ok"]:
            verdict["log_tail"] = (o2 if b2 else o3)[-1500:]
        return verdict
    finally:
        sh(["git", "-C", "/repo", "worktree", "remove", "--force", wt])
        shutil.rmtree(wt, ignore_errors=True)
        shutil.rmtree(tgt, ignore_errors=True)


def check(patch):
    rc, st = sh(["git", "-C", "/repo", "status", "--porcelain"])
    if st.strip():
        return {"error": "/repo working tree is not clean"}
    rc, o = sh(["git", "-C", "/repo", "apply", "--whitespace=nowarn", patch])
    if rc != 0:
        return {"error": "patch does not apply to /repo: " + o[-300:]}
    fired = {}
    try:
        props = sorted(f[:-3] for f in os.listdir(os.path.join(VERIF, "props")) if re.fullmatch(r"C\d+\.py", f))
        for p in props:
            rc, out = sh([os.path.join(VERIF, "check"), p, "quick"], cwd=VERIF)
            insts = re.findall(r"rule .* instance (\S+) in (\S+)", out)
            if rc != 0:
                fired[p] = sorted({"%s @ %s" % (i, f.split("::")[-1]) for i, f in insts}) or ["(exit %d)" % rc]
    finally:
        sh(["git", "-C", "/repo", "checkout", "--", "."])
        # evidence files were rewritten by the runs on the patched tree: restore them
        sh(["git", "-C", VERIF, "checkout", "--", "evidence"])
    return {"fired": fired}


if __name__ == "__main__":
    if sys.argv[1] == "validate":
        print(json.dumps(validate(sys.argv[2], sys.argv[3], sys.argv[4]), indent=1))
    elif sys.argv[1] == "check":
        print(json.dumps(check(sys.argv[2]), indent=1))
