#!/bin/sh
# refresh every evidence file from /repo (run before committing evidence)
cd "$(dirname "$0")/.." || exit 2
tier=${1:-quick}
rc=0
for f in props/C*.py; do
  id=$(basename "$f" .py)
  ./check "$id" "$tier" | tail -1 || rc=1
done
python3-vt - <<'PY'
import json, jsonschema, glob
sch = json.load(open('/root/.vp/EVIDENCE.schema.json'))
for f in sorted(glob.glob('evidence/*.json')):
    jsonschema.validate(json.load(open(f)), sch)
jsonschema.validate(json.load(open('MANIFEST.json')), json.load(open('/root/.vp/MANIFEST.schema.json')))
print("evidence + manifest validate")
PY
exit $rc
