#!/bin/sh
# dev aid: apply a patch to /repo, run the named checks (quick) with evidence redirected, undo the patch
p=$1; shift
git -C /repo apply --whitespace=nowarn "$p" || exit 2
for id in "$@"; do VERIF_EVIDENCE_DIR=/tmp/trypatch-ev VERIF_REPLAY_DIR=/tmp/trypatch-rp /verif/check $id quick | grep -v "^KNOWN-FINDING" ; done
git -C /repo checkout -- .
rm -rf /tmp/trypatch-ev /tmp/trypatch-rp
