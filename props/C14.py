"""C14 — allowed send rate obeys the RFC 5348 bounds (DESIGN.md §4 C14)."""
import re
from mirlib import show, Loc, dnf_holds
from rules import call_sites, call_locs, acnf
from domain import BitWidth
from loops import classify

SCOPE = ("Decides the transcription and clamp structure of the TFRC sender: the throughput equation, the RTT filter "
         "(alpha = 0.1), the RTO and the initial-rate formulas equal the RFC 5348 expressions modulo associativity/"
         "commutativity and constant folding; the constants (s = MAX_FRAME_SIZE, s/64 floor, initial window 4380, "
         "2 s initial no-feedback timer); every write of the allowed rate outside the constructor carries a floor "
         "(max with MINIMUM_RATE, or with W_init/R in slow start) or is the final ceiling clamp; every halving is "
         "max(X/2, floor); the ceiling clamp post-dominates every rate write; the bisection loop has a variant; each update "
         "form is reached under exactly its RFC 5348 condition (loss increase ends slow start, doubling at most once per "
         "RTT and never after a loss report, the receive-rate limit is 2*X_recv_set except after a loss increase); the "
         "feedback report carries the measured RTT sample, receive rate and loss estimate. "
         "Not decided (not applicable to static analysis): the trajectory of X over feedback histories.")

SR = "half_connection::send_rate::"


def inst_recv_set(cx, iid):
    R = cx.R
    with cx.instance(iid, "T7 SHAPE + T4", "X_recv_set (RFC 5348 4.3): each update returns the limit it leaves stored; loss increase halves the entries and maximises with 0.85 X_recv; the initial rate is one segment per second", floor=5) as inst:
        RS = "half_connection::recv_rate_set::RecvRateSet::"
        from rules import canon_value
        want = {
            "loss_increase_update": r"RecvRateSet::replace_max\(arg1,arg2,cast<u32>\(mul\((0\.85,cast<f64>\(arg3\)|cast<f64>\(arg3\),0\.85)\)\)\)",
            "data_limited_update": r"RecvRateSet::replace_max\(arg1,arg2,arg3\)",
            "rate_limited_update": r"RecvRateSet::max\(arg1\)",
        }
        for fn, rx in want.items():
            b = R.body(RS + fn)
            got = show(canon_value(cx, b, b.local_expr(0)))
            inst.site(b, None, "%s returns %s" % (fn, got[:100]))
            if not re.fullmatch(rx, got):
                inst.violation(b.path, fn + " result", "%s returns `%s`: the limit applied to this feedback differs from the one left in X_recv_set (the next no-feedback expiry recomputes from the stored one and may raise the rate)" % (fn, got[:140]))
        rm = R.body(RS + "replace_max")
        ret = rm.local_expr(0)
        resets = [show(rm.call_expr(t)) for l, t in rm.calls("RecvRateSet::reset")]
        inst.site(rm, None, "replace_max: reset calls %s, returns %s" % (resets, show(ret)))
        if len(resets) != 1 or resets[0] != "RecvRateSet::reset(arg1,arg2,%s)" % show(ret):
            inst.violation(rm.path, "replace_max", "replace_max stores %s but returns `%s`" % (resets, show(ret)))
        vals = sorted(show(v) for _, v in [(a, c) for a, c in __import__("rules").case_values(cx, rm, ret)])
        fold_ok = False
        mf = re.fullmatch(r"(?:Iterator|Iter)::fold\((?:\[T\]::iter|Vec::iter)\(arg1\.entries\),arg3,closure:(\S+?)\{\}\)", vals[0]) if len(vals) == 1 else None
        if mf:
            # the same maximum as one fold seeded with X_recv: entries.iter().fold(recv_rate, |acc, e| acc.max(e.value))
            try:
                cbody = show(R.body(mf.group(1)).local_expr(0))
            except Exception:
                cbody = None
            fold_ok = cbody in ("Ord::max(arg2,arg3.value)", "Ord::max(arg3.value,arg2)")
            inst.site(rm, None, "replace_max value = fold(X_recv, max) with body %s" % cbody)
        if not fold_ok and vals != ["Ord::max(RecvRateSet::max(arg1),arg3)", "arg3"] and vals != ["Ord::max(arg3,RecvRateSet::max(arg1))", "arg3"]:
            inst.violation(rm.path, "replace_max value", "replace_max maximises over %s, expected {X_recv if the set is empty, max(set, X_recv) otherwise}" % vals)
        lu = R.body(RS + "loss_increase_update")
        halv = [show(lu.rvalue_expr(n["rv"])) for l, n, ps in lu.field_writes(r".*\.value") if n["k"] == "assign"]
        inst.site(lu, None, "loss_increase_update halves: %s" % halv)
        if len(halv) != 1 or not re.fullmatch(r"div\(.*\.value,2\)", halv[0]):
            inst.violation(lu.path, "halving", "loss_increase_update does not halve the entries of X_recv_set (%s)" % halv)
        # the "infinity" seed of X_recv_set is set once, on the first frame sent (RFC 5348 4.2), never again
        nf = R.body("SendRateComp::notify_frame_sent")
        ri = call_sites(nf, "RecvRateSet::reset_initial")
        for l_, lab_ in ri:
            inst.site(nf, l_, "reset_initial in notify_frame_sent")
        cx.guard(inst, nf, ri, [[r"is\(arg1\.mode,AwaitSend\)"]], construct="X_recv_set re-seeded", why="re-seeding X_recv_set with infinity after the first frame removes the receive-rate limit: the next no-feedback expiry raises the rate", checked_before=True)
        for ob in R.all_bodies():
            if ob.path != nf.path and "send_rate::" in ob.path and call_sites(ob, "RecvRateSet::reset_initial"):
                inst.violation(ob.path, "reset_initial", "X_recv_set is re-seeded with infinity outside notify_frame_sent")
        sn = R.body("SendRateComp::new")
        for loc, s_ in sn.assigns():
            rv = s_["rv"]
            if rv["k"] == "agg" and rv.get("adt", "").endswith("SendRateComp"):
                v = show(sn.operand_expr(rv["ops"][rv["fields"].index("send_rate")]))
                inst.site(sn, loc, "initial send_rate = " + v)
                if v not in ("cast<u32>(half_connection::send_rate::MSS)", "half_connection::send_rate::MINIMUM_RATE") and not re.fullmatch(r"Ord::min\(.*arg1.*\)", v):
                    inst.violation(sn.path, "initial rate", "a new rate computer starts at `%s`: the initial rate is the only one that is not clamped to the ceiling, and must be one segment per second (within every admissible ceiling)" % v, at=sn.span_at(loc))



# --- time units ---------------------------------------------------------------------------------------
# The rate computer keeps the round-trip time twice: rtt_s (f64 seconds, what RFC 5348's formulas take) and
# rtt_ms (u64 milliseconds, what is compared with the step clock).  Which parameter is which unit is read
# off the parameter names of the crate's own helpers; conversions exist only as ms_to_s / s_to_ms.
SECONDS_PARAMS = {  # callee -> index (into the MIR argument list) of the parameter that is a time in seconds
    "send_rate::eval_tcp_throughput": 0,
    "send_rate::eval_tcp_throughput_inv": 0,
    "send_rate::compute_initial_send_rate": 0,
    "send_rate::compute_initial_loss_send_rate": 0,
    "SendRateComp::update_rto": 1,
    "SendRateComp::update_rtt": 1,
    "send_rate::s_to_ms": 0,
}
MS_PARAMS = {
    "send_rate::ms_to_s": 0,
    "RecvRateSet::rate_limited_update": 3,
}


def _unit(e, own_sec_args=(), own_ms_args=()):
    """'s' / 'ms' / None (unknown or dimensionless) for an expression, from the crate's own naming"""
    k = e[0]
    sh = show(e)
    if k == "arg":
        if e[1] in own_sec_args:
            return "s"
        if e[1] in own_ms_args:
            return "ms"
        return None
    if k == "proj":
        last = [el for el in e[2] if isinstance(el, str)]
        names = []
        for i_, el in enumerate(last):
            if el.startswith("@") or el.startswith("["):
                continue
            if el.isdigit() and i_ and last[i_ - 1].startswith("@"):
                continue  # the payload of an enum variant (x@Some.0) has the unit of x
            names.append(el)
        if names and names[-1] == "rtt_s":
            return "s"
        if names and names[-1] in ("rtt_ms", "rto_ms"):
            return "ms"
        if e[1][0] == "call" and e[1][1].endswith("update_rtt") and names:
            return {"0": "s", "1": "ms"}.get(names[-1])
        return None
    if k == "call":
        short = e[1]
        if short.endswith("ms_to_s") or short.endswith("update_rto"):
            return "s"
        if short.endswith("s_to_ms"):
            return "ms"
        if re.match(r"Option::(unwrap|unwrap_or|unwrap_or_default|expect)$", short) and e[2]:
            return _unit(e[2][0], own_sec_args, own_ms_args)
        if re.match(r"(f64|u64|Ord)::(max|min)$", short) and e[2]:
            us = {_unit(a, own_sec_args, own_ms_args) for a in e[2]} - {None}
            return us.pop() if len(us) == 1 else None
        return None
    if k == "cast":
        return _unit(e[2], own_sec_args, own_ms_args)  # a numeric cast keeps the unit
    if k == "bin":
        ua, ub = _unit(e[2], own_sec_args, own_ms_args), _unit(e[3], own_sec_args, own_ms_args)
        op = e[1].lower()
        if op in ("mul", "div") and (ua is None or ub is None):
            # scaling by a dimensionless factor keeps the unit (4*R in the RTO); the analysis is dimensional:
            # it cannot see that a factor is 1000, only that a value of one unit is used as the other
            return (ua or ub) if not (op == "div" and ua is None) else None
        if op == "div" and ua == ub:
            return None
        if op in ("add", "sub") or op.startswith("add") or op.startswith("sub"):
            if ua and ub and ua != ub:
                return "mixed"
            return ua or ub
        return None
    if k == "un":
        return _unit(e[2], own_sec_args, own_ms_args)
    return None


def inst_time_units(cx, iid):
    R = cx.R
    with cx.instance(iid, "T6 KIND (units of time)", "every RTT handed to the RFC 5348 formulas is a seconds value (rtt_s, update_rtt(..).0, ms_to_s(..)), "
                     "every RTT compared with the clock a milliseconds value; the two are converted only by ms_to_s / s_to_ms", floor=8) as inst:
        for b in R.all_bodies():
            if "half_connection::send_rate" not in b.path or "::tests::" in b.path:
                continue
            short = R.short(b.path)
            own_s = tuple(i + 1 for f, i in SECONDS_PARAMS.items() if short.endswith(f) for _ in (0,))
            own_ms = tuple(i + 1 for f, i in MS_PARAMS.items() if short.endswith(f) for _ in (0,))
            for loc, t in b.calls():
                fn = t.get("fn")
                if not fn:
                    continue
                fs = R.short(fn)
                for table, wantu in ((SECONDS_PARAMS, "s"), (MS_PARAMS, "ms")):
                    for f, idx in table.items():
                        if not fs.endswith(f) or idx >= len(t["args"]):
                            continue
                        ex = b.operand_expr(t["args"][idx])
                        u = _unit(ex, own_s, own_ms)
                        inst.site(b, loc, "%s(.. %s ..): %s" % (f.split("::")[-1], show(ex), u or "unitless/unknown"))
                        if u is not None and u != wantu:
                            inst.violation(b.path, "%s <- %s" % (f.split("::")[-1], re.sub(r"var\d+", "var", show(ex))),
                                           "%s takes a time in %s here, but is handed `%s`, which is %s: seconds and milliseconds are converted only by ms_to_s / s_to_ms"
                                           % (f.split("::")[-1], {"s": "seconds", "ms": "milliseconds"}[wantu], show(ex),
                                              {"s": "a seconds value", "ms": "a milliseconds value"}.get(u, "a sum of seconds and milliseconds")),
                                           at=b.span_at(loc))


def effective_defs(b, fa, l):
    """definitions of local l as (loc, printed value, fact alternatives); a definition that mentions one other
    multi-definition local (`2 * (if c { a } else { b })`) is expanded over that local's definitions, with the facts of
    both places"""
    out = []
    for loc, kind, node in b.defs.get(l, []):
        e = b.rvalue_expr(node["rv"]) if kind == "assign" else b.call_expr(node)
        v = show(e)
        alts = (fa.at(loc) or []) if fa else []
        inner = [int(x) for x in set(re.findall(r"\bvar(\d+)\b", v)) if len(b.defs.get(int(x), [])) > 1 and int(x) != l]
        if len(inner) == 1:
            from rules import subst_var
            for loc2, kind2, node2 in b.defs[inner[0]]:
                e2 = b.rvalue_expr(node2["rv"]) if kind2 == "assign" else b.call_expr(node2)
                alts2 = (fa.at(loc2) or []) if fa else []
                out.append((loc2, show(subst_var(e, inner[0], e2)), [frozenset(a) | frozenset(a2) for a in alts for a2 in alts2] if fa else []))
        else:
            out.append((loc, v, alts))
    return out


def _rtt_filter(cx, inst):
    R = cx.R
    ur = R.body("SendRateComp::update_rtt")
    upd = []
    for l, s in ur.assigns():
        if not s["pl"]["p"] and not ur.is_single_def(s["pl"]["l"]) and ur.locals[s["pl"]["l"]]["ty"] == "f64":
            upd.append((l, acnf(ur.rvalue_expr(s["rv"]))))
    if not upd:
        # the same filter as an expression: self.rtt_s.map(|r| 0.9*r + 0.1*sample).unwrap_or(sample)
        from rules import split_option_map
        for l, n_, ps in ur.field_writes(r"arg1\.rtt_s"):
            ve = ur.rvalue_expr(n_["rv"]) if n_["k"] == "assign" else None
            if ve and ve[0] == "agg" and ve[1] == "Some" and ve[2]:
                sp = split_option_map(R, ve[2][0])
                if sp and show(sp[0]) == "arg1.rtt_s":
                    upd = [(None, acnf(sp[1])), (None, acnf(sp[2]))]
    forms = sorted(x for _, x in upd)
    inst.site(ur, None, "update_rtt: " + " | ".join(forms))
    if forms != ["(1/10*arg2 + 9/10*arg1.rtt_s@Some.0)", "arg2"]:
        inst.violation(ur.path, "rtt filter", "RTT estimate is updated as %s; expected 0.9*R + 0.1*sample (first sample taken as is)" % forms)
    else:
        for l, x in upd:
            if l is None:
                continue  # expression form: the arms are the closure (Some) and the default (None) by construction
            need = r"is\(arg1\.rtt_s,Some\)" if "9/10" in x else r"is\(arg1\.rtt_s,None\)"
            good, _ = dnf_holds(cx.fa(ur).at(l), [[need]])
            if not good:
                inst.violation(ur.path, "rtt filter arm", "the first-sample / filtered arms of update_rtt are swapped", at=ur.span_at(l))


def rtt_filter_shape(cx, iid):
    """T7 SHAPE: the RTT estimate is the 0.9 / 0.1 moving average of the samples, the first sample taken as it is."""
    with cx.instance(iid, "T7 SHAPE (AC-normal form)", "update_rtt: R = 0.9*R + 0.1*sample, first sample as is", floor=1) as inst:
        _rtt_filter(cx, inst)


def store_cases(b, fa, loc, node):
    """a store `field = v` where v is a local assigned in several arms (`let x = match .. {..}; self.f = x`) is read as
    one store per definition of v, each with the facts holding where that value was chosen"""
    e = show(b.rvalue_expr(node["rv"]))
    m = re.fullmatch(r"var(\d+)(@Some\.0)?", e)
    if m and len(b.defs.get(int(m.group(1)), [])) > 1:
        out = []
        for dloc, kind, dn in b.defs[int(m.group(1))]:
            v = show(b.rvalue_expr(dn["rv"])) if kind == "assign" else show(b.call_expr(dn))
            if m.group(2):
                # `let new = match .. { .. => Some(x), .. => None }; if let Some(v) = new { field = v }`
                mm = re.fullmatch(r"Some\{(.*)\}", v)
                if not mm:
                    if v == "None{}":
                        continue
                    return [(loc, e, fa.at(loc) if fa else None)]
                v = mm.group(1)
            out.append((dloc, v, fa.at(dloc) if fa else None))
        return out
    return [(loc, e, fa.at(loc) if fa else None)]


def inst_rate_floor(cx, iid):
    R = cx.R
    with cx.instance(iid, "T2/T7 floor", "every write of the allowed rate outside the constructor is floored (or is the ceiling clamp); halvings are max(X/2, floor)", floor=6) as inst:
        MR = r"half_connection::send_rate::MINIMUM_RATE"
        INIT = r"send_rate::compute_initial_send_rate\(SendRateComp::update_rtt\(arg1,send_rate::ms_to_s\(arg3\.rtt_ms\)\)\.0\)"
        TCP = r"arg1\.mode@ThroughputEqn\.0\.send_rate_tcp"
        def mn(a, b):
            return r"(?:Ord::min\(%s,%s\)|Ord::min\(%s,%s\))" % (a, b, b, a)
        def mx(a, b):
            return r"(?:Ord::max\(%s,%s\)|Ord::max\(%s,%s\))" % (a, b, b, a)
        # exact forms (RFC 5348 4.3 step 5, 4.4 step 1, 6.3.1): the receive-rate limit caps (min), the floor lifts (max)
        OKF = [
            (mx(mn(r"var\d+", r"var\d+"), MR), "first loss: max(min(X_target, recv_limit), s/64)"),
            (mx(mn(r"(?:mul\(2,arg1\.send_rate\)|u32::saturating_mul\(arg1\.send_rate,2\))", r"var\d+"), INIT), "slow start: max(min(2X, recv_limit), W_init/R)"),
            (INIT, "first feedback: W_init/R"),
            (mx(mn(TCP, r"var\d+"), MR), "equation phase: max(min(X_Bps, recv_limit), s/64)"),
            (mx(r"div\(arg1\.send_rate,2\)", MR), "no feedback: max(X/2, s/64)"),
            (mx(mn(TCP, mx(r"div\(" + mn(TCP, r"u32::saturating_mul\(RecvRateSet::max\(arg1\.recv_rate_set\),2\)") + r",2\)", MR)), MR), "no feedback (equation phase): max(min(X_Bps, max(limit/2, s/64)), s/64)"),
            (r"Ord::min\(arg1\.send_rate,arg1\.max_send_rate\)|Ord::min\(arg1\.max_send_rate,arg1\.send_rate\)", "ceiling clamp"),
        ]
        n = 0
        for b in R.all_bodies():
            if "send_rate::SendRateComp::" not in b.path or b.path.endswith("::new"):
                continue
            for l, node, ps in b.field_writes(r"arg1\.send_rate"):
                if node["k"] != "assign":
                    inst.violation(b.path, "send_rate write", "send_rate assigned from a call result without a floor", at=b.span_at(l))
                    continue
                n += 1
                for l_, e, _alts in store_cases(b, None, l, node):
                    form = None
                    for rx, nm in OKF:
                        if re.fullmatch(rx, e):
                            form = nm
                            break
                    inst.site(b, l_, "send_rate = %s" % e[:80], {"form": form})
                    if form is None:
                        inst.violation(b.path, "send_rate write without floor", "allowed rate is set to `%s`, which is none of the RFC 5348 update forms (receive-rate limit as a cap, s/64 or W_init/R as a floor)" % e[:160], at=b.span_at(l_))
                    if "div(arg1.send_rate,2)" in e and not re.fullmatch(r"Ord::max\(div\(arg1\.send_rate,2\),half_connection::send_rate::MINIMUM_RATE\)", e):
                        inst.violation(b.path, "halving", "a halving of the rate is not max(X/2, s/64): `%s`" % e[:120], at=b.span_at(l_))
        if n < 5:
            inst.violation("half_connection::send_rate::SendRateComp", "send_rate writes", "fewer send_rate writes than counted by hand (anchor)")
        # recv_limit = 2*max(X_recv_set) unless the loss rate increased (RFC 5348 4.3 step 4)
        hf = R.body("SendRateComp::handle_feedback")
        fa = cx.fa(hf)
        lim = {}
        for l in range(len(hf.locals)):
            if len(hf.defs.get(l, [])) < 2:
                continue
            vals = [(loc, v) for loc, v, _ in effective_defs(hf, None, l)]
            if len(vals) == 3 and all("RecvRateSet::" in v for _, v in vals):
                for loc, v in vals:
                    lim[re.sub(r"\(.*", "", v.replace("u32::saturating_mul(", "2x "))] = v
        inst.site(hf, None, "recv_limit forms: %s" % sorted(lim))
        if sorted(lim) != ["2x RecvRateSet::data_limited_update", "2x RecvRateSet::rate_limited_update", "RecvRateSet::loss_increase_update"]:
            inst.violation(hf.path, "recv_limit", "recv_limit is computed as %s; expected 2*X_recv_set except after a loss increase" % sorted(lim))




def inst_update_guards(cx, iid):
    """T8 TABLE: which RFC 5348 update applies when.  In handle_feedback the four rate updates are reached under exactly
    their conditions — a reported loss increase during slow start ends slow start (first-loss form, mode becomes
    ThroughputEqn), doubling happens only without a loss increase, at most once per RTT, the initial window only at the
    first feedback, and the equation form exactly in the equation phase — and the receive-rate limit is 2 * X_recv_set
    for rate-limited and data-limited intervals and X_recv_set itself after a loss increase.  The forms themselves are
    C14.c; this instance decides their guards: a doubling that is reached after a loss report exceeds the throughput
    equation, a limit of 3 * X_recv lets one feedback more than double the rate."""
    R = cx.R
    LI, NLI = r"lt\(arg1\.prev_loss_rate,arg3\.loss_rate\)", r"le\(arg3\.loss_rate,arg1\.prev_loss_rate\)"
    SS, TE = r"is\(arg1\.mode,SlowStart\)", r"is\(arg1\.mode,ThroughputEqn\)"
    TLD = r"arg1\.mode@SlowStart\.0\.time_last_doubled_ms"
    with cx.instance(iid, "T8 TABLE (guards of the update forms)", "handle_feedback reaches each rate update under exactly its RFC 5348 condition; recv_limit is 2*X_recv_set except after a loss increase", floor=5) as inst:
        b = R.body("SendRateComp::handle_feedback")
        fa = cx.fa(b, kill_fields=False)
        want = [
            (r"Ord::max\(Ord::min\(var\d+,var\d+\),.*MINIMUM_RATE\)", "first loss", [SS, LI]),
            (r"Ord::max\(Ord::min\((?:mul\(2,arg1\.send_rate\)|u32::saturating_mul\(arg1\.send_rate,2\)),var\d+\),send_rate::compute_initial_send_rate\(.*\)\)", "doubling", [SS, NLI, r"is\(%s,Some\)" % TLD, r"le\(SendRateComp::update_rtt\(.*\)\.1,sub\(arg2,%s@Some\.0\)\)" % TLD]),
            (r"send_rate::compute_initial_send_rate\(.*\)", "first feedback", [SS, NLI, r"is\(%s,None\)" % TLD]),
            (r"Ord::max\(Ord::min\(arg1\.mode@ThroughputEqn\.0\.send_rate_tcp,var\d+\),.*MINIMUM_RATE\)", "equation", [TE]),
        ]
        seen = set()
        from mirlib import alt_satisfies
        for l, node, ps in b.field_writes(r"arg1\.send_rate"):
            if node["k"] != "assign":
                continue
            for l2, e, alts_ in store_cases(b, fa, l, node):
                for rx, nm, guard in want:
                    if re.fullmatch(rx, e):
                        seen.add(nm)
                        alts = alts_ or []
                        bad = [a for a in alts if not alt_satisfies(a, guard)]
                        inst.site(b, l2, "%s update under %s" % (nm, " & ".join(g.replace("\\", "") for g in guard))[:150])
                        if bad or not alts:
                            inst.violation(b.path, nm + " update guard", "the %s update of the allowed rate is reachable without its RFC 5348 condition (%s)" % (nm, " and ".join(g.replace("\\", "") for g in guard)[:200]),
                                           at=b.span_at(l2), detail={"facts_on_offending_path": sorted(bad[0]) if bad else []})
                        break
        for nm in ("first loss", "doubling", "first feedback", "equation"):
            if nm not in seen:
                inst.violation(b.path, nm + " update", "handle_feedback has no %s update of the allowed rate (anchor / C14.c form)" % nm)
        # the transition: the first-loss update goes with mode = ThroughputEqn, and nothing else leaves slow start
        mw = [(l, show(b.rvalue_expr(node["rv"]))) for l, node, ps in b.field_writes(r"arg1\.mode") if node["k"] == "assign"]
        for l, v in mw:
            inst.site(b, l, "mode = " + v[:60])
            alts = fa.at(l) or []
            if not v.startswith("SendRateMode::ThroughputEqn") or not alts or any(not alt_satisfies(a, [SS, LI]) for a in alts):
                inst.violation(b.path, "mode transition", "handle_feedback sets the mode to `%s` outside (slow start and loss increase)" % v[:80], at=b.span_at(l))
        if len(mw) != 1:
            inst.violation(b.path, "mode transition", "expected exactly one transition slow start -> equation phase in handle_feedback (found %d)" % len(mw))
        # recv_limit and the first-loss target: value per condition
        tables = {
            "recv_limit": [(r"u32::saturating_mul\(RecvRateSet::rate_limited_update\(arg1\.recv_rate_set,arg2,arg3\.receive_rate,.*\),2\)", [r"arg3\.rate_limited"]),
                           (r"RecvRateSet::loss_increase_update\(arg1\.recv_rate_set,arg2,arg3\.receive_rate\)", [r"!arg3\.rate_limited", LI]),
                           (r"u32::saturating_mul\(RecvRateSet::data_limited_update\(arg1\.recv_rate_set,arg2,arg3\.receive_rate\),2\)", [r"!arg3\.rate_limited", NLI])],
            "first-loss target": [(r"send_rate::compute_initial_loss_send_rate\(.*\)", [r"is\(%s,None\)" % TLD]),
                                  (r"div\(arg1\.send_rate,2\)", [r"is\(%s,Some\)" % TLD])],
        }
        for l in range(len(b.locals)):
            if len(b.defs.get(l, [])) < 2:
                continue
            eds = effective_defs(b, fa, l)
            vals = [(loc, v) for loc, v, _ in eds]
            ealts = {(loc, v): a for loc, v, a in eds}
            for tname, rows in tables.items():
                if len(vals) == len(rows) and any(re.fullmatch(rows[0][0], v) for _, v in vals):
                    for loc, v in vals:
                        row = [g for rx, g in rows if re.fullmatch(rx, v)]
                        inst.site(b, loc, "%s = %s" % (tname, v[:80]))
                        if not row:
                            inst.violation(b.path, tname, "%s is computed as `%s`, which is none of its RFC 5348 forms" % (tname, v[:140]), at=b.span_at(loc))
                            continue
                        alts = ealts.get((loc, v)) or []
                        if not alts or any(not alt_satisfies(a, row[0]) for a in alts):
                            inst.violation(b.path, tname + " guard", "%s takes the value `%s` outside its condition (%s)" % (tname, v[:100], " and ".join(g.replace("\\", "") for g in row[0])), at=b.span_at(loc))


def inst_feedback_report(cx, iid):
    """T7 SHAPE: what a feedback report says is what was measured: the RTT sample is now minus the send time of the
    newest acknowledged frame, the receive rate is the acknowledged bytes divided by the seconds since the previous
    report (0 for the first one), the loss rate is the loss-interval estimate and the rate-limited flag is the one
    collected.  The estimates C14 bounds are filters over exactly these samples."""
    R = cx.R
    with cx.instance(iid, "T7 SHAPE", "FeedbackGen::get_feedback reports rtt = now - last_send_time, X_recv = bytes / seconds since the last report, p = compute_loss_rate(), the collected rate_limited flag", floor=4) as inst:
        b = R.body("FeedbackGen::get_feedback")
        AD = r"Option::take\(arg1\.ack_data\)@Some\.0"
        hit = False
        for l, st in b.assigns():
            rv = st["rv"]
            if rv["k"] == "agg" and str(rv.get("adt", "")).endswith("FeedbackData") and rv.get("fields"):
                hit = True
                got = {n: b.operand_expr(o) for n, o in zip(rv["fields"], rv["ops"])}
                want = {"rtt_ms": r"sub\(arg2,%s\.last_send_time_ms\)" % AD, "loss_rate": r"LossIntervalQueue::compute_loss_rate\(arg1\.loss_intervals\)", "rate_limited": AD + r"\.rate_limited"}
                for k, rx in want.items():
                    v = show(got.get(k, ("?",)))
                    inst.site(b, l, "%s = %s" % (k, v[:90]))
                    if not re.fullmatch(rx, v):
                        inst.violation(b.path, "feedback " + k, "the feedback report's %s is `%s`" % (k, v[:140]), at=b.span_at(l))
                from rules import case_values
                rates = sorted({show(ce) for alts, ce in case_values(cx, b, got["receive_rate"])})
                inst.site(b, l, "receive_rate in %s" % [r[:100] for r in rates])
                ok = len(rates) == 2 and "0" in rates and any(re.fullmatch(r"cast<u32>\(f64::clamp\(div\(cast<f64>\(%s\.total_ack_size\),frame_queue::ms_to_s\(sub\(arg2,arg1\.last_feedback_ms@Some\.0\)\)\),0(\.0)?,cast<f64>\(.*u32.*MAX\)\)\)" % AD, r) for r in rates)
                if not ok:
                    inst.violation(b.path, "feedback receive_rate", "the reported receive rate is %s: expected bytes acknowledged / seconds since the previous report (0 for the first)" % [r[:120] for r in rates], at=b.span_at(l))
        if not hit:
            inst.violation(b.path, "FeedbackData", "get_feedback builds no FeedbackData literal (anchor)")
        ms = R.body("frame_queue::ms_to_s")
        e = show(ms.local_expr(0))
        inst.site(ms, None, "frame_queue::ms_to_s = " + e)
        if e not in ("div(cast<f64>(arg1),1000.0)", "div(cast<f64>(arg1),1000)"):
            inst.violation(ms.path, "ms_to_s", "frame_queue::ms_to_s is `%s`, not v / 1000" % e)


def run(cx):
    R = cx.R
    with cx.instance("C14.a", "T7 SHAPE (AC-normal form)", "TCP throughput equation, RTT filter, RTO and initial rates are the RFC 5348 expressions", floor=6) as inst:
        want = {
            SR + "eval_tcp_throughput": "1472*1/((12*(1 + 32*arg2*arg2)*arg2*f64::sqrt(3/8*arg2) + f64::sqrt(2/3*arg2))*arg1)",
            SR + "compute_initial_send_rate": "4380*1/(arg1)",
            SR + "compute_initial_loss_send_rate": "736*1/(arg1)",
        }
        mss = R.const_int(SR + "MSS")
        itw = R.const_int(SR + "INITIAL_TCP_WINDOW")
        want[SR + "eval_tcp_throughput"] = want[SR + "eval_tcp_throughput"].replace("1472", str(mss))
        want[SR + "compute_initial_send_rate"] = want[SR + "compute_initial_send_rate"].replace("4380", str(itw))
        want[SR + "compute_initial_loss_send_rate"] = want[SR + "compute_initial_loss_send_rate"].replace("736", str(mss // 2))
        for fn, w in want.items():
            b = R.body(fn)
            from rules import strip_result_cast
            got = acnf(strip_result_cast(b.local_expr(0)))  # the functions return u32: the final (saturating) conversion is the return type
            inst.site(b, None, "%s = %s" % (fn.split("::")[-1], got))
            if got != w:
                inst.violation(b.path, "formula", "%s computes `%s`; RFC 5348 transcription expected `%s`" % (fn.split("::")[-1], got, w))
        _rtt_filter(cx, inst)
        uo = R.body("SendRateComp::update_rto")
        got = [acnf(uo.call_expr(t)) for l, t in uo.calls("f64::max")]
        inst.site(uo, None, "update_rto: " + " | ".join(got))
        if got != ["f64::max(%d*1/(arg3),4*arg2)" % (2 * mss)]:
            inst.violation(uo.path, "rto", "RTO is %s; expected max(4*R, 2*s/X)" % got)
        # slow-start step
        hf = R.body("SendRateComp::handle_feedback")
        steps = [v for l, n, ps in hf.field_writes(r"arg1\.send_rate") if n["k"] == "assign" for _, v, _a in store_cases(hf, None, l, n)]
        ss = [s for s in steps if "mul(2,arg1.send_rate)" in s or "u32::saturating_mul(arg1.send_rate,2)" in s]
        inst.site(hf, None, "slow-start step: " + " | ".join(ss)[:160])
        if len(ss) != 1 or not re.fullmatch(r"Ord::max\(Ord::min\((?:mul\(2,arg1\.send_rate\)|u32::saturating_mul\(arg1\.send_rate,2\)),var\d+\),send_rate::compute_initial_send_rate\(.*\)\)", ss[0]):
            inst.violation(hf.path, "slow-start step", "slow-start update is %s; expected max(min(2*X, recv_limit), W_init/R)" % ss)

    with cx.instance("C14.b", "T9 CONST", "s = MAX_FRAME_SIZE; floor = s/64; W_init = min(max(2s,4380),4s); initial no-feedback timer 2 s", floor=4) as inst:
        mss = R.const_int(SR + "MSS")
        mfs = R.const_int("MAX_FRAME_SIZE")
        inst.site("<const>", None, "MSS=%d MAX_FRAME_SIZE=%d" % (mss, mfs))
        if mss != mfs:
            inst.violation(SR + "MSS", "MSS", "segment size %d differs from MAX_FRAME_SIZE %d" % (mss, mfs))
        mr = R.const_int(SR + "MINIMUM_RATE")
        inst.site("<const>", None, "MINIMUM_RATE=%d" % mr)
        if mr != mss // 64:
            inst.violation(SR + "MINIMUM_RATE", "MINIMUM_RATE", "floor is %d, expected s/64 = %d" % (mr, mss // 64))
        itw = R.const_int(SR + "INITIAL_TCP_WINDOW")
        inst.site("<const>", None, "INITIAL_TCP_WINDOW=%d" % itw)
        if itw != min(max(2 * mss, 4380), 4 * mss):
            inst.violation(SR + "INITIAL_TCP_WINDOW", "INITIAL_TCP_WINDOW", "initial window %d, expected min(max(2s,4380),4s) = %d" % (itw, min(max(2 * mss, 4380), 4 * mss)))
        nf = R.body("SendRateComp::notify_frame_sent")
        ok = False
        for l, n, ps in nf.field_writes(r"arg1\.nofeedback_exp_ms"):
            e = show(nf.rvalue_expr(n["rv"]))
            inst.site(nf, l, "nofeedback_exp_ms = " + e)
            ok = e in ("Some{add(2000,arg2)}", "Some{add(arg2,2000)}")
            mnf = re.fullmatch(r"Some\{add\((?:arg2,([\w:]+)|([\w:]+),arg2)\)\}", e)
            if not ok and mnf:
                try:    # the 2 s as a named constant
                    ok = R.const_int(mnf.group(1) or mnf.group(2)) == 2000
                except Exception:
                    ok = False
        if not ok:
            inst.violation(nf.path, "initial nofeedback timer", "the initial no-feedback timer is not now + 2000 ms")

    inst_rate_floor(cx, "C14.c")
    inst_update_guards(cx, "C14.m")
    inst_feedback_report(cx, "C14.n")
    with cx.instance("C14.g", "T2 PAIR (stores) + T7", "the quantities the bounds are stated over are actually stored: X_Bps is re-evaluated from the current R and p before the equation-phase rate is set; update_rtt/update_rto store the new estimate; s_to_ms = round(max(1000 v, 0)); both feedback and expiry re-arm the no-feedback timer at now + RTO", floor=8) as inst:
        hf = R.body("SendRateComp::handle_feedback")
        tcp_w = [(l, show(hf.rvalue_expr(n["rv"])) if n["k"] == "assign" else show(hf.call_expr(n))) for l, n, ps in hf.field_writes(r"arg1\.mode@ThroughputEqn\.0\.send_rate_tcp")]
        eq_rate = [l for l, n, ps in hf.field_writes(r"arg1\.send_rate") if n["k"] == "assign" and re.fullmatch(r"Ord::max\(Ord::min\(arg1\.mode@ThroughputEqn\.0\.send_rate_tcp,var\d+\),.*MINIMUM_RATE\)", show(hf.rvalue_expr(n["rv"])))]
        for l, v in tcp_w:
            inst.site(hf, l, "X_Bps = " + v[:120])
            if not re.fullmatch(r"send_rate::eval_tcp_throughput\(SendRateComp::update_rtt\(arg1,send_rate::ms_to_s\(arg3\.rtt_ms\)\)\.0,arg3\.loss_rate\)", v):
                inst.violation(hf.path, "X_Bps", "the equation-phase rate is computed as `%s`, expected eval_tcp_throughput(current R, reported p)" % v[:160], at=hf.span_at(l))
        if len(eq_rate) != 1 or not tcp_w:
            inst.violation(hf.path, "equation phase", "expected one equation-phase rate write and a store of X_Bps before it (anchor): %d / %d" % (len(eq_rate), len(tcp_w)))
        else:
            cx.preceded_by(inst, hf, [(eq_rate[0], "send_rate = max(min(X_Bps, limit), s/64)")], [l for l, _ in tcp_w], "rate set from a stale X_Bps", "send_rate_tcp = eval_tcp_throughput(R, p)")
        # entering the equation phase sets the rate from the target for the reported loss: the mode switch is preceded
        # by a rate write, and every re-evaluation of X_Bps is followed by one
        rate_ws = [l for l, n, ps in hf.field_writes(r"arg1\.send_rate") if n["k"] == "assign" and "Ord::min(arg1.send_rate" not in show(hf.rvalue_expr(n["rv"])) and "Ord::min(arg1.max_send_rate" not in show(hf.rvalue_expr(n["rv"]))]
        sw = [(l, "mode = ThroughputEqn") for l, n, ps in hf.field_writes(r"arg1\.mode") if n["k"] == "assign" and "ThroughputEqn" in show(hf.rvalue_expr(n["rv"]))]
        cx.preceded_by(inst, hf, sw, rate_ws, "equation phase entered without setting the rate", "send_rate = max(min(X_target, limit), s/64)")
        cx.followed_by(inst, hf, [(l, "X_Bps re-evaluated") for l, _ in tcp_w], rate_ws, "X_Bps re-evaluated but the rate is left as it was", "send_rate = max(min(X_Bps, limit), s/64)")
        if not sw:
            inst.violation(hf.path, "equation phase", "handle_feedback never enters the throughput-equation phase (anchor)")
        ur = R.body("SendRateComp::update_rtt")
        # the new estimate E: a local assigned in the two arms of the filter, or the filter as one expression
        EST = None
        for l, n, ps in ur.field_writes(r"arg1\.rtt_s"):
            if n["k"] == "assign":
                m_ = re.fullmatch(r"Some\{(.*)\}", show(ur.rvalue_expr(n["rv"])))
                if m_ and (re.fullmatch(r"var\d+", m_.group(1)) or re.fullmatch(r"Option::(unwrap_or\(Option::map|map_or)\(arg1\.rtt_s,.*", m_.group(1))):
                    EST = m_.group(1)
        E_ = re.escape(EST) if EST else r"var\d+"
        for fld, want in (("rtt_s", r"Some\{%s\}" % E_), ("rtt_ms", r"Some\{send_rate::s_to_ms\(%s\)\}" % E_)):
            ws = [(l, show(ur.rvalue_expr(n["rv"]))) for l, n, ps in ur.field_writes(r"arg1\." + fld) if n["k"] == "assign"]
            for l, v in ws:
                inst.site(ur, l, "%s = %s" % (fld, v[:90]))
                if not re.fullmatch(want, v):
                    inst.violation(ur.path, fld + " store", "update_rtt stores %s = `%s`" % (fld, v), at=ur.span_at(l))
            cx.followed_by(inst, ur, [(Loc(0, -1), "entry of update_rtt")], [l for l, _ in ws], fld + " not stored", "self.%s = Some(new estimate)" % fld)
        # the stored estimate is the filtered value that is also returned
        ret = show(ur.local_expr(0))
        inst.site(ur, None, "update_rtt returns " + ret[:80])
        if not re.fullmatch(r"tuple\{%s,send_rate::s_to_ms\(%s\)\}" % (E_, E_), ret) or (EST is None and not re.fullmatch(r"tuple\{(var\d+),send_rate::s_to_ms\(\1\)\}", ret)):
            inst.violation(ur.path, "return", "update_rtt returns `%s`, expected (new R, s_to_ms(new R))" % ret)
        uo = R.body("SendRateComp::update_rto")
        ws = [(l, show(uo.rvalue_expr(n["rv"]))) for l, n, ps in uo.field_writes(r"arg1\.rto_ms") if n["k"] == "assign"]
        for l, v in ws:
            inst.site(uo, l, "rto_ms = " + v[:60])
            if not re.fullmatch(r"Some\{send_rate::s_to_ms\(f64::max\(.*\)\)\}", v):
                inst.violation(uo.path, "rto_ms store", "update_rto stores rto_ms = `%s`" % v, at=uo.span_at(l))
        cx.followed_by(inst, uo, [(Loc(0, -1), "entry of update_rto")], [l for l, _ in ws], "rto_ms not stored", "self.rto_ms = Some(s_to_ms(rto))")
        sm = R.body(SR + "s_to_ms")
        got = show(sm.local_expr(0))
        inst.site(sm, None, "s_to_ms = " + got)
        if got not in ("cast<u64>(f64::round(f64::max(mul(1000.0,arg1),0.0)))", "cast<u64>(f64::round(f64::max(0.0,mul(1000.0,arg1))))", "cast<u64>(f64::round(f64::max(mul(arg1,1000.0),0.0)))"):
            inst.violation(sm.path, "s_to_ms", "s_to_ms is `%s`, expected round(max(1000*v, 0)) as u64" % got)
        ms = R.body(SR + "ms_to_s")
        got = show(ms.local_expr(0))
        inst.site(ms, None, "ms_to_s = " + got)
        if got != "div(cast<f64>(arg1),1000.0)":
            inst.violation(ms.path, "ms_to_s", "ms_to_s is `%s`, expected v as f64 / 1000" % got)
        # re-arming (RFC 5348 4.3 step 6, 4.4 step 3)
        for fn, rx in (("SendRateComp::handle_feedback", r"Some\{(?:add|u64::saturating_add)\((arg2,send_rate::s_to_ms\(SendRateComp::update_rto\(.*\)\)|send_rate::s_to_ms\(SendRateComp::update_rto\(.*\)\),arg2)\)\}"),
                       ("SendRateComp::nofeedback_expired", r"Some\{(?:add|u64::saturating_add)\((arg2,send_rate::s_to_ms\(SendRateComp::update_rto\(.*\)\)|send_rate::s_to_ms\(SendRateComp::update_rto\(.*\)\),arg2)\)\}")):
            b = R.body(fn)
            ws = [(l, show(b.rvalue_expr(n["rv"]))) for l, n, ps in b.field_writes(r"arg1\.nofeedback_exp_ms") if n["k"] == "assign"]
            for l, v in ws:
                inst.site(b, l, "nofeedback_exp_ms = " + v[:70])
                if not re.fullmatch(rx, v):
                    inst.violation(b.path, "timer value", "the no-feedback timer is re-armed at `%s`, expected now + s_to_ms(RTO)" % v[:140], at=b.span_at(l))
            cx.followed_by(inst, b, [(Loc(0, -1), "entry of " + fn.split("::")[-1])], [l for l, _ in ws], "no-feedback timer not re-armed", "nofeedback_exp_ms = Some(now + RTO)")

    inst_recv_set(cx, "C14.h")
    from props.shared import loss_rate_shape
    loss_rate_shape(cx, "C14.i")
    from props.C13 import ceiling_clamp
    ceiling_clamp(cx, "C14.d")
    from props.shared import ack_processing_presence
    ack_processing_presence(cx, "C14.f")

    with cx.instance("C14.e", "T5 LOOP", "the throughput-equation inversion loop has a termination variant", floor=1) as inst:
        b = R.body(SR + "eval_tcp_throughput_inv")
        bw = BitWidth(R)
        fa = cx.fa(b)
        Ls = b.loops()
        if not Ls:
            inst.site(b, None, "no loop")
        for L in Ls:
            info = classify(b, L, bw, fa)
            inst.site(b, Loc(L["header"], 0), "%s: %s" % (info.cls, info.desc[:80]))
            if not info.ok:
                inst.violation(b.path, "loop:" + info.desc[:90], "the bisection loop has no recognised termination variant: %s" % (info.why or "unbounded `loop`"), at=info.at)
    inst_time_units(cx, "C14.j")
    from props.shared import ctor_initial_state, nofeedback_timer_writers
    ctor_initial_state(cx, "C14.k")
    nofeedback_timer_writers(cx, "C14.l")


SELFTEST = [
    {"name": "slow start continues after a loss report",
     "edits": [{"file": "src/half_connection/send_rate.rs", "old": "                if loss_increase {\n                    // Nonzero loss", "new": "                if !loss_increase {\n                    // Nonzero loss"}],
     "expect": ["C14.m"]},
    {"name": "receive-rate limit 3 * X_recv",
     "edits": [{"file": "src/half_connection/send_rate.rs", "old": "                let max_val = self.recv_rate_set.data_limited_update(now_ms, recv_rate);\n                max_val.saturating_mul(2)", "new": "                let max_val = self.recv_rate_set.data_limited_update(now_ms, recv_rate);\n                max_val.saturating_mul(3)"}],
     "expect": ["C14.m"]},
    {"name": "RTT sample measured as now + send time",
     "edits": [{"file": "src/half_connection/frame_queue.rs", "old": "let rtt_ms = now_ms - ack_data.last_send_time_ms;", "new": "let rtt_ms = now_ms.wrapping_add(ack_data.last_send_time_ms);"}],
     "expect": ["C14.n"]},
    {"name": "change the 12*sqrt(3p/8) coefficient",
     "edits": [{"file": "src/half_connection/send_rate.rs", "old": "12.0*(p*3.0/8.0).sqrt()", "new": "11.0*(p*3.0/8.0).sqrt()"}],
     "expect": ["C14.a"]},
    {"name": "change RTT alpha to 0.2",
     "edits": [{"file": "src/half_connection/send_rate.rs", "old": "const RTT_ALPHA: f64 = 0.1;", "new": "const RTT_ALPHA: f64 = 0.2;"}],
     "expect": ["C14.a"]},
    {"name": "drop the floor on the throughput-equation rate",
     "edits": [{"file": "src/half_connection/send_rate.rs", "old": "self.send_rate = state.send_rate_tcp.min(recv_limit).max(MINIMUM_RATE);", "new": "self.send_rate = state.send_rate_tcp.min(recv_limit);"}],
     "expect": ["C14.c"]},
    {"name": "X_Bps not re-evaluated on feedback (stale equation rate)",
     "edits": [{"file": "src/half_connection/send_rate.rs", "old": "                state.send_rate_tcp = eval_tcp_throughput(rtt_s, loss_rate);\n", "new": ""}],
     "expect": ["C14.g"]},
    {"name": "update_rtt forgets to store the estimate",
     "edits": [{"file": "src/half_connection/send_rate.rs", "old": "        self.rtt_s = Some(new_rtt_s);\n", "new": ""}],
     "expect": ["C14.g"]},
    {"name": "update_rto forgets to store rto_ms",
     "edits": [{"file": "src/half_connection/send_rate.rs", "old": "        self.rto_ms = Some(s_to_ms(rto_s));\n", "new": ""}],
     "expect": ["C14.g"]},
    {"name": "s_to_ms clamps with min instead of max",
     "edits": [{"file": "src/half_connection/send_rate.rs", "old": "(v_s * 1000.0).max(0.0).round() as u64", "new": "(v_s * 1000.0).min(0.0).round() as u64"}],
     "expect": ["C14.g"]},
    {"name": "expiry does not re-arm the no-feedback timer",
     "edits": [{"file": "src/half_connection/send_rate.rs", "old": "        let rto_s = self.update_rto(self.rtt_s.unwrap_or(0.0), self.send_rate);\n\n        self.nofeedback_exp_ms = Some(now_ms.saturating_add(s_to_ms(rto_s)));\n", "new": "        let _rto_s = self.update_rto(self.rtt_s.unwrap_or(0.0), self.send_rate);\n\n"}],
     "expect": ["C14.g"]},
    {"name": "benign: reorder commutative operands of the equation",
     "edits": [{"file": "src/half_connection/send_rate.rs", "old": "(p*2.0/3.0).sqrt() + 12.0*(p*3.0/8.0).sqrt()*p*(1.0 + 32.0*p*p)", "new": "12.0*p*(3.0*p/8.0).sqrt()*(32.0*p*p + 1.0) + (2.0*p/3.0).sqrt()"}],
     "expect": []},
]
