"""C03 — no network input can crash or hang an endpoint (DESIGN.md §4 C03, Appendix B, C)."""
import re
from collections import defaultdict

from domain import BitWidth
from loops import classify, cycle_avoiding, norm_vars, loop_entry_edges
from mirlib import FactsAnalysis, Loc, dnf_holds, show, sp_str
from rules import call_locs, call_sites, write_sites

SCOPE = ("Complete enumeration, on every run, of (L) all natural loops of the crate with a termination variant "
         "recognised from the MIR (iterator over a finite std collection/range; queue drain where every cycle pops "
         "the tested queue; +1 counter whose bound is proved inside the counter's value domain by an interprocedural "
         "bit-width analysis or an is_valid guard; down-counter) or a reviewed table entry whose linked structural "
         "checks must hold; (P) all explicit panic-capable call sites (unwrap/expect/panic!/RefCell borrows/"
         "copy_from_slice/drain) each auto-discharged from established facts or listed with a reason and linked "
         "checks, plus a RefCell borrow-discipline rule over guard live ranges and the call graph; (B) debug "
         "assertions about wire-fed parameters that no runtime guard backs; (T) debug assertions about the receiving "
         "side's own state: dominated by a runtime test or a reviewed invariant with a frozen writer set and linked "
         "structural checks; (X) every array index and every indexing call outside the parser: recognised idiom, "
         "`index < len` established on every path, or reviewed entry; (V) presence of every refusal clause of "
         "the datagram/ack validators and that the sinks are guarded by them; (I) the frame parser's length guards "
         "dominate its indexing; (D) every integer division has a non-zero divisor; (O, Q, U) every overflow-checked shift, "
         "addition, multiplication and subtraction of the dev-profile MIR cannot overflow: operand bit-widths, structural "
         "bounds, established comparisons, or a reviewed entry, with values converted from unbounded float expressions "
         "never assumed small; (K) the socket is polled again after every datagram. Not decided: the numeric "
         "window invariants behind the reviewed entries are argued, not proved; wall-clock bounds.")

HC = "half_connection::HalfConnection::"


# =================================================================================================
# C03.L


def _t_resend_loop(cx, inst, b, L, info):
    """drain-or-budget: pops on every cycle; the re-push happens only after a successful
    DataFrameEmitter::push (which consumes flush credit / a frame-window slot), and the loop leaves
    when the front entry is not yet due."""
    fa = cx.fa(b)
    ok = True
    for p in getattr(info, "pushes", []):
        alts = fa.at(p)
        good, bad = dnf_holds(alts, [[r"is\(DataFrameEmitter::push\(.*\),Ok\)"]])
        if not good:
            inst.violation(b.path, "re-push without successful send",
                           "resend_queue.push inside the resend loop is reachable without the Ok edge of DataFrameEmitter::push: "
                           "nothing is consumed on that cycle", at=b.span_at(p))
            ok = False
        t = b.node_at(p)
        e = show(b.call_expr(t))
        if not re.search(r"resend_queue::Entry::new\([^,]+\.fragment_ref,add\(arg2,", e):
            inst.violation(b.path, "re-push time", "re-queued entry's resend time is not now_ms + …: `%s`" % e[:160], at=b.span_at(p))
            ok = False
    # the not-yet-due edge leaves the loop
    found = False
    for bb in L["body"]:
        t = b.term(bb)
        if t["k"] == "switch":
            for y, lab in b.succ[bb]:
                lits = fa.edge_lits.get((bb, y, lab[1]), [])
                if any(re.fullmatch(r"lt\(arg2,BinaryHeap::peek\(arg1\.resend_queue\)@Some\.0\.resend_time\)", l) for l in lits):
                    # y must lead out of the loop without returning to the header
                    if not _reaches_within(b, y, L["header"], L["body"]):
                        found = True
    if not found:
        inst.violation(b.path, "not-due exit", "the resend loop has no exit on `entry.resend_time > now_ms`: re-queued entries would be re-sent in the same call")
        ok = False
    return ok


def _reaches_within(b, start, target, region):
    seen = set()
    st = [start]
    while st:
        x = st.pop()
        if x == target:
            return True
        if x in seen or x not in region:
            continue
        seen.add(x)
        for y, _ in b.succ[x]:
            st.append(y)
    return False


def _t_outer_loop(cx, inst, b, L, info):
    """budget: every back edge comes from the pending queue being drained empty, so the next
    iteration must take a packet from the send queue; `emit_packet` -> None leaves the loop."""
    fa = cx.fa(b)
    ok = True
    for src in L["backedges"]:
        alts = fa.in_state.get(src)
        good, bad = dnf_holds(alts, [[r"is\(VecDeque::front\(arg1\.pending_queue\),None\)"]])
        if not good:
            inst.violation(b.path, "outer loop back edge", "the outer loop of emit_data_frames can cycle without having drained pending_queue",
                           at=sp_str(b.term(src).get("sp")))
            ok = False
    eps = [l for l in call_locs(b, "PacketSender::emit_packet") if l.bb in L["body"]]
    if not eps:
        inst.violation(b.path, "emit_packet in outer loop", "outer loop no longer pulls from PacketSender::emit_packet")
        return False
    for l in eps:
        alts = fa.at(l)
        good, _ = dnf_holds(alts, [[r"eq\(0,VecDeque::len\(arg1\.pending_queue\)\)"]])
        if not good:
            ok = False
            inst.violation(b.path, "emit_packet guard", "emit_packet is called although pending_queue may be non-empty", at=b.span_at(l))
    # None edge leaves the loop
    none_exit = False
    for bb in L["body"]:
        t = b.term(bb)
        if t["k"] == "switch":
            for y, lab in b.succ[bb]:
                lits = fa.edge_lits.get((bb, y, lab[1]), [])
                if any(re.fullmatch(r"is\(PacketSender::emit_packet\(arg1\.packet_sender,arg4\),None\)", l) for l in lits):
                    if not _reaches_within(b, y, L["header"], L["body"]):
                        none_exit = True
    if not none_exit:
        inst.violation(b.path, "emit_packet None exit", "`emit_packet` returning None does not leave the outer loop")
        ok = False
    # linked: emit_packet -> Some implies the send queue shrank
    ep = cx.R.body("PacketSender::emit_packet")
    somes = []
    for loc, s in ep.assigns():
        if not s["pl"]["p"] and s["pl"]["l"] == 0 and s["rv"]["k"] == "agg" and s["rv"].get("variant") == "Some":
            somes.append((loc, "return Some(..)"))
    pops = [l for l in call_locs(ep, "VecDeque::pop_front", r"arg1\.packet_send_queue")]
    for loc, lab in somes:
        if ep.reach_from_entry_avoiding(loc, pops) is not None:
            inst.violation(ep.path, "Some without pop_front", "emit_packet can return Some(..) without removing a packet from the send queue", at=ep.span_at(loc))
            ok = False
    if not somes:
        inst.violation(ep.path, "Some return", "emit_packet has no `Some(..)` return (anchor)")
        ok = False
    return ok


def _t_recv_loop(cx, inst, b, L, info):
    """external: one datagram is consumed per iteration from a non-blocking socket"""
    owner = "Server::bind" if b.path.startswith("server::") else "Client::connect"
    ob = cx.R.body(owner)
    nb = [(l, t) for l, t in ob.calls("UdpSocket::set_nonblocking")]
    ok = bool(nb)
    for l, t in nb:
        if show(ob.operand_expr(t["args"][1])) != "true":
            ok = False
    if not ok:
        inst.violation(ob.path, "set_nonblocking(true)", "the socket is not switched to non-blocking mode: the receive loop would block step()")
    return ok


def _t_handle_events(cx, inst, b, L, info):
    """drain-with-requeue: pops every cycle, leaves on `event.time > now`; the callee re-pushes an
    event only with time = now + CONST (CONST > 0) and a decremented retry count."""
    fa = cx.fa(b)
    ok = True
    # an event is taken off the queue only if it is due: a re-queued event (time = now + interval) is therefore
    # not handled again in the same step
    pops = [(l, "pop") for l, t in b.calls("BinaryHeap::pop") if l.bb in L["body"] and show(b.operand_expr(t["args"][0])) == "arg1.client_events"]
    if not pops:
        inst.violation(b.path, "future-event exit", "handle_events no longer pops its timer queue inside the loop (anchor)")
        ok = False
    for l, _ in pops:
        g, bad = dnf_holds(fa.at(l), [[r"le\(BinaryHeap::peek\(arg1\.client_events\)@Some\.0\.time,arg2\)"]])
        if not g:
            inst.violation(b.path, "future-event exit", "handle_events takes an event off the queue without having established `event.time <= now_ms`: a re-queued event would be handled again in the same step", at=b.span_at(l))
            ok = False
    he = cx.R.body("Server::handle_event")
    pushes = call_sites(he, "BinaryHeap::push", r"arg1\.client_events")
    for loc, lab in pushes:
        tw = []
        for l2, node, ps in he.field_writes(r"arg2\.time"):
            e = show(he.rvalue_expr(node["rv"]))
            m = re.fullmatch(r"add\(arg3,(server::[A-Z_]+)\)", e)
            if m and cx.R.const_int(m.group(1)) > 0:
                tw.append(l2)
        cw = [l2 for l2, node, ps in he.field_writes(r"arg2\.count") if show(he.rvalue_expr(node["rv"])) == "sub(arg2.count,1)"]
        if he.reach_from_entry_avoiding(loc, tw) is not None:
            inst.violation(he.path, "requeue without future time", "handle_event re-queues an event without setting time = now_ms + positive constant", at=he.span_at(loc))
            ok = False
        if he.reach_from_entry_avoiding(loc, cw) is not None:
            inst.violation(he.path, "requeue without count decrement", "handle_event re-queues an event without decrementing its retry count", at=he.span_at(loc))
            ok = False
        for l2 in cw:
            good, _ = dnf_holds(cx.fa(he).at(l2), [[r"ne\(0,arg2\.count\)"], [r"ne\(arg2\.count,0\)"]])
            if not good:
                inst.violation(he.path, "requeue guard", "handle_event decrements/re-queues an event without testing count > 0", at=he.span_at(l2))
                ok = False
    return ok


def _t_reorder(guard_fn, callers):
    """counter-u32: the callers establish can_put/can_advance (span < max_span) before the call"""

    def chk(cx, inst, b, L, info):
        ok = True
        meth = b.path.split("::")[-1]
        for cpath in callers:
            cb = cx.R.body(cpath)
            sinks = call_sites(cb, "ReorderBuffer::" + meth)
            if not sinks:
                inst.violation(cb.path, "call of ReorderBuffer::" + meth, "expected caller no longer calls ReorderBuffer::%s (anchor)" % meth)
                ok = False
            for loc, lab in sinks:
                t = cb.node_at(loc)
                a0 = re.escape(show(cb.operand_expr(t["args"][0])))
                a1 = re.escape(show(cb.operand_expr(t["args"][1])))
                good, bad = dnf_holds(cx.fa(cb).at(loc), [[r"ReorderBuffer::%s\(%s,%s\)" % (guard_fn, a0, a1)]])
                if not good:
                    inst.violation(cb.path, "ReorderBuffer::%s without %s" % (meth, guard_fn),
                                   "ReorderBuffer::%s is called without the %s test on the same id: its id-walking loop is then bounded only by the 32-bit id space" % (meth, guard_fn),
                                   at=cb.span_at(loc))
                    ok = False
        # all call sites are in the expected callers
        for ob in cx.R.all_bodies():
            if ob.path in [cx.R.fn(c)["path"] for c in callers] or ob.path == b.path:
                continue
            if call_sites(ob, "ReorderBuffer::" + meth):
                inst.violation(ob.path, "unlisted caller of ReorderBuffer::" + meth, "new caller of ReorderBuffer::%s is not in the reviewed table" % meth)
                ok = False
        return ok

    return chk


LOOP_TABLE = [
    (HC + "emit_data_frames", r"while let Some\(_\) = BinaryHeap::peek\(arg1\.resend_queue\)", "drain-or-budget", _t_resend_loop,
     "every cycle pops; a re-push needs the Ok edge of DataFrameEmitter::push (consumes flush credit / a frame slot) and is scheduled at now+rto*2^k; loop leaves when the front is not due"),
    (HC + "emit_data_frames", r"VecDeque::is_empty\(arg1\.pending_queue\)", "budget", _t_outer_loop,
     "every back edge follows a full drain of pending_queue, so each further iteration consumes one packet of the finite send queue; emit_packet -> None leaves"),
    ("server::Server::handle_frames", r"discr\(UdpSocket::recv_from\(arg1\.socket,var\)\)", "external", _t_recv_loop,
     "one datagram consumed per iteration from a non-blocking socket"),
    ("client::Client::handle_frames", r"discr\(UdpSocket::recv\(arg1\.socket,var\)\)", "external", _t_recv_loop,
     "one datagram consumed per iteration from a non-blocking socket"),
    ("half_connection::reorder_buffer::ReorderBuffer::put", r"ne\(arg1\.base_id,var\)", "counter-u32",
     _t_reorder("can_put", ["FeedbackGen::notify_ack"]), "caller tests can_put(frame_id): span to the new id < max_span"),
    ("half_connection::reorder_buffer::ReorderBuffer::advance", r"ne\(arg1\.base_id,arg1\.frames\[0\]\)", "counter-u32",
     _t_reorder("can_advance", ["FeedbackGen::notify_advancement"]), "frames[0] lies between base_id and new_base_id (loop condition of the enclosing loop); caller tests can_advance"),
    ("half_connection::reorder_buffer::ReorderBuffer::advance", r"ne\(arg1\.base_id,arg2\)", "counter-u32",
     _t_reorder("can_advance", ["FeedbackGen::notify_advancement"]), "caller tests can_advance(new_base_id)"),
]


def check_loops(cx, iid="C03.L", only_fn=None):
    R = cx.R
    bw = BitWidth(R)
    cx.extra["bitwidth_locations"] = len(bw.sources)
    with cx.instance(iid, "T5 LOOP", "every natural loop in the crate has a recognised termination variant", floor=(1 if only_fn else 30), exact_floor=False) as inst:
        classes = {}
        for b in R.all_bodies():
            if only_fn and not b.path.endswith(only_fn):
                continue
            Ls = b.loops()
            if not Ls:
                continue
            fa = cx.fa(b)
            for L in Ls:
                info = classify(b, L, bw, fa)
                key = "loop:" + info.desc[:90]
                classes[info.cls] = classes.get(info.cls, 0) + 1
                rec = inst.site(b, Loc(L["header"], len(b.stmts(L["header"]))), "%s: %s" % (info.cls, info.desc[:90]),
                                {k: v for k, v in info.detail.items() if k != "offending_cycle"})
                # table entries
                entry = None
                for fnp, rx, cls, chk, reason in LOOP_TABLE:
                    if b.path == fnp and re.fullmatch(rx, info.desc):
                        entry = (cls, chk, reason)
                if entry and info.cls in ("unknown", "drain", "counter"):
                    if info.cls == "drain" and info.detail.get("offending_cycle"):
                        inst.violation(b.path, key, "loop `%s`: %s" % (info.desc, info.why), at=info.at, detail=info.detail)
                        continue
                    if info.cls == "counter" and not info.ok:
                        inst.violation(b.path, key, "loop `%s`: %s" % (info.desc, info.why), at=info.at, detail=info.detail)
                        continue
                    rec["what"] = "table(%s): %s" % (entry[0], info.desc[:90])
                    rec["detail"]["reviewed_reason"] = entry[2]
                    entry[1](cx, inst, b, L, info)
                    continue
                if not info.ok:
                    inst.violation(b.path, key,
                                   "loop `%s` (%s): %s" % (info.desc, info.cls, info.why or "no recognised termination variant (not an iterator, queue drain, +1 counter or down-counter, and not in the reviewed table)"),
                                   at=info.at, detail=info.detail)
                elif info.cls == "drain":
                    # a drain whose callees push to the same queue needs the reviewed entry
                    qf = info.detail["queue"].split(".")[-1]
                    if _callees_push(cx, b, L, qf):
                        if b.path == "server::Server::handle_events":
                            rec["what"] = "table(drain-with-requeue): " + info.desc[:90]
                            _t_handle_events(cx, inst, b, L, info)
                        else:
                            inst.violation(b.path, key, "drain loop over `%s` calls a function that pushes to the same queue (needs a reviewed table entry)" % info.detail["queue"], at=info.at)
        cx.extra["loop_classes"] = classes
    # recursion
    with cx.instance(iid + ".rec", "T3 WHO-MAY", "no recursion among crate-local bodies (every call chain is finite)", floor=1) as inst:
        g = R.callgraph()
        local = set(R.fns)
        cyc = _find_cycle({k: [x for x in v if x in local] for k, v in g.items() if k in local})
        inst.site("<callgraph>", None, "%d local bodies, %d edges" % (len(local), sum(len(v) for v in g.values())))
        if cyc:
            inst.violation(cyc[0], "recursion", "crate-local call cycle: " + " -> ".join(cyc))


def _callees_push(cx, b, L, qfield):
    R = cx.R
    g = R.callgraph()
    pushers = set()
    for ob in R.all_bodies():
        for loc, t in ob.calls():
            fn = t.get("fn")
            if fn and R.short(fn) in ("BinaryHeap::push", "VecDeque::push_back", "VecDeque::push_front", "Vec::push") and t["args"]:
                if show(ob.operand_expr(t["args"][0])).endswith("." + qfield):
                    pushers.add(ob.path)
    roots = set()
    for bb in L["body"]:
        t = b.term(bb)
        if t["k"] == "call" and t.get("fn"):
            tgt = R.local_fn_of(t["fn"])
            if tgt:
                roots.add(tgt)
    reach = R.reachable_from(roots)
    return bool(reach & pushers)


def _find_cycle(g):
    color = {}
    stack = []

    def dfs(u):
        color[u] = 1
        stack.append(u)
        for v in g.get(u, ()):
            if color.get(v) == 1:
                return stack[stack.index(v):] + [v]
            if v not in color:
                r = dfs(v)
                if r:
                    return r
        stack.pop()
        color[u] = 2
        return None

    for u in list(g):
        if u not in color:
            r = dfs(u)
            if r:
                return r
    return None


# =================================================================================================
# C03.P

PANIC_CALLEES = {
    "Option::unwrap", "Option::expect", "Result::unwrap", "Result::expect", "panicking::panic", "rt::begin_panic",
    "rt::panic_fmt", "panicking::panic_fmt", "RefCell::borrow", "RefCell::borrow_mut", "[T]::copy_from_slice",
    "[T]::clone_from_slice", "VecDeque::drain", "Vec::drain", "Vec::remove", "Vec::swap_remove", "VecDeque::remove",
    "panicking::assert_failed", "Vec::split_off", "[T]::split_at", "[T]::split_at_mut", "Vec::insert", "panicking::unreachable_display",
    "panicking::panic_explicit", "Option::unwrap_unchecked", "Rc::try_unwrap",
}

API_CONTRACT = {
    "client::Client::connect": "documented caller contract (config validity, address resolution); runs before any network input",
    "client::Client::send": "documented caller contract (size, channel id)",
    "server::Server::bind": "documented caller contract (config validity)",
    "server::Server::address": "local_addr() of a bound socket; not network-fed",
    "server::remote_client::RemoteClient::send": "documented caller contract (size, channel id)",
}


def _lk_try_add_panic(cx, inst, b, loc):
    """`_ => panic!()` after mem::replace in the Active arm: the slot was matched Active in the
    enclosing arm and is not written in between"""
    good, _ = dnf_holds(cx.fa(b).at(loc), [[r"is\(arg1\.window\[.*\],Active\)"]])
    return good, "panic!() arm is reachable although the slot was not matched Active on this path"


def _lk_ack_group_unwrap(cx, inst, b, loc):
    """get_frame_mut(id).unwrap() in the mutation loop <-> a validating loop over the *same range
    and id expression* looks every id up and returns on None, dominates the mutation loop, and the
    log is not mutated in between"""
    R = cx.R
    loops = b.loops()
    look = [l for l, t in b.calls("FrameLog::get_frame")]
    if not look:
        return False, "the validating lookup `frame_log.get_frame(id)` before the mutation loop is gone"
    L1 = [L for L in loops if any(l.bb in L["body"] for l in look)]
    L2 = [L for L in loops if loc.bb in L["body"]]
    if not L1 or not L2:
        return False, "validating loop / mutation loop not found (anchor)"
    L1 = min(L1, key=lambda L: len(L["body"]))
    L2 = max(L2, key=lambda L: len(L["body"]))
    if L1["header"] == L2["header"]:
        return False, "lookup and mutation happen in the same loop: an unknown id is discovered after earlier ids were already mutated"
    # every iteration of L1 performs the lookup
    if cycle_avoiding(b, L1, {l.bb for l in look if l.bb in L1["body"]}) is not None:
        return False, "the validating loop has an iteration that skips the get_frame lookup"
    # None edge leaves without reaching the mutation loop
    fa = cx.fa(b)
    none_seen = False
    for bb in L1["body"]:
        t = b.term(bb)
        if t["k"] == "switch":
            for y, lab in b.succ[bb]:
                lits = fa.edge_lits.get((bb, y, lab[1]), [])
                if any(re.fullmatch(r"is\(FrameLog::get_frame\(.*\),None\)", x) for x in lits):
                    none_seen = True
                    if _can_reach(b, y, L2["header"]):
                        return False, "an unknown frame id (get_frame -> None) does not stop acknowledge_group before the mutation loop"
    if not none_seen:
        return False, "the validating lookup's None case is not tested"
    # L1 dominates L2
    if L1["header"] not in b.dominators()[L2["header"]]:
        return False, "the validating loop does not dominate the mutation loop"
    # same range, same id expression
    def loop_iter_src(L):
        from loops import first_decision
        dbb, calls, sw = first_decision(b, L)
        if not calls:
            return None
        it = calls[-1][1]["args"][0]
        l = it["pl"]["l"]
        hops = 0
        while b.is_single_def(l) and hops < 6:
            lc, kind, node = b.defs[l][0]
            if kind == "assign" and node["rv"]["k"] == "ref":
                l = node["rv"]["pl"]["l"]
            else:
                break
            hops += 1
        srcs = []
        for lc, kind, node in b.defs.get(l, []):
            srcs.append(norm_vars(show(b.rvalue_expr(node["rv"]) if kind == "assign" else b.call_expr(node))))
        return sorted(srcs)
    r1, r2 = loop_iter_src(L1), loop_iter_src(L2)
    if not r1 or r1 != r2:
        return False, "validating loop and mutation loop iterate over different ranges (%s vs %s)" % (r1, r2)
    id1 = {norm_vars(show(b.operand_expr(t["args"][1]))) for l, t in b.calls("FrameLog::get_frame") if l.bb in L1["body"]}
    id2 = {norm_vars(show(b.operand_expr(t["args"][1]))) for l, t in b.calls("FrameLog::get_frame_mut") if l.bb in L2["body"]}
    if id1 != id2:
        return False, "validating loop looks up %s but the mutation loop unwraps %s" % (sorted(id1), sorted(id2))
    for l2, t in b.calls():
        fn = R.short(t.get("fn") or "")
        if fn in ("FrameLog::push", "FrameLog::drain") and not _dominated_after(b, L2, l2):
            return False, "acknowledge_group mutates the frame log (%s) between validation and use" % fn
    return True, ""


def _dominated_after(b, L2, loc):
    return False


def _can_reach(b, start, target):
    seen = set()
    st = [start]
    while st:
        x = st.pop()
        if x == target:
            return True
        if x in seen:
            continue
        seen.add(x)
        for y, _ in b.succ[x]:
            st.append(y)
    return False


def _lk_reorder_cb_unwrap(cx, inst, b, loc):
    """get_frame(id).unwrap() in the reorder callbacks <-> cull_log_entries calls notify_advancement
    before frame_log.drain, and the callers establish can_put/can_advance (C03.L table)"""
    cb = cx.R.body("FrameQueue::cull_log_entries")
    drains = call_locs(cb, "FrameLog::drain")
    adv = call_locs(cb, "FeedbackGen::notify_advancement")
    if not drains or not adv:
        return False, "cull_log_entries no longer calls both notify_advancement and frame_log.drain (anchor)"
    for d in drains:
        if cb.reach_from_entry_avoiding(d, adv) is not None:
            return False, "cull_log_entries can drain the frame log without first advancing the reorder buffer past the culled frames (the callbacks would look up a removed frame)"
    return True, ""


def _lk_panic_mode(cx, inst, b, loc):
    """`_ => panic!()` on the mode in handle_feedback/nofeedback_expired <-> step() returns on
    AwaitSend before calling either, and step is the only caller"""
    R = cx.R
    st = R.body("SendRateComp::step")
    meth = b.path.split("::")[-1]
    sinks = call_sites(st, "SendRateComp::" + meth)
    if not sinks:
        return False, "SendRateComp::step no longer calls %s (anchor)" % meth
    for l, lab in sinks:
        good, bad = dnf_holds(cx.fa(st).at(l), [[r"!is\(arg1\.mode,AwaitSend\)"], [r"is\(arg1\.mode,(SlowStart|ThroughputEqn)\)"]])
        if not good:
            return False, "SendRateComp::step calls %s without having returned on mode == AwaitSend" % meth
    for ob in R.all_bodies():
        if ob.path != st.path and call_sites(ob, "SendRateComp::" + meth):
            return False, "%s has a caller other than SendRateComp::step: %s" % (meth, ob.path)
    # the panic arm is only the AwaitSend arm
    good, bad = dnf_holds(cx.fa(b).at(loc), [[r"!is\(arg1\.mode,SlowStart\)", r"!is\(arg1\.mode,ThroughputEqn\)"], [r"is\(arg1\.mode,AwaitSend\)"]])
    if not good:
        return False, "the panic!() arm is reachable in a mode other than AwaitSend"
    return True, ""


def _lk_rtt_unwrap(cx, inst, b, loc):
    """rtt_s.unwrap() in nofeedback_expired (ThroughputEqn arm) <-> every assignment of
    mode = ThroughputEqn is preceded by update_rtt"""
    R = cx.R
    good, _ = dnf_holds(cx.fa(b).at(loc), [[r"is\(arg1\.mode,ThroughputEqn\)"]])
    if not good:
        return False, "rtt_s.unwrap() is reachable outside the ThroughputEqn arm"
    n = 0
    for ob in R.all_bodies():
        if "send_rate::SendRateComp" not in ob.path:
            continue
        for l, s in ob.assigns():
            if s["pl"]["p"] and show(ob.place_expr(s["pl"])) == "arg1.mode" and "ThroughputEqn" in show(ob.rvalue_expr(s["rv"])):
                n += 1
                ups = call_locs(ob, "SendRateComp::update_rtt")
                if ob.reach_from_entry_avoiding(l, ups) is not None:
                    # the caller may have updated the rtt: one level up
                    callers_ok = _callers_precede(cx, ob, "SendRateComp::update_rtt")
                    if not callers_ok:
                        return False, "mode = ThroughputEqn is assigned in %s on a path without update_rtt: rtt_s may still be None" % ob.path
    if n == 0:
        return False, "no assignment mode = ThroughputEqn found (anchor)"
    return True, ""


def _callers_precede(cx, callee_body, must_call):
    R = cx.R
    meth = callee_body.path.split("::")[-1]
    found = False
    for ob in R.all_bodies():
        for l, lab in call_sites(ob, callee_body.path):
            found = True
            if ob.reach_from_entry_avoiding(l, call_locs(ob, must_call)) is not None:
                return False
    return found


def _lk_recv_set_nonempty(cx, inst, b, loc):
    """RecvRateSet::max: first().unwrap() <-> at every call of max() the set is known non-empty:
    either `!is_empty()` is an established fact, or a push / reset / reset_initial precedes the
    call on every path with no shrinking operation (clear/retain/truncate/pop/remove) in between;
    calls from outside RecvRateSet rely on every public mutator ending non-empty (same rule at exit)."""
    R = cx.R
    SHRINK = ("Vec::clear", "Vec::retain", "Vec::truncate", "Vec::pop", "Vec::remove", "Vec::drain", "Vec::swap_remove")
    GROW = ("Vec::push",)
    REFILL = ("RecvRateSet::reset", "RecvRateSet::reset_initial", "RecvRateSet::replace_max", "RecvRateSet::rate_limited_update", "RecvRateSet::loss_increase_update", "RecvRateSet::data_limited_update")
    bad = []
    nmeth = 0

    def nonempty_at(ob, target, is_exit=False):
        """backward scan over all paths: before reaching `target`, the last relevant event must be a grow"""
        # forward dataflow over {NE, ME}: state at block entry; ME = maybe empty
        grow = {}
        shr = {}
        for l, t in ob.calls():
            sn = R.short(t.get("fn") or "")
            e = show(ob.call_expr(t))
            if sn in GROW and "entries" in e:
                grow[l.bb] = l
            elif sn in REFILL and e.startswith(sn + "(arg1"):
                grow[l.bb] = l
            elif sn in SHRINK and "entries" in e:
                shr[l.bb] = l
        # state: True = non-empty known
        init = not ob.path.endswith("::new") and not ob.path.endswith("::reset_initial") and not ob.path.endswith("::reset")
        # methods other than constructors assume the invariant on entry only if they are not the
        # ones establishing it; being conservative: public mutators assume it (they are called on
        # a set built by reset_initial in SendRateComp::new — checked below)
        state = {0: init}
        work = [0]
        while work:
            x = work.pop()
            st = state[x]
            if x == target.bb and not is_exit:
                pass
            out = st
            if x in shr and (x != target.bb or is_exit or shr[x].idx < target.idx):
                out = False
            if x in grow and (x != target.bb or is_exit or grow[x].idx < target.idx):
                if not (x in shr and shr[x].idx > grow[x].idx):
                    out = True
            for y, lab in ob.succ[x]:
                new = out
                if y in state:
                    new2 = state[y] and new
                    if new2 != state[y]:
                        state[y] = new2
                        work.append(y)
                else:
                    state[y] = new
                    work.append(y)
        return state.get(target.bb, True) if not is_exit else None, state, grow, shr

    for ob in R.all_bodies():
        for l, t in ob.calls("RecvRateSet::max"):
            if "recv_rate_set::RecvRateSet::" in ob.path:
                ne, state, grow, shr = nonempty_at(ob, l)
                st_in = state.get(l.bb, True)
                # events earlier in the same block
                cur = st_in
                evs = sorted([(x.idx, "g") for bb, x in grow.items() if bb == l.bb and x.idx < l.idx] + [(x.idx, "s") for bb, x in shr.items() if bb == l.bb and x.idx < l.idx])
                for _, k in evs:
                    cur = (k == "g")
                if not cur:
                    good, _ = dnf_holds(cx.fa(ob).at(l), [[r"ne\(0,Vec::len\(arg1\.entries\)\)"]])
                    if not good:
                        bad.append("%s calls max() where the set may be empty (a shrinking operation is not followed by a push, and no !is_empty() test guards the call)" % ob.path)
    for ob in R.all_bodies():
        if "recv_rate_set::RecvRateSet::" not in ob.path or "{closure" in ob.path:
            continue
        f = ob.fn
        if not f["inputs"] or not f["inputs"][0].startswith("&mut"):
            continue
        nmeth += 1
        # at every return the set is non-empty
        _, state, grow, shr = nonempty_at(ob, Loc(0, 0), is_exit=True)
        for bb in ob.reachable:
            if ob.is_return(bb):
                cur = state.get(bb, True)
                evs = sorted([(x.idx, "g") for b2, x in grow.items() if b2 == bb] + [(x.idx, "s") for b2, x in shr.items() if b2 == bb])
                for _, k in evs:
                    cur = (k == "g")
                if not cur:
                    bad.append("%s can return with an empty set" % ob.path)
    if nmeth < 5:
        return False, "fewer RecvRateSet mutators found than expected (anchor)"
    # the owner initialises the set before use
    # the set starts empty while mode == AwaitSend; every transition out of AwaitSend fills it
    n_tr = 0
    for ob in R.all_bodies():
        if "send_rate::SendRateComp::" not in ob.path:
            continue
        for l, s2 in ob.assigns():
            if s2["pl"]["p"] and show(ob.place_expr(s2["pl"])) == "arg1.mode":
                alts = cx.fa(ob).at(l)
                in_await, _ = dnf_holds(alts, [[r"is\(arg1\.mode,AwaitSend\)"]])
                if in_await:
                    n_tr += 1
                    if ob.reach_exit_avoiding(l, call_locs(ob, "RecvRateSet::reset_initial")) is not None:
                        return False, "%s leaves AwaitSend without RecvRateSet::reset_initial: the receive-rate set would still be empty when feedback arrives" % ob.path
    if n_tr == 0:
        return False, "no transition out of AwaitSend found (anchor)"
    if bad:
        return False, "; ".join(sorted(set(bad)))
    return True, ""


def _lk_receive_take_unwrap(cx, inst, b, loc):
    """receive(): data.take().unwrap() <-> the entry is known to carry data on this path"""
    good, bad = dnf_holds(cx.fa(b).at(loc), [[r"is\(arg1\.data_entries\[.*\]\.data,Some\)"]])
    if good:
        return True, ""
    return False, "nothing establishes that the stored packet carries data: a dud entry (allocation refused, data None) reaches data.take().unwrap()"


def _lk_sender_slot_unwrap(cx, inst, b, loc):
    """PacketSender::acknowledge: window[idx].unwrap() <-> slots in [base,next) are occupied; the loop
    is entered only under receiver_delta <= span (guard) and the id-domain rule (C03.L)"""
    Ls = [L for L in b.loops() if loc.bb in L["body"]]
    if not Ls:
        return False, "the slot unwrap is no longer inside the id-walking loop (anchor)"
    alts = cx.fa(b).at_loop_entry(Ls[0])
    good, bad = dnf_holds(alts, [[r"le\(packet_id::sub\(arg2,arg1\.base_id\),packet_id::sub\(arg1\.next_id,arg1\.base_id\)\)"]])
    if not good:
        return False, "the id-walking loop is entered without `receiver_delta <= span`: ids beyond next_id have empty slots"
    return True, ""


def _lk_none(cx, inst, b, loc):
    return True, ""


PANIC_TABLE = [
    # (fn path regex, callee, operand regex, reason, linked check)
    (r"half_connection::packet_sender::PacketSender::acknowledge", "Option::unwrap", r"(Option::take\()?arg1\.window\[.*\]\)?", "slots in [base_id,next_id) are occupied (class invariant); bounded by the delta<=span guard and the id-domain rule", _lk_sender_slot_unwrap),
    (r"half_connection::packet_sender::PacketSender::acknowledge", "RefCell::borrow", r".*\.packet", "shared borrow; RefCell discipline rule C03.P.refcell", _lk_none),
    (r"half_connection::packet_receiver::PacketReceiver::receive", "Option::unwrap", r"Option::take\(arg1\.data_entries\[.*\]\.data\)", "entry must be known to carry data", _lk_receive_take_unwrap),
    (r"half_connection::packet_receiver::assembly_window::AssemblyWindow::try_add", "rt::begin_panic", r".*", "`_ => panic!()` after mem::replace: slot matched Active in the enclosing arm", _lk_try_add_panic),
    (r"half_connection::frame_queue::FrameQueue::acknowledge_group", "Option::unwrap", r"FrameLog::get_frame_mut\(.*\)", "first loop returns on None for every id of the group; no log mutation in between", _lk_ack_group_unwrap),
    (r"half_connection::frame_queue::FeedbackGen::notify_(ack|advancement)::\{closure#0\}", "Option::unwrap", r"FrameLog::get_frame\(.*\)", "reorder-buffer ids lie inside the frame log: callers establish can_put/can_advance, cull advances the buffer before draining (log/reorder span invariant reviewed, not proved)", _lk_reorder_cb_unwrap),
    (r"half_connection::frame_queue::FrameQueue::acknowledge_group", "RefCell::borrow_mut", r".*", "RefCell discipline rule C03.P.refcell", _lk_none),
    (r"half_connection::emit::DataFrameEmitter::<'a, F>::push", "RefCell::borrow", r".*", "shared borrow; RefCell discipline rule", _lk_none),
    (r"half_connection::HalfConnection::emit_data_frames", "RefCell::borrow", r".*", "shared borrow; RefCell discipline rule", _lk_none),
    (r"half_connection::send_rate::SendRateComp::(handle_feedback|nofeedback_expired)", "rt::begin_panic", r".*", "`_ => panic!()` on AwaitSend: step() returns on AwaitSend first and is the only caller", _lk_panic_mode),
    (r"half_connection::send_rate::SendRateComp::nofeedback_expired", "Option::unwrap", r"arg1\.rtt_s", "mode == ThroughputEqn implies update_rtt ran", _lk_rtt_unwrap),
    (r"half_connection::recv_rate_set::RecvRateSet::max", "Option::unwrap", r"\[T\]::(first|split_first|last|split_last)\(arg1\.entries\)", "set is non-empty after every mutator", _lk_recv_set_nonempty),
    (r"half_connection::frame_queue::FrameLog::drain", "VecDeque::drain", r".*", "range end = new_base_id - base_id; caller (cull_log_entries) passes an id inside the log: linked to the span guards of forget_frames/advance_transfer_window (reviewed)", _lk_none),
    (r"half_connection::packet_receiver::assembly_window::fragment_buffer::FragmentBuffer::write", r"\[T\]::copy_from_slice", r".*", "destination range has the source's length by construction ([i*M .. i*M+len]); range validity is C04.c/C03.V (fragment id and size validated)", _lk_none),
    (r"frame::serial::write_handshake_syn", r"\[T\]::clone_from_slice", r".*", "writer side, fixed-size literal into a MAX_FRAME_SIZE buffer; not fed by network input", _lk_none),
    (r"frame::serial::write_\w+", r"\[T\]::split_at_mut", r"Box::new\((array|repeat).*", "writer side: split point len - FRAME_CRC_SIZE of a fixed-size literal frame (every literal is longer than the CRC); not fed by network input", _lk_none),
    (r"server::Server::(handle_handshake_ack|handle_disconnect|handle_disconnect_ack|handle_data|handle_ack|handle_sync|handle_event|handle_events|step_active_clients|flush_active_clients|drop)", "RefCell::borrow_mut", r".*", "one RemoteClient borrow at a time inside the server (C03.P.refcell); an application holding its own RefMut across step() is API misuse", _lk_none),
    (r"server::Server::step::\{closure#0\}", "RefCell::borrow", r".*", "retain predicate; no other borrow live (C03.P.refcell)", _lk_none),
    (r"(<frame::Frame as frame::serial::Serialize>::read|frame::serial::read_\w+)", r"\[T\]::split_at", r".*", "split point within the slice: discharged as a `split` obligation of the parser index proof C03.I", _lk_none),
]


def check_panics(cx, iid="C03.P"):
    D = cx.D
    roots = [p for p in D.fns if re.search(r"(client::Client|server::Server|server::remote_client::RemoteClient)::[a-z_]+$", p) and D.fns[p].get("vis") == "Public"]
    roots += [p for p in D.fns if p.endswith("::drop")]
    reach = D.reachable_from(roots)
    cx.extra["entry_points"] = len(roots)
    cx.extra["bodies_reachable_from_entry_points"] = len([p for p in reach if p in D.fns])
    net_roots = [D.fn("client::Client::handle_frame")["path"], D.fn("server::Server::handle_frame")["path"]]
    net_reach = D.reachable_from(net_roots)
    with cx.instance(iid, "T6 PANIC-INV", "every explicit panic-capable site reachable from an entry point is auto-discharged or listed with a linked check that holds", floor=30, exact_floor=False) as inst:
        for b in D.all_bodies():
            if b.path not in reach:
                continue
            fa_kill = None
            for loc, t in b.calls():
                fn = t.get("fn")
                if not fn:
                    continue
                sn = D.short(fn)
                if sn not in PANIC_CALLEES and "panic" not in sn:
                    continue
                x = t["sp"].get("x", [])
                if any("debug_assert" in y for y in x):
                    continue  # C03.B
                if any("unreachable" in y for y in x) and False:
                    pass
                e = b.call_expr(t)
                arg0 = norm_vars(show(e[2][0])) if e[0] == "call" and e[2] else ""
                construct = "%s(%s)" % (sn, arg0[:80])
                rec = inst.site(b, loc, construct)
                # API contract
                if b.path in API_CONTRACT:
                    if b.path in net_reach:
                        inst.violation(b.path, construct, "API-contract panic site became reachable from handle_frame", at=b.span_at(loc))
                    rec["detail"] = {"status": "api-contract", "reason": API_CONTRACT[b.path]}
                    continue
                # auto-discharge: pop().unwrap() under an established front/peek
                if sn in ("Option::unwrap", "Option::expect") and e[2] and e[2][0][0] == "call" and e[2][0][1] in ("VecDeque::pop_front", "BinaryHeap::pop", "FrameAckQueue::pop"):
                    q = show(e[2][0][2][0])
                    peek = {"VecDeque::pop_front": "VecDeque::front", "BinaryHeap::pop": "BinaryHeap::peek", "FrameAckQueue::pop": "FrameAckQueue::peek"}[e[2][0][1]]
                    # facts (killed by intervening &mut calls) at the pop call
                    if fa_kill is None:
                        fa_kill = FactsAnalysis(b, kill_on_mut_calls=True)
                    poploc = None
                    for l2, t2 in b.calls(e[2][0][1]):
                        if show(b.operand_expr(t2["args"][0])) == q and _can_reach(b, l2.bb, loc.bb):
                            poploc = l2
                    good = False
                    if poploc is not None:
                        good, bad = dnf_holds(fa_kill.at(poploc), [[re.escape("is(%s(%s),Some)" % (peek, q))]])
                    if good:
                        rec["detail"] = {"status": "auto", "reason": "some(%s(%s)) established and no mutation of the queue intervenes" % (peek, q)}
                        continue
                    inst.violation(b.path, construct, "pop().unwrap() without an established non-empty test of the same queue on every path", at=b.span_at(loc))
                    continue
                # generic auto-discharge: unwrap(X) with is(X,Some|Ok) established
                if sn in ("Option::unwrap", "Option::expect", "Result::unwrap", "Result::expect") and e[2]:
                    xs = re.escape(show(e[2][0]))
                    good, bad = dnf_holds(cx.fa(b).at(loc), [[r"is\(%s,(Some|Ok)\)" % xs]])
                    if good:
                        rec["detail"] = {"status": "auto", "reason": "operand tested Some/Ok on every path"}
                        continue
                # table
                hit = None
                for frx, callee, orx, reason, chk in PANIC_TABLE:
                    if re.fullmatch(frx, b.path) and re.fullmatch(callee, sn) and re.fullmatch(orx, show(e[2][0]) if e[2] else ""):
                        hit = (reason, chk)
                        break
                if hit is None:
                    inst.violation(b.path, construct, "explicit panic-capable site reachable from an entry point is neither auto-discharged nor in the reviewed table", at=b.span_at(loc))
                    continue
                # linked checks run on configuration R (debug assertions can never be the guard)
                rb = cx.R.body(b.path)
                rloc = None
                for l2, t2 in rb.calls(sn):
                    if norm_vars(show(rb.call_expr(t2))) == norm_vars(show(e)) or sp_str(t2["sp"]) == sp_str(t["sp"]):
                        rloc = l2
                if rloc is None:
                    inst.violation(b.path, construct, "site present in the dev build but not in the release-configuration MIR (cannot evaluate its linked guard)", at=b.span_at(loc))
                    continue
                ok, why = hit[1](cx, inst, rb, rloc)
                rec["detail"] = {"status": "table", "reason": hit[0], "linked_check": hit[1].__name__, "holds": ok}
                if not ok:
                    inst.violation(b.path, construct, "listed panic site's linked guard does not hold: " + why, at=b.span_at(loc))

    refcell_discipline(cx, iid + ".refcell")


def refcell_discipline(cx, iid):
    """no body holds a live Ref/RefMut<T> while it (or anything it calls) takes a conflicting borrow"""
    R = cx.R
    g = R.callgraph()
    # direct borrows per fn: {(T, kind)}
    direct = {}
    for b in R.all_bodies():
        s = set()
        for loc, t in b.calls():
            sn = R.short(t.get("fn") or "")
            if sn in ("RefCell::borrow", "RefCell::borrow_mut"):
                T = (t.get("gargs") or ["?"])[0]
                s.add((T, "mut" if sn.endswith("_mut") else "shared"))
        direct[b.path] = s
    # transitive
    trans = {}
    for p in R.fns:
        acc = set()
        for q in R.reachable_from([p]):
            acc |= direct.get(q, set())
        trans[p] = acc
    with cx.instance(iid, "T2 PAIR (typestate)", "while a Ref/RefMut<T> guard is live, no conflicting borrow of a RefCell<T> is taken directly or through any callee", floor=12, exact_floor=False) as inst:
        for b in R.all_bodies():
            for loc, t in b.calls():
                sn = R.short(t.get("fn") or "")
                if sn not in ("RefCell::borrow", "RefCell::borrow_mut"):
                    continue
                T = (t.get("gargs") or ["?"])[0]
                kind = "mut" if sn.endswith("_mut") else "shared"
                guard = t["dest"]["l"] if not t["dest"]["p"] else None
                inst.site(b, loc, "%s<%s>" % (sn, T.split("::")[-1]))
                if guard is None:
                    continue
                # live range: blocks reachable from the borrow until a drop/move of the guard
                ends = set()
                for bb in b.reachable:
                    tt = b.term(bb)
                    if tt["k"] == "drop" and not tt["pl"]["p"] and tt["pl"]["l"] == guard:
                        ends.add(bb)
                    if tt["k"] == "call":
                        for a in tt["args"]:
                            if a["k"] == "move" and not a["pl"]["p"] and a["pl"]["l"] == guard:
                                ends.add(bb)
                seen = set()
                st = [y for y, _ in b.succ[loc.bb]]
                while st:
                    x = st.pop()
                    if x in seen:
                        continue
                    seen.add(x)
                    tt = b.term(x)
                    if tt["k"] == "call" and tt.get("fn") and x not in ends:
                        csn = R.short(tt["fn"])
                        confl = None
                        if csn in ("RefCell::borrow", "RefCell::borrow_mut"):
                            T2 = (tt.get("gargs") or ["?"])[0]
                            k2 = "mut" if csn.endswith("_mut") else "shared"
                            if T2 == T and (kind == "mut" or k2 == "mut"):
                                # same cell? different cells of the same type are fine only if provably distinct; be exact on the operand
                                if show(b.operand_expr(tt["args"][0])) == show(b.operand_expr(t["args"][0])) or True:
                                    confl = "direct %s" % csn
                        else:
                            tgt = R.local_fn_of(tt["fn"])
                            cands = [tgt] if tgt else []
                            if tt.get("unresolved"):
                                cands = [q for q in g.get(b.path, ()) if q in R.fns and q.split("::")[-1] == tt["fn"].split("::")[-1]]
                            for q in cands:
                                for (T2, k2) in trans.get(q, ()):
                                    if T2 == T and (kind == "mut" or k2 == "mut"):
                                        confl = "via %s (%s borrow)" % (q, k2)
                        if confl:
                            inst.violation(b.path, "%s<%s> live across %s" % (sn, T.split("::")[-1], norm_vars(confl)),
                                           "a %s guard of RefCell<%s> is live while a conflicting borrow can be taken %s: BorrowError/BorrowMutError panic" % (kind, T.split("::")[-1], confl),
                                           at=sp_str(tt["sp"]))
                    if x in ends:
                        continue
                    for y, _ in b.succ[x]:
                        st.append(y)


# =================================================================================================
# C03.B stated beliefs


def _lk_belief_fragment_idx(cx, b, belief):
    """FragmentBuffer::write: idx < num_fragments <-> every write call in try_add happens either on the
    entry just created from this datagram (num_fragments = fragment_id_last + 1) or under equality of
    fragment_id_last with the entry's, and handle_datagram validated fragment_id <= fragment_id_last"""
    R = cx.R
    ta = R.body("AssemblyWindow::try_add")
    ws = call_sites(ta, "FragmentBuffer::write")
    if len(ws) < 2:
        return False, "expected two FragmentBuffer::write call sites in try_add (anchor)"
    for loc, lab in ws:
        good, _ = dnf_holds(cx.fa(ta).at(loc), [
            [r"is\(arg1\.window\[arg2\],Open\)"],
            [r"eq\(arg1\.window\[arg2\]@Active\.0\.last_fragment_id,arg3\.fragment_id_last\)"],
            [r"eq\(arg3\.fragment_id_last,arg1\.window\[arg2\]@Active\.0\.last_fragment_id\)"],
        ])
        if not good:
            return False, "FragmentBuffer::write is called for a fragment whose fragment_id_last was not compared with the entry's"
    hd = R.body("PacketReceiver::handle_datagram")
    for loc, lab in call_sites(hd, "AssemblyWindow::try_add"):
        good, _ = dnf_holds(cx.fa(hd).at(loc), [[r"packet_receiver::datagram_is_valid\(arg2\)"]])
        if not good:
            return False, "try_add is reachable without datagram_is_valid"
    return True, ""


BELIEF_TABLE = [
    (r"half_connection::packet_receiver::assembly_window::fragment_buffer::FragmentBuffer::write", r"lt\(arg2,arg1\.num_fragments\)", _lk_belief_fragment_idx,
     "fragment_id <= fragment_id_last (validator) and fragment_id_last equals the entry's (try_add) and num_fragments = last+1"),
]


def check_beliefs(cx, iid="C03.B"):
    from mirlib import lit_neg
    D, R = cx.D, cx.R
    bw = BitWidth(R)
    net_roots = [D.fn("client::Client::handle_frame")["path"], D.fn("server::Server::handle_frame")["path"]]
    net_reach = D.reachable_from(net_roots)
    with cx.instance(iid, "contradiction rule (stated belief)", "no debug_assert! states a belief about a wire-fed parameter that no runtime guard enforces", floor=20, exact_floor=False) as inst:
        for b in D.all_bodies():
            for loc, t in b.calls("panicking::panic"):
                x = t["sp"].get("x", [])
                if not any("debug_assert" in y for y in x):
                    continue
                fa = cx.fa(b)
                belief = None
                for p, lab in b.pred[loc.bb]:
                    lits = fa.edge_lits.get((p, loc.bb, lab[1])) if lab[0] == "sw" else None
                    if lits:
                        belief = [lit_neg(l) for l in lits]
                if not belief:
                    inst.site(b, loc, "debug_assert (shape not recognised)")
                    continue
                rec = inst.site(b, loc, "debug_assert " + norm_vars(" ∧ ".join(belief))[:100])
                params = set(re.findall(r"\barg(\d+)\b", _strip_index(" ".join(belief))))
                if not params or b.path not in net_reach:
                    continue
                # wire-fed: a caller reachable from handle_frame passes (something derived from) one of
                # its own frame::* parameters
                wire = []
                for ob in D.all_bodies():
                    if ob.path not in net_reach:
                        continue
                    for l2, t2 in ob.calls():
                        if D.local_fn_of(t2.get("fn") or "") != b.path:
                            continue
                        for pi in params:
                            i = int(pi) - 1
                            if i < len(t2["args"]):
                                a = t2["args"][i]
                                roots = _root_locals(ob, a)
                                if any(1 <= r <= ob.argc and ob.locals[r]["ty"].lstrip("&").replace("mut ", "").startswith("frame::") for r in roots):
                                    wire.append((ob, l2, pi, show(ob.operand_expr(a))))
                if not wire:
                    continue
                rec["detail"] = {"wire_fed_from": [(o.path, ae[:80]) for o, _, _, ae in wire][:4]}
                rb = R.body(b.path)
                rfa = cx.fa(rb)
                for bl in belief:
                    # (a) the release body tests it itself before doing any work
                    if _established_everywhere_after_entry(rb, rfa, bl):
                        rec["detail"]["discharged_by"] = "runtime test in the same function"
                        continue
                    # (b) value-domain fact
                    m = re.fullmatch(r"packet_id::is_valid\((arg(\d+))((?:\.[a-z_0-9]+)*)\)", bl)
                    if m:
                        pi = int(m.group(2))
                        cw = bw.loc_width(("ret", "packet_id::add"), 32)
                        if not m.group(3):
                            w = bw.loc_width(("arg", b.path, pi), 32)
                        else:
                            owner = b.locals[pi]["ty"].lstrip("&")
                            owner = owner[4:] if owner.startswith("mut ") else owner
                            w = bw.loc_width(("field", owner, m.group(3).split(".")[-1]), 32)
                        if w <= cw:
                            rec["detail"]["discharged_by"] = "bit-width analysis (%d <= %d bits)" % (w, cw)
                            continue
                    # (c) reviewed table with linked check
                    hit = None
                    for frx, brx, chk, reason in BELIEF_TABLE:
                        if re.fullmatch(frx, b.path) and re.fullmatch(brx, bl):
                            hit = (chk, reason)
                    if hit:
                        ok, why = hit[0](cx, b, bl)
                        rec["detail"]["discharged_by"] = "table: " + hit[1]
                        if ok:
                            continue
                        inst.violation(b.path, "debug_assert(%s)" % norm_vars(bl)[:80], "reviewed belief's linked guard does not hold: " + why, at=b.span_at(loc))
                        continue
                    inst.violation(b.path, "debug_assert(%s)" % norm_vars(bl)[:80],
                                   "the code asserts `%s` only in debug builds, the parameter is fed from a decoded frame field (%s) and no runtime guard or value-domain fact implies it"
                                   % (bl, "; ".join(sorted({o.path + ":" + ae[:60] for o, _, _, ae in wire}))[:240]),
                                   at=b.span_at(loc))


def _strip_index(s):
    """drop `[...]` index sub-expressions: a parameter used only to select a slot of internal state
    is not what the belief is about"""
    out = []
    depth = 0
    for c in s:
        if c == "[":
            depth += 1
        elif c == "]":
            depth -= 1
        elif depth == 0:
            out.append(c)
    return "".join(out)


def _root_locals(ob, a):
    """locals an argument operand derives from (single-def chains through copies, refs, casts and
    value-preserving calls such as clone/deref/next/into_iter)"""
    seen = set()

    def go(op, depth):
        if op["k"] not in ("copy", "move") or depth > 10:
            return
        l = op["pl"]["l"]
        if l in seen:
            return
        seen.add(l)
        for loc, kind, node in ob.defs.get(l, []):
            if kind == "assign":
                rv = node["rv"]
                if rv["k"] == "use":
                    go(rv["op"], depth + 1)
                elif rv["k"] == "ref":
                    go({"k": "copy", "pl": rv["pl"]}, depth + 1)
                elif rv["k"] == "cast":
                    go(rv["op"], depth + 1)
            elif kind == "call" and node["args"]:
                sn = ob.facts.short(node.get("fn") or "")
                if sn.split("::")[-1] in ("clone", "deref", "deref_mut", "unwrap", "next", "into_iter", "iter", "iter_mut", "as_ref", "into"):
                    go(node["args"][0], depth + 1)

    go(a, 0)
    return seen


def _established_everywhere_after_entry(rb, rfa, lit):
    """the literal holds at every Return and at every loop header of the release body (i.e. the
    function tests it and leaves early otherwise)"""
    pts = [bb for bb in rb.reachable if rb.is_return(bb)]
    pts += [L["header"] for L in rb.loops()]
    rx = re.escape(lit)
    n = 0
    for bb in pts:
        st = rfa.in_state.get(bb)
        if st is None:
            continue
        # early-return blocks trivially lack the fact; require it at loop headers when there are loops,
        # else at some non-first return
        n += 1
    hdrs = [L["header"] for L in rb.loops()]
    if hdrs:
        for h in hdrs:
            for p, lab in rb.pred[h]:
                st = rfa.in_state.get(p)
                if st is None or p in [x for L in rb.loops() for x in L["body"]]:
                    continue
                good, _ = dnf_holds(st, [[rx]])
                if not good:
                    return False
        return True
    return False


# -------------------------------------------------------------------------------------------------
# C03.T state beliefs: debug_assert!s in code reachable from handle_frame that speak about the receiver's
# own state (which is filled from frames).  A belief is discharged (a) by a runtime test that dominates it in
# the dev-profile body, or (b) by a reviewed entry: the invariant argument in one line, the set of functions
# that may write the fields it speaks about (frozen: a new writer re-opens the argument) and, where the
# argument has a structural core, a linked check.

PR = r"half_connection::packet_receiver::PacketReceiver::"
RB = r"half_connection::reorder_buffer::ReorderBuffer::"


def _lk_window_span(cx):
    """end_id - base_id <= window: end_id moves only to seq+1 of a packet inside the window (runtime test in
    handle_datagram) or with the base; the base moves only through advance_window, called with an id between base
    and end (receive) or under sender_delta <= window (resynchronize)"""
    R = cx.R
    hd = R.body("PacketReceiver::handle_datagram")
    for loc, node, ps in hd.field_writes(r"arg1\.end_id"):
        good, _ = dnf_holds(cx.fa(hd).at(loc), [[r"lt\(packet_id::sub\(arg2\.sequence_id,arg1\.base_id\),arg1\.receive_window_size\)"]])
        if not good:
            return False, "handle_datagram moves end_id for a packet not tested to lie inside the window"
    callers = sorted(ob.path.split("::")[-1] for ob in R.all_bodies() if call_sites(ob, "PacketReceiver::advance_window"))
    if callers != ["receive", "resynchronize"]:
        return False, "advance_window is called from %s" % callers
    rs = R.body("PacketReceiver::resynchronize")
    for loc, lab in call_sites(rs, "PacketReceiver::advance_window"):
        good, _ = dnf_holds(cx.fa(rs).at(loc), [[r"le\(packet_id::sub\(arg2,arg1\.base_id\),arg1\.receive_window_size\)"]])
        if not good:
            return False, "resynchronize advances the window without the sender_delta <= window test"
    return True, ""


def _lk_flag_data_pair(cx):
    """data is Some only while the slot's data flag is set: the only store of Some data (handle_datagram) sets the
    flag on every path, and every clearing of a data flag follows a take() of the slot's data"""
    R = cx.R
    hd = R.body("PacketReceiver::handle_datagram")
    st = [l for l, n, ps in hd.field_writes(r"arg1\.data_entries\[.*\](\.data)?")]
    fl = [l for l, n, ps in hd.field_writes(r"arg1\.data_flags\[.*\]")]
    if not st or not fl:
        return False, "anchor: data store / flag set not found in handle_datagram"
    for l in st:
        if hd.reach_exit_avoiding(l, fl) is not None:
            return False, "handle_datagram stores packet data without setting the slot's data flag"
    for ob in R.all_bodies():
        if "::PacketReceiver::" not in ob.path or ob.path == hd.path:
            continue
        takes = [l for l, t in ob.calls("Option::take") if re.search(r"arg1\.data_entries\[", show(ob.call_expr(t)))]
        for l, n, ps in ob.field_writes(r"arg1\.data_flags\[.*\]"):
            if not takes or ob.reach_from_entry_avoiding(l, takes) is not None and not any(ob.dominates_loc(tl, l) if hasattr(ob, "dominates_loc") else False for tl in takes):
                # fall back to the path formulation: the write is not reachable from entry without passing a take
                if ob.reach_from_entry_avoiding(l, takes) is not None:
                    return False, "%s clears a data flag without taking the slot's data first" % ob.path.split("::")[-1]
    return True, ""


STATE_BELIEFS = [
    # (function, belief, struct, fields, allowed writers, reason, linked check)
    (PR + "receive", r"le\(packet_id::sub\(arg1\.end_id,arg1\.base_id\),arg1\.receive_window_size\)", "PacketReceiver", ("end_id", "base_id", "receive_window_size"),
     ("new", "handle_datagram", "advance_window"), "window span invariant", _lk_window_span),
    (PR + "advance_window", r"le\(packet_id::sub\(arg2,arg1\.base_id\),arg1\.receive_window_size\)", "PacketReceiver", ("end_id", "base_id", "receive_window_size"),
     ("new", "handle_datagram", "advance_window"), "callers pass an id between base and end (receive) or test sender_delta (resynchronize)", _lk_window_span),
    (PR + "(handle_datagram|receive)", r"le\(packet_id::sub\(Option::unwrap_or\(arg1\.channels\[.*\]\.base_id,arg1\.base_id\),arg1\.base_id\),arg1\.receive_window_size\)", "PacketReceiver", ("channels", "channel_base_markers", "base_id"),
     ("new", "handle_datagram", "set_channel_base_id", "try_unset_channel_base_id", "advance_window", "receive"),
     "a channel base is set to seq+1 of a delivered packet inside the window and unset (marker) when the window base reaches it", _lk_window_span),
    (PR + "set_channel_base_id", r"!is\(arg1\.channel_base_markers\[.*\],Some\)", "PacketReceiver", ("channel_base_markers",),
     ("new", "set_channel_base_id", "try_unset_channel_base_id"),
     "one marker per channel, removed before the new one is placed; two channels cannot have delivered up to the same id", None),
    (PR + "receive", r"!is\(arg1\.data_entries\[.*\]\.data,Some\)", "PacketReceiver", ("data_entries", "data_flags"),
     ("new", "handle_datagram", "receive"), "reached only with the slot's data flag clear (runtime test); flag clear implies data taken", _lk_flag_data_pair),
    (RB + "(put|advance)", r"(ne\(arg1\.base_id,arg1\.frames\[0\]\)|le\(arg1\.frame_count,2\)|ne\(u32::wrapping_sub\(arg1\.frames\[[01]\],arg1\.base_id\),.*\))", "ReorderBuffer", ("base_id", "frames", "frame_count"),
     ("new", "put", "advance"), "two-slot buffer: put() is entered only under can_put (id ahead of base, not stored), slots hold distinct ids ahead of base", None),
    (r"half_connection::packet_receiver::assembly_window::fragment_buffer::FragmentBuffer::finalize", r"le\(arg1\.total_size,\[T\]::len\(arg1\.buffer\)\)", "FragmentBuffer", ("total_size", "buffer"),
     ("new", "write"), "each fragment adds its length once (flag test) and fragment i occupies [i*M, i*M+len) of a buffer of n*M bytes", None),
]


def _field_writers(R, struct, fields):
    out = {}
    frx = r"arg1\.(%s)(\W.*)?" % "|".join(fields)
    mut_rx = re.compile(r"(push|pop|insert|remove|clear|truncate|take|fill|swap|drain|iter_mut|index_mut|as_mut|get_mut|front_mut|back_mut|replace|resize)")
    for b in R.all_bodies():
        if "::%s::" % struct not in b.path:
            continue
        fn = b.path.split("::")[-1]
        for loc, node, ps in b.field_writes(frx):
            out.setdefault(fn, set()).add(re.match(r"arg1\.(\w+)", ps).group(1))
        for loc, t in b.calls():
            sc = show(b.call_expr(t))
            m = re.match(r"([\w:<>\[\] ,']+)\(arg1\.(\w+)", sc)
            if m and m.group(2) in fields and mut_rx.search(m.group(1).split("::")[-1]):
                out.setdefault(fn, set()).add(m.group(2))
    return out


def check_state_beliefs(cx, iid="C03.T"):
    from mirlib import lit_neg
    D, R = cx.D, cx.R
    net_roots = [D.fn("client::Client::handle_frame")["path"], D.fn("server::Server::handle_frame")["path"]]
    net_reach = D.reachable_from(net_roots)
    RECV_SIDE = ("::packet_receiver::", "::reorder_buffer::", "::frame_ack_queue::", "::assembly_window::")
    with cx.instance(iid, "contradiction rule (stated belief about state)", "a debug_assert! about the receiving side's own state, in code reachable from handle_frame, is dominated by a runtime test "
                     "or is a reviewed invariant whose fields are written only by the reviewed functions", floor=8, exact_floor=False) as inst:
        lk_cache = {}
        for b in D.all_bodies():
            if b.path not in net_reach or not any(m in b.path for m in RECV_SIDE):
                continue
            for loc, t in b.calls("panicking::panic"):
                x = t["sp"].get("x", [])
                if not any("debug_assert" in y for y in x):
                    continue
                fa = cx.fa(b)
                belief, pp = None, None
                for p, lab in b.pred[loc.bb]:
                    lits = fa.edge_lits.get((p, loc.bb, lab[1])) if lab[0] == "sw" else None
                    if lits:
                        belief, pp = [lit_neg(l) for l in lits], p
                if not belief:
                    continue
                for bl in belief:
                    if not re.search(r"\barg1\.", bl):
                        continue  # a belief about a parameter only: C03.B
                    rec = inst.site(b, loc, "debug_assert " + norm_vars(bl)[:110])
                    dom, _ = dnf_holds(fa.at(Loc(pp, len(b.stmts(pp)))), [[re.escape(bl)]])
                    if dom:
                        rec["detail"] = {"discharged_by": "dominating runtime test"}
                        continue
                    hit = None
                    for ent in STATE_BELIEFS + [(e[0], e[1], None, (), (), e[3], None) for e in BELIEF_TABLE]:
                        if re.fullmatch(ent[0], b.path) and re.fullmatch(ent[1], bl):
                            hit = ent
                            break
                    if hit is None:
                        inst.violation(b.path, "debug_assert(%s)" % norm_vars(bl)[:90],
                                       "the code asserts `%s` about its own state only in debug builds; the state is filled from received frames, no runtime test dominates the assertion and it is not a reviewed invariant: "
                                       "a peer that can falsify it panics a debug build and leaves a release build in a state its author excluded" % norm_vars(bl)[:200], at=b.span_at(loc))
                        continue
                    _, _, struct, fields, allowed, reason, lk = hit
                    rec["detail"] = {"discharged_by": "reviewed invariant: " + reason}
                    if struct:
                        ws = _field_writers(R, struct, fields)
                        extra = sorted(f for f in ws if f not in allowed)
                        if extra:
                            inst.violation(b.path, "writers of %s.{%s}" % (struct, ",".join(fields)),
                                           "the reviewed argument for `%s` covers the writers %s; %s now write(s) these fields too" % (norm_vars(bl)[:80], list(allowed), extra), at=b.span_at(loc))
                    if lk:
                        if lk not in lk_cache:
                            lk_cache[lk] = lk(cx)
                        ok, why = lk_cache[lk]
                        if not ok:
                            inst.violation(b.path, "debug_assert(%s)" % norm_vars(bl)[:90], "the reviewed invariant's structural core no longer holds: " + why, at=b.span_at(loc))


def check_divisions(cx, iid="C03.D"):
    """T6: integer `/` and `%` panic on a zero divisor in every build profile.  Every division in the crate (rustc emits an
    explicit DivisionByZero / RemainderByZero assertion for each one whose divisor is not a literal) divides by a non-zero
    constant, or `divisor != 0` is established on every path to it."""
    R = cx.R

    def cval(e):
        if e[0] == "cast":
            return cval(e[2])
        if e[0] == "const":
            try:
                return int(str(e[1]))
            except ValueError:
                try:
                    return R.const_int(str(e[3] or e[1]))
                except Exception:
                    return None
        if e[0] == "bin" and e[1] in ("Mul", "Add", "Sub", "Div", "Shl"):
            a, b_ = cval(e[2]), cval(e[3])
            if a is None or b_ is None or (e[1] == "Div" and b_ == 0):
                return None
            return {"Mul": a * b_, "Add": a + b_, "Sub": a - b_, "Div": a // b_ if b_ else 0, "Shl": a << b_ if 0 <= b_ < 64 else 0}[e[1]]
        return None
    with cx.instance(iid, "T6 division inventory", "every integer division / remainder divides by a non-zero constant or under an established `divisor != 0`", floor=20, exact_floor=False) as inst:
        for b in R.all_bodies():
            for bb in sorted(b.reachable):
                t = b.term(bb)
                if t["k"] != "assert" or str(t.get("msg")) not in ("DivisionByZero", "RemainderByZero"):
                    continue
                loc = Loc(bb, len(b.stmts(bb)))
                ce = b.operand_expr(t["cond"])
                d = None
                if ce[0] == "bin" and ce[1] == "Eq":
                    d = ce[3] if show(ce[2]) == "0" else ce[2] if show(ce[3]) == "0" else None
                ds = show(d) if d is not None else show(ce)
                v = cval(d) if d is not None else None
                status = None
                if v is not None and v != 0:
                    status = "constant %d" % v
                elif d is not None:
                    good, _ = dnf_holds(cx.fa(b).at(loc), [[r"ne\(0,%s\)" % re.escape(ds)], [r"lt\(0,%s\)" % re.escape(ds)], [r"ne\(%s,0\)" % re.escape(ds)]])
                    if good:
                        status = "guarded: divisor != 0 on every path"
                inst.site(b, loc, "%s by %s" % (t.get("msg"), norm_vars(ds)[:60]), {"status": status})
                if not status:
                    inst.violation(b.path, "division by " + norm_vars(ds)[:70], "integer division whose divisor `%s` is neither a non-zero constant nor tested non-zero on every path: a zero divisor panics in every build profile" % ds[:140], at=b.span_at(loc))


# =================================================================================================
# C03.O shift amounts


def _peel_single(b, op):
    """follow single-definition copies and integer casts of an operand back to the operand they were computed from"""
    for _ in range(6):
        if op["k"] not in ("copy", "move") or op["pl"]["p"]:
            return op
        l = op["pl"]["l"]
        ds = b.defs.get(l, [])
        if len(ds) != 1 or ds[0][1] != "assign":
            return op
        rv = ds[0][2]["rv"]
        if rv["k"] == "use":
            op = rv["op"]
        elif rv["k"] == "cast" and rv.get("ck") == "IntToInt" and not rv.get("from", "").startswith("i"):
            op = rv["op"]
        else:
            return op
    return op


def _excl_upper_bound(cx, b, e, depth=0):
    """an exclusive upper bound of the unsigned value of expression e, or None: constants, x % c, x & c, a + c, min,
    loop variables of literal-bounded ranges (also reversed), multi-definition locals (maximum over the definitions)"""
    if depth > 6:
        return None
    R = cx.D
    if e[0] == "cast":
        return _excl_upper_bound(cx, b, e[2], depth + 1)
    if e[0] == "const":
        try:
            return int(str(e[1])) + 1
        except ValueError:
            try:
                return R.const_int(str(e[3] or e[1])) + 1
            except Exception:
                return None
    if e[0] == "bin" and e[1] == "Rem":
        c = _excl_upper_bound(cx, b, e[3], depth + 1)
        return c - 1 if c and c > 1 else None
    if e[0] == "bin" and e[1] == "BitAnd":
        cs = [x for x in (_excl_upper_bound(cx, b, e[2], depth + 1), _excl_upper_bound(cx, b, e[3], depth + 1)) if x]
        return min(cs) if cs else None
    if e[0] == "bin" and e[1] in ("Add", "AddWithOverflow"):
        a, c = _excl_upper_bound(cx, b, e[2], depth + 1), _excl_upper_bound(cx, b, e[3], depth + 1)
        return a + c - 1 if a and c else None
    if e[0] == "call" and re.fullmatch(r"(u8|u16|u32|u64|usize)::(leading_zeros|trailing_zeros|count_ones|count_zeros)", e[1]):
        return {"u8": 8, "u16": 16, "u32": 32, "u64": 64, "usize": 64}[e[1].split("::")[0]] + 1
    if e[0] == "bin" and e[1] in ("Sub", "SubWithOverflow"):
        a = _excl_upper_bound(cx, b, e[2], depth + 1)
        return a   # a - b <= a wherever the subtraction itself does not wrap (C03.U)
    if e[0] == "call" and e[1] == "Option::map_or" and len(e[2]) == 3 and e[2][2][0] == "agg" and str(e[2][2][1]).startswith("closure:"):
        try:
            cb = R.body(str(e[2][2][1])[len("closure:"):])
            d, r = _excl_upper_bound(cx, b, e[2][1], depth + 1), _excl_upper_bound(cx, cb, cb.local_expr(0), depth + 1)
            return max(d, r) if d and r else None
        except Exception:
            return None
    if e[0] == "call" and e[1].split("::")[-1] == "min" and len(e[2]) == 2:
        cs = [x for x in (_excl_upper_bound(cx, b, e[2][0], depth + 1), _excl_upper_bound(cx, b, e[2][1], depth + 1)) if x]
        return min(cs) if cs else None
    sh = show(e)
    m = re.fullmatch(r"(?:Range|Rev|RangeInclusive|Iterator)::(?:next|find|rfind)\(var(\d+)(?:,closure:.*)?\)@Some\.0", sh)
    if m:
        K = int(m.group(1))
        for l2, kind, node in b.defs.get(K, []):
            ce = b.call_expr(node) if kind == "call" else b.rvalue_expr(node["rv"]) if kind == "assign" else None
            for _ in range(3):
                if ce and ce[0] == "call" and ce[1].split("::")[-1] in ("into_iter", "rev") and ce[2]:
                    ce = ce[2][0]
            if ce and ce[0] == "agg" and ce[1] == "Range":
                return _excl_upper_bound_hi(cx, b, ce[2][1], depth + 1)
        return None
    if sh == "arg2" and "{closure#" in b.path:
        # the element parameter of a closure handed to an iterator adaptor in the enclosing function
        try:
            pb = R.body(b.path.rsplit("::{closure#", 1)[0])   # also a helper whose code was inlined into its caller
        except Exception:
            return None

        def _range_of(ex):
            for _ in range(3):
                if ex and ex[0] == "call" and ex[1].split("::")[-1] in ("into_iter", "rev") and ex[2]:
                    ex = ex[2][0]
            return ex if ex and ex[0] == "agg" and ex[1] == "Range" else None
        for l2, t2 in pb.calls():
            ce = pb.call_expr(t2)
            if not (isinstance(ce, tuple) and len(ce) >= 3 and ce[0] == "call" and isinstance(ce[2], (list, tuple))):
                continue
            if len(ce[2]) == 2 and show(ce[2][1]).startswith("closure:" + b.path) and ce[1].split("::")[-1] in ("find", "rfind", "any", "all", "position", "for_each", "take_while", "skip_while", "filter", "map"):
                it = ce[2][0]
                rg = _range_of(it)
                mm = re.fullmatch(r"var(\d+)", show(it))
                if rg is None and mm:
                    for l3, kind, node in pb.defs.get(int(mm.group(1)), []):
                        rg = rg or _range_of(pb.call_expr(node) if kind == "call" else pb.rvalue_expr(node["rv"]) if kind == "assign" else None)
                if rg is not None:
                    return _excl_upper_bound_hi(cx, pb, rg[2][1], depth + 1)
            # `iter.find(..).map_or(d, |i| ..)` and friends: the closure's parameter is an element the iterator produced
            if ce[2] and show(ce[2][-1]).startswith("closure:" + b.path) and ce[1].split("::")[-1] in ("map_or", "map", "is_some_and", "and_then", "filter", "map_or_else", "unwrap_or_else"):
                return _excl_upper_bound(cx, pb, b_mk_proj_some(ce[2][0]), depth + 1)
        return None
    m = re.fullmatch(r"var(\d+)", sh)
    if m:
        K = int(m.group(1))
        bs = []
        for l2, kind, node in b.defs.get(K, []):
            ce = b.rvalue_expr(node["rv"]) if kind == "assign" else b.call_expr(node) if kind == "call" else None
            x = _excl_upper_bound(cx, b, ce, depth + 1) if ce else None
            if x is None:
                return None
            bs.append(x)
        return max(bs) if bs else None
    return None


def b_mk_proj_some(e):
    from mirlib import b_mk_proj
    return b_mk_proj(e, ("@Some", "0"))


def _excl_upper_bound_hi(cx, b, hi, depth):
    """the loop variable of lo..hi is < hi: an exclusive bound of the variable is an inclusive bound of hi"""
    x = _excl_upper_bound(cx, b, hi, depth)
    return x - 1 if x else None


def check_shifts(cx, iid="C03.O"):
    """T6: `a << n` / `a >> n` with n >= the bit width of a panics in builds with overflow checks and silently uses
    n mod width otherwise.  Every shift whose amount is not a literal below the width has its amount bounded below the
    width: by the bit-width analysis (x % 64, x & 63, a field that only ever holds min(.., c)), by an established
    `amount < c` on every path, or by the literal bound of the range the amount is drawn from."""
    D = cx.D
    bw = BitWidth(D)
    with cx.instance(iid, "T6 shift inventory", "every shift amount that is not a literal is bounded below the operand's bit width on every path", floor=8, exact_floor=False) as inst:
        nlit = 0
        for b in D.all_bodies():
            fa = None
            for bb in sorted(b.reachable):
                t = b.term(bb)
                if t["k"] != "assert" or str(t.get("msg")) not in ("Overflow(Shl)", "Overflow(Shr)"):
                    continue
                ce = b.operand_expr(t["cond"])
                if not (ce[0] == "bin" and ce[1] == "Lt"):
                    continue
                try:
                    W = int(show(ce[3]))
                except ValueError:
                    continue
                amt = ce[2]
                while amt[0] == "cast":
                    amt = amt[2]
                if amt[0] == "const":
                    nlit += 1
                    continue
                loc = Loc(bb, len(b.stmts(bb)))
                status = None
                # (a) bit-width analysis on the MIR operand
                cop = t["cond"]
                cdef = b.defs.get(cop["pl"]["l"], []) if cop["k"] in ("copy", "move") and not cop["pl"]["p"] else []
                if len(cdef) == 1 and cdef[0][1] == "assign" and cdef[0][2]["rv"]["k"] == "bin":
                    aop = _peel_single(b, cdef[0][2]["rv"]["a"])
                    w = bw.operand(b, aop, ())
                    if (1 << w) <= W:
                        status = "bit-width analysis: amount < 2^%d <= %d" % (w, W)
                # (b) structural bound
                if not status:
                    ub = _excl_upper_bound(cx, b, amt)
                    if ub is not None and ub <= W:
                        status = "amount < %d by construction" % ub
                # (c) established comparison
                if not status:
                    fa = fa or cx.fa(b)
                    a_s = show(amt)
                    for alt in [fa.at(loc) or []]:
                        ok = bool(alt)
                        for a in alt:
                            good = False
                            for lit in a:
                                m = re.fullmatch(r"l([te])\((.*),(\d+)\)", lit)
                                if m and m.group(2) in (a_s, "cast<usize>(%s)" % a_s, "cast<u32>(%s)" % a_s, "cast<u64>(%s)" % a_s) and int(m.group(3)) + (1 if m.group(1) == "e" else 0) <= W:
                                    good = True
                            ok = ok and good
                        if ok:
                            status = "guarded: amount < %d on every path" % W
                # (d) a channel id: validated (< CHANNEL_COUNT) where it enters, stored only from validated packets
                if not status and show(amt).endswith(".channel_id") and "PacketReceiver::" in b.path and D.const_int("CHANNEL_COUNT") <= W:
                    st2, _why = _lk_channel_index(cx, inst, b, loc, show(amt))
                    if st2:
                        status = "channel id < CHANNEL_COUNT: " + st2
                inst.site(b, loc, "%s by %s" % (t["msg"], norm_vars(show(amt))[:70]), {"status": status, "width": W})
                if not status:
                    inst.violation(b.path, "shift by " + norm_vars(show(amt))[:70], "shift whose amount `%s` is not bounded below the operand's %d bits on every path: panics under overflow checks, shifts by the amount modulo %d otherwise" % (show(amt)[:120], W, W), at=b.span_at(loc))
        inst.note("%d shifts by a literal amount below the width (checked by rustc itself)" % nlit)


# =================================================================================================
# C03.V validity guards


def check_validators(cx, iid="C03.V"):
    R = cx.R
    with cx.instance(iid + ".datagram", "T1 GUARD (validator shape)", "datagram_is_valid returns true only under all five refusal clauses' negations", floor=5) as inst:
        b = R.body("packet_receiver::datagram_is_valid")
        sinks = []
        for loc, s in b.assigns():
            if not s["pl"]["p"] and s["pl"]["l"] == 0 and show(b.rvalue_expr(s["rv"])) == "true":
                sinks.append((loc, "return true"))
        clauses = [
            ("channel range", [[r"lt\(cast<usize>\(arg1\.channel_id\),CHANNEL_COUNT\)"]]),
            ("parent-lead consistency", [[r"eq\(0,arg1\.channel_parent_lead\)"], [r"ne\(0,arg1\.window_parent_lead\)", r"le\(arg1\.window_parent_lead,arg1\.channel_parent_lead\)"]]),
            ("fragment_id <= fragment_id_last", [[r"le\(arg1\.fragment_id,arg1\.fragment_id_last\)"]]),
            ("non-last fragments are full-size", [[r"le\(arg1\.fragment_id_last,arg1\.fragment_id\)"], [r"eq\(MAX_FRAGMENT_SIZE,\[T\]::len\(arg1\.data\)\)"]]),
            ("len <= MAX_FRAGMENT_SIZE", [[r"le\(\[T\]::len\(arg1\.data\),MAX_FRAGMENT_SIZE\)"], [r"eq\(MAX_FRAGMENT_SIZE,\[T\]::len\(arg1\.data\)\)"]]),
        ]
        if not sinks:
            inst.violation(b.path, "return true", "validator has no `true` return (anchor)")
        for name, dnf in clauses:
            cx.guard(inst, b, sinks, dnf, construct="clause: " + name, why="refusal clause `%s` missing or weakened" % name)
    with cx.instance(iid + ".try_add", "T1 GUARD", "AssemblyWindow::try_add is only reached with a validated datagram", floor=1) as inst:
        b = R.body("PacketReceiver::handle_datagram")
        cx.guard(inst, b, call_sites(b, "AssemblyWindow::try_add"), [[r"packet_receiver::datagram_is_valid\(arg2\)"]],
                 construct="try_add without datagram_is_valid", why="unvalidated fragment ids/sizes index the reassembly buffer")
    with cx.instance(iid + ".ack", "T1 GUARD", "ack-driven window moves are validated: acknowledge loop under delta<=span, advance_transfer_window under can_advance_transfer_window", floor=2) as inst:
        b = R.body("PacketSender::acknowledge")
        Ls = b.loops()
        inst.site(b, None, "id-walking loop of acknowledge()")
        if len(Ls) != 1:
            inst.violation(b.path, "acknowledge loop", "expected exactly one loop in PacketSender::acknowledge (anchor)")
        else:
            good, bad = dnf_holds(cx.fa(b).at_loop_entry(Ls[0]), [[r"le\(packet_id::sub\(arg2,arg1\.base_id\),packet_id::sub\(arg1\.next_id,arg1\.base_id\)\)"]])
            if not good:
                inst.violation(b.path, "base_id advance", "the send window can be advanced by an ack without `receiver_delta <= span` (an ack may not move the window past next_id)",
                               detail={"facts_on_offending_path": sorted(bad or [])})
        # the predicate itself: true only under 0 < delta <= frames sent beyond the window base
        from rules import return_alts
        from mirlib import alt_satisfies
        cp = R.body("FrameQueue::can_advance_transfer_window")
        tr = return_alts(cx, cp, True)
        d = r"u32::wrapping_sub\(arg2,arg1\.window\.base_id\)"
        okp = bool(tr) and all(alt_satisfies(a, [r"ne\(0,%s\)" % d, r"le\(%s,u32::wrapping_sub\(FrameLog::next_id\(arg1\.frame_log\),arg1\.window\.base_id\)\)" % d]) for _, a in tr)
        inst.site(cp, None, "can_advance_transfer_window true only under 0 < delta <= next_delta: %s" % okp)
        if not okp:
            inst.violation(cp.path, "can_advance_transfer_window", "the ack-reported frame window base is accepted although it is not within (base, next_id]: the log would be culled past frames never sent")
        fq = R.body("FrameQueue::advance_transfer_window")
        sinks = write_sites(fq, r"arg1\.transfer_window\.base_id") + call_sites(fq, "FrameQueue::cull_log_entries")
        culls = call_sites(fq, "FrameQueue::cull_log_entries")
        dl = r"u32::wrapping_sub\(u32::wrapping_sub\((?:arg1\.window\.base_id|arg2),arg1\.window\.tail_size\),FrameLog::base_id\(arg1\.frame_log\)\)"
        cx.guard(inst, fq, culls, [[r"ne\(0,%s\)" % dl, r"le\(%s,FrameLog::len\(arg1\.frame_log\)\)" % dl]], construct="log culled beyond its length",
                 why="FrameLog::drain would be asked to remove more frames than the log holds")
        cx.guard(inst, fq, sinks, [[r"FrameQueue::can_advance_transfer_window\(arg1,arg2\)"]], construct="transfer window advance",
                 why="the receiver-reported frame window base must lie within the frames actually sent")


# =================================================================================================
# C03.I parser length guards (tier 1 fallback)


PARSERS = ["<frame::Frame as frame::serial::Serialize>::read", "frame::serial::read_handshake_syn_payload", "frame::serial::read_handshake_syn_ack_payload",
           "frame::serial::read_handshake_ack_payload", "frame::serial::read_handshake_error_payload", "frame::serial::read_disconnect_payload",
           "frame::serial::read_disconnect_ack_payload", "frame::serial::read_sync_payload", "frame::serial::read_data_payload", "frame::serial::read_ack_payload",
           "frame::serial::read_datagram", "frame::serial::read_frame_ack"]


def _cval(R, s):
    s = s.strip()
    if re.fullmatch(r"\d+", s):
        return int(s)
    if re.fullmatch(r"[A-Za-z_:]+", s):
        try:
            return R.const_int(s)
        except Exception:
            return None
    return None


def _len_bounds(R, alt, base):
    """(lower bound, set of expression strings known <= len) for `[T]::len(base)` under fact-set alt"""
    L = re.escape("[T]::len(%s)" % base)
    lb = 0
    known = set()
    # a sub-slice of a slice whose length is bounded (the normaliser composes nested slices into one range of the
    # original slice): x[len-c ..] has exactly c elements, x[a .. len-c] has len-a-c, x[a ..] has len-a
    m = re.fullmatch(r"(.+)\[RangeFrom\{sub\(\[T\]::len\((.+)\),(\d+)\)\}\]", base)
    if m and m.group(1) == m.group(2):
        plb, _ = _len_bounds(R, alt, m.group(1))
        if plb >= int(m.group(3)):
            lb = max(lb, int(m.group(3)))
    m = re.fullmatch(r"(.+)\[Range\{(\d+),sub\(\[T\]::len\((.+)\),(\d+)\)\}\]", base)
    if m and m.group(1) == m.group(3):
        plb, _ = _len_bounds(R, alt, m.group(1))
        lb = max(lb, plb - int(m.group(2)) - int(m.group(4)))
    m = re.fullmatch(r"(.+)\[RangeFrom\{(\d+)\}\]", base)
    if m:
        plb, _ = _len_bounds(R, alt, m.group(1))
        lb = max(lb, plb - int(m.group(2)))
    # x[.. len-c] (also split_at(len-c).0) has len-c elements
    m = re.fullmatch(r"(.+)\[RangeTo\{sub\(\[T\]::len\((.+)\),([\w:]+)\)\}\]", base)
    if m and m.group(1) == m.group(2) and _cval(R, m.group(3)) is not None:
        plb, _ = _len_bounds(R, alt, m.group(1))
        lb = max(lb, plb - _cval(R, m.group(3)))
    for lit in alt:
        # c1 <= len - c2 together with c2 <= len (no wrap of the subtraction)  =>  len >= c1 + c2
        m = re.fullmatch(r"l([te])\(([\w:]+),sub\(%s,([\w:]+)\)\)" % L, lit)
        if m and _cval(R, m.group(2)) is not None and _cval(R, m.group(3)) is not None:
            c1, c2 = _cval(R, m.group(2)) + (1 if m.group(1) == "t" else 0), _cval(R, m.group(3))
            nowrap = any((mm := re.fullmatch(r"le\(([\w:]+),%s\)" % L, l2)) and _cval(R, mm.group(1)) is not None and _cval(R, mm.group(1)) >= c2 for l2 in alt)
            if nowrap:
                lb = max(lb, c1 + c2)
        m = re.fullmatch(r"eq\(%s,(.*)\)" % L, lit) or re.fullmatch(r"eq\((.*),%s\)" % L, lit)
        if m:
            v = _cval(R, m.group(1))
            if v is not None:
                lb = max(lb, v)
        m = re.fullmatch(r"le\((.*),%s\)" % L, lit)
        if m:
            v = _cval(R, m.group(1))
            if v is not None:
                lb = max(lb, v)
            else:
                known.add(m.group(1))
                # e = x + C <= len with x unsigned  =>  len >= C
                from mirlib import _split2
                if m.group(1).startswith("add(") and m.group(1).endswith(")"):
                    try:
                        a1, a2 = _split2(m.group(1)[4:-1])
                        for side in (a1, a2):
                            c = _cval(R, side)
                            if c is not None:
                                lb = max(lb, c)
                    except ValueError:
                        pass
        m = re.fullmatch(r"lt\((.*),%s\)" % L, lit)
        if m:
            v = _cval(R, m.group(1))
            if v is not None:
                lb = max(lb, v + 1)
        m = re.fullmatch(r"ne\(0,%s\)" % L, lit)
        if m:
            lb = max(lb, 1)
    return lb, known


def check_parser(cx, iid="C03.I"):
    """parser index proof: every bounds assertion and every slice-range call of the frame readers is
    discharged from the length facts established on all paths, by constant arithmetic, with one
    interprocedural summary (element readers return a size <= the slice they were given)."""
    R = cx.R
    nobl = 0
    with cx.instance(iid, "T1 GUARD + T9 (index proof)", "every index and slice range in the frame readers is within the input's length on every path", floor=100, exact_floor=False) as inst:
        if R.const_int("frame::serial::FRAME_OVERHEAD") != R.const_int("frame::serial::FRAME_HEADER_SIZE") + R.const_int("frame::serial::FRAME_CRC_SIZE"):
            inst.violation("frame::serial::FRAME_OVERHEAD", "FRAME_OVERHEAD", "FRAME_OVERHEAD != FRAME_HEADER_SIZE + FRAME_CRC_SIZE")
        # summaries: element readers return Some((_, size)) only with size <= len(arg1)
        summary = {}
        for fn in ("frame::serial::read_datagram", "frame::serial::read_frame_ack"):
            b = R.body(fn)
            fa = cx.fa(b)
            ok = True
            n = 0
            for loc, kind, node in b.defs.get(0, []):
                if kind != "assign" or node["rv"]["k"] != "agg" or node["rv"].get("variant") != "Some":
                    continue
                e = b.rvalue_expr(node["rv"])
                tup = e[2][0]
                if tup[0] != "agg" or len(tup[2]) != 2:
                    ok = False
                    continue
                size = show(tup[2][1])
                n += 1
                for alt in (fa.at(loc) or []):
                    lb, known = _len_bounds(R, alt, "arg1")
                    v = _cval(R, size)
                    if not (size in known or (v is not None and v <= lb)):
                        ok = False
                        inst.violation(b.path, "returned size", "%s can return a consumed size `%s` that was not tested against the slice length" % (fn.split("::")[-1], size), at=b.span_at(loc))
            summary[fn.split("::")[-1]] = ok and n > 0
            inst.site(b, None, "summary: %s returns size <= len(input): %s (%d return sites)" % (fn.split("::")[-1], summary[fn.split("::")[-1]], n))
        for fn in PARSERS:
            b = R.body(fn)
            fa = cx.fa(b)
            for bb in sorted(b.reachable):
                t = b.term(bb)
                loc = Loc(bb, len(b.stmts(bb)))
                obl = None
                if t["k"] == "assert" and t["msg"] == "BoundsCheck":
                    le_ = b.operand_expr(t["len"])
                    base = show(le_[2]) if le_[0] == "un" and le_[1].lower() == "ptrmetadata" else None
                    if base is None:
                        m = re.fullmatch(r"ptrmetadata\((.*)\)", show(le_))
                        base = m.group(1) if m else None
                    if base is None:
                        continue  # fixed-size array (writer-side literal), not an input slice
                    obl = ("idx", base, show(b.operand_expr(t["index"])))
                elif t["k"] == "call" and t.get("fn") and R.short(t["fn"]).endswith("[T]::split_at") and len(t["args"]) == 2:
                    obl = ("split", show(b.operand_expr(t["args"][0])), show(b.operand_expr(t["args"][1])))
                elif t["k"] == "call" and t.get("fn") and re.search(r"::index(_mut)?$", R.short(t["fn"])) and len(t["args"]) == 2:
                    rng = b.operand_expr(t["args"][1])
                    if rng[0] == "agg" and rng[1].startswith("Range"):
                        obl = ("slice", show(b.operand_expr(t["args"][0])), rng)
                if obl is None:
                    continue
                nobl += 1
                alts = fa.at(loc) or []
                good = True
                why = ""
                for alt in alts:
                    lb, known = _len_bounds(R, alt, obl[1])
                    Ls = "[T]::len(%s)" % obl[1]
                    if obl[0] == "split":
                        mid = obl[2]
                        v = _cval(R, mid)
                        m = re.fullmatch(r"sub\(%s,([\w:]+)\)" % re.escape(Ls), mid)
                        c = _cval(R, m.group(1)) if m else None
                        if v is not None:
                            if not v <= lb:
                                good, why = False, "split_at(%d) needs length >= %d, only >= %d is established" % (v, v, lb)
                        elif c is not None:
                            if not lb >= c:
                                good, why = False, "split_at(len-%d) needs length >= %d, only >= %d is established" % (c, c, lb)
                        else:
                            good, why = False, "split point `%s` is not covered by the constant-arithmetic prover" % mid[:60]
                    elif obl[0] == "idx":
                        ix = obl[2]
                        v = _cval(R, ix)
                        m = re.fullmatch(r"sub\(%s,(\d+)\)" % re.escape(Ls), ix)
                        if v is not None:
                            if not v < lb:
                                good, why = False, "index %d needs length > %d, only length >= %d is established" % (v, v, lb)
                        elif m:
                            c = int(m.group(1))
                            if not (c >= 1 and lb >= c):
                                good, why = False, "index len-%d needs length >= %d, only >= %d is established" % (c, c, lb)
                        else:
                            good, why = False, "index expression `%s` is not covered by the constant-arithmetic prover" % ix[:60]
                    else:
                        rng = obl[2]
                        parts = [show(x) for x in rng[2]]
                        if rng[1].startswith("RangeFrom") or (rng[1] == "RangeFrom"):
                            a = parts[0]
                            va = _cval(R, a)
                            ms = re.fullmatch(r"serial::(read_datagram|read_frame_ack)\((.*)\)@Some\.0\.1", a)
                            if va is not None:
                                if not va <= lb:
                                    good, why = False, "slice [%d..] needs length >= %d, only >= %d is established" % (va, va, lb)
                            elif ms:
                                if ms.group(2) != obl[1] or not summary.get(ms.group(1)):
                                    good, why = False, "slice [size..] where size comes from %s on a different slice or without the size<=len summary" % ms.group(1)
                            else:
                                good, why = False, "slice start `%s` not covered" % a[:60]
                        elif len(parts) == 2:
                            a, e2 = parts
                            va = _cval(R, a)
                            m = re.fullmatch(r"sub\(%s,(\d+)\)" % re.escape(Ls), e2)
                            if va is not None and m:
                                c = int(m.group(1))
                                if not lb >= va + c:
                                    good, why = False, "slice [%d..len-%d] needs length >= %d, only >= %d is established" % (va, c, va + c, lb)
                            elif va is not None and e2 in known:
                                # start <= end: end = start + X with X unsigned
                                if not re.search(r"add\(.*%s.*\)" % re.escape(a), e2) and not re.search(r"add\(.*,(frame::serial::)?%s\)" % re.escape(a.split("::")[-1]), e2):
                                    good, why = False, "slice end `%s` is not start + unsigned" % e2[:60]
                            else:
                                good, why = False, "slice [%s .. %s] is not covered by an established length fact" % (a[:30], e2[:50])
                        else:
                            good, why = False, "range shape not covered"
                    if not good:
                        break
                inst.site(b, loc, "%s %s" % (obl[0], (obl[2] if obl[0] in ("idx", "split") else show(obl[2]))[:60]), {"discharged": good})
                if not good:
                    inst.violation(b.path, "%s %s" % (obl[0], norm_vars(obl[2] if obl[0] in ("idx", "split") else show(obl[2]))[:70]),
                                   "a frame reader indexes its input out of range for some input length: " + why, at=b.span_at(loc))
    cx.extra["parser_index_obligations"] = nobl


# =================================================================================================
# C03.X index inventory outside the parser


def _ctor_fields(R, fn, adt):
    b = R.body(fn)
    for loc, s2 in b.assigns():
        rv = s2["rv"]
        if rv["k"] == "agg" and rv.get("adt", "").endswith(adt):
            return {n: show(b.operand_expr(o)) for n, o in zip(rv["fields"], rv["ops"])}
    return {}


def _len_expr(v):
    """symbolic length of a collection built by a constructor expression"""
    m = re.fullmatch(r"Vec::into_boxed_slice\(Iterator::collect\(Iterator::map\(Range\{0,(.*)\},closure:.*\)\)\)", v)
    if m:
        return m.group(1)
    m = re.fullmatch(r"Vec::into_boxed_slice\(vec::from_elem\([^,]+,(.*)\)\)", v)
    if m:
        return m.group(1)
    return None


def check_index_inventory(cx, iid="C03.X"):
    R = cx.R
    roots = [p for p in R.fns if re.search(r"(client::Client|server::Server|server::remote_client::RemoteClient)::[a-z_]+$", p) and R.fns[p].get("vis") == "Public"]
    reach = R.reachable_from(roots)
    ctors = {
        "PacketReceiver": _ctor_fields(R, "PacketReceiver::new", "PacketReceiver"),
        "PacketSender": _ctor_fields(R, "PacketSender::new", "PacketSender"),
        "AssemblyWindow": _ctor_fields(R, "assembly_window::AssemblyWindow::new", "AssemblyWindow"),
        "PendingPacket": _ctor_fields(R, "PendingPacket::new", "PendingPacket"),
        "FragmentBuffer": _ctor_fields(R, "FragmentBuffer::new", "FragmentBuffer"),
    }
    with cx.instance(iid, "T6 index inventory", "every array index outside the parser is in range by a recognised idiom (masked window index, /64 flag word, constant, u8 into 256) or a reviewed entry with linked checks", floor=70, exact_floor=False) as inst:
        # window sizes are powers of two (mask = size - 1 is then a valid modulus)
        for cn in ("MAX_PACKET_WINDOW_SIZE", "MAX_FRAME_WINDOW_SIZE"):
            v = R.const_int(cn)
            if v & (v - 1) or v == 0:
                inst.violation(cn, "power of two", "%s = %d is not a power of two: `id & (size - 1)` is not a modulus" % (cn, v))
        for b in R.all_bodies():
            if b.path not in reach or b.path in [R.fn(p)["path"] for p in PARSERS]:
                continue
            owner = b.fn.get("self_ty", "").split("::")[-1]
            cf = ctors.get(owner, {})
            for bb in sorted(b.reachable):
                t = b.term(bb)
                if not (t["k"] == "assert" and t["msg"] == "BoundsCheck"):
                    continue
                loc = Loc(bb, len(b.stmts(bb)))
                idx = show(b.operand_expr(t["index"]))
                ln = show(b.operand_expr(t["len"]))
                construct = norm_vars("index %s into %s" % (idx[:50], ln[:40]))
                status = None
                why = ""
                m_arr = re.fullmatch(r"ptrmetadata\(arg1\.(\w+)\)", ln)
                m_tail = re.fullmatch(r"ptrmetadata\(Box::new\((?:array|repeat).*\)(?:\[RangeFull\{\}\])?\[RangeFrom\{sub\(\[T\]::len\(Box::new\((?:array|repeat).*\)(?:\[RangeFull\{\}\])?\),(?:frame::serial::FRAME_CRC_SIZE|(\d))\)\}\]\)", ln)
                if m_tail and re.fullmatch(r"frame::serial::write_\w+", b.path) and re.fullmatch(r"\d+", idx):
                    # writer side: the last c bytes of a fixed-size literal frame, taken with split_at_mut(len - c)
                    c_ = int(m_tail.group(1)) if m_tail.group(1) else R.const_int("frame::serial::FRAME_CRC_SIZE")
                    status = "literal-tail slice" if int(idx) < c_ else None
                    why = "index %s into the %d-byte tail of a literal frame" % (idx, c_)
                elif re.fullmatch(r"\d+", ln):
                    n = int(ln)
                    if re.fullmatch(r"\d+", idx):
                        status = "const" if int(idx) < n else None
                        why = "constant index %s >= length %d" % (idx, n)
                    elif re.fullmatch(r"sub\(\[T\]::len\(Box::new\((array|repeat).*\)\),(\d)\)", idx):
                        c = int(idx[-2])
                        status = "literal-tail" if 1 <= c <= n else None
                    elif n == 256 and re.fullmatch(r"cast<usize>\(bitxor\(.*cast<u8>\(.*\)\)\)|cast<usize>\(.*u8.*\)", idx) and "u8" in idx:
                        status = "u8-into-256"
                    elif b.path.endswith("LossIntervalQueue::compute_loss_rate") or b.path.endswith("LossIntervalQueue::reset"):
                        status = _lk_weights(cx, inst, b, n)
                        if status and not _weights_index_in_range(b, b.operand_expr(t["index"])):
                            status = None
                            why = "WEIGHTS index is not one of the reviewed forms (constant, or i + c for i in lo..len-k with c <= k - 1): it reaches len(entries) - 1 = 8"
                        why = "WEIGHTS index not bounded by the truncate() length"
                elif m_arr and cf:
                    arr = m_arr.group(1)
                    alen = _len_expr(cf.get(arr, ""))
                    mm = re.fullmatch(r"cast<usize>\(bitand\((?:arg1\.(\w+),(.*)|(.*),arg1\.(\w+))\)\)", idx)
                    mf = re.fullmatch(r"div\(cast<usize>\(bitand\((?:arg1\.(\w+),(.*)|(.*),arg1\.(\w+))\)\),64\)", idx)
                    mboth = re.fullmatch(r"(?:div\()?cast<usize>\(bitand\((.*)\)\)(?:,64\))?", idx)
                    masks = []
                    if mboth:
                        from mirlib import _split2
                        try:
                            for side in _split2(mboth.group(1)):
                                mfld = re.fullmatch(r"arg1\.(\w+)", side)
                                if mfld and re.fullmatch(r"sub\(.*,1\)", cf.get(mfld.group(1), "")):
                                    masks.append(mfld.group(1))
                        except ValueError:
                            pass
                    if mm:
                        if alen is not None and any(cf.get(mk) == "sub(%s,1)" % alen for mk in masks):
                            status = "masked"
                        else:
                            why = "array `%s` has length `%s` but the index is not masked with a field initialised to length - 1 (%s)" % (arr, alen, {mk: cf.get(mk) for mk in masks})
                    elif mf:
                        ok_f = False
                        for mk in masks:
                            m2 = re.fullmatch(r"sub\((.*),1\)", cf.get(mk, ""))
                            if m2 and alen == "div(add(63,cast<usize>(%s)),64)" % m2.group(1):
                                ok_f = True
                        if ok_f:
                            status = "flag-word"
                        else:
                            why = "flag array `%s` has length `%s`, index is (id & mask)/64 with masks %s" % (arr, alen, {mk: cf.get(mk) for mk in masks})
                    elif arr == "channels" and alen == "CHANNEL_COUNT":
                        status, why = _lk_channel_index(cx, inst, b, loc, idx)
                    elif owner == "AssemblyWindow" and arr == "window" and idx == "arg2":
                        status, why = _lk_assembly_index(cx, inst, b, alen)
                    elif owner == "PendingPacket" and arr == "ack_flags":
                        status, why = _lk_ack_flags(cx, inst, b, idx, alen, cf)
                    elif owner == "FragmentBuffer" and arr == "fragment_bitfields" and idx == "div(arg2,64)" and alen == "div(add(63,arg1),64)":
                        status = "reviewed: fragment idx < num_fragments (C03.B belief table: validated fragment id, equal last id)"
                rec = inst.site(b, loc, construct, {"status": status})
                if not status:
                    inst.violation(b.path, construct, "array index reachable from an entry point is not proved in range by any recognised idiom or reviewed entry: " + (why or "unrecognised shape"), at=b.span_at(loc))
        check_index_calls(cx, inst, reach)


def _strip_casts(s):
    """`cast<ty>(X)` -> X, repeatedly (string form)"""
    while True:
        m = re.search(r"cast<\w+>\(", s)
        if not m:
            return s
        i = m.end()
        depth = 1
        while i < len(s) and depth:
            depth += {"(": 1, ")": -1}.get(s[i], 0)
            i += 1
        s = s[:m.start()] + s[m.end():i - 1] + s[i:]


# index *calls* (`Index::index` on a VecDeque / Vec / slice with a scalar or a range) outside the parser:
# (function, collection, index shape, reason)
INDEX_CALL_TABLE = [
    (r".*loss_rate::LossIntervalQueue::compute_loss_rate", r"arg1\.entries", r"(0|Range::next\(var\)@Some\.0)",
     "entries[0] under len > 0; entries[i] for i in 0..len-1 and 1..len, both inside the queue"),
    (r".*loss_rate::LossIntervalQueue::reset", r"arg1\.entries", r"0", "reset() is the slow-start callback of handle_feedback, invoked only under loss_increase (loss_rate > prev >= 0); compute_loss_rate returns 0 for an empty queue and the queue never becomes empty again (truncate(9), truncate(1)); truncate(1) keeps entry 0"),
    (r".*fragment_buffer::FragmentBuffer::write", r"arg1\.buffer", r"Range\{mul\(MAX_FRAGMENT_SIZE,arg2\),add\(\[T\]::len\(arg3\),mul\(MAX_FRAGMENT_SIZE,arg2\)\)\}",
     "fragment i occupies [i*M, i*M+len) of a buffer of num_fragments*M bytes: i < num_fragments (C03.B/C03.T), len <= M (validator)"),
    (r".*pending_packet::PendingPacket::datagram", r"arg1\.data", r"Range(From)?\{mul\(MAX_FRAGMENT_SIZE,(cast<usize>\()?arg2\)?\).*\}",
     "sender side: fragment ids 0..=last_fragment_id are enumerated from the packet's own length (C04.c, C04.h)"),
    (r".*serial::build::(DataFrameBuilder|AckFrameBuilder)::build", r"arg1\.buffer", r"\d+", "writer side: constant offset into a buffer created with the header already in it"),
    (r".*frame::serial::write_\w+", r".*", r"Range(To|From|Full)?\{.*\}", "writer side: fixed-size literal frames, ranges from the literal's own length"),
    (r"(server::Server|client::Client)::handle_frames", r"var", r"RangeTo\{UdpSocket::recv(_from)?\(arg1\.socket,var\)@Ok\.0(\.0)?\}", "recv returns at most the buffer's length"),
]


def _index_call_auto(cx, b, loc, coll, idx):
    """`X[i]` is in range when `i < X.len()` is established on every path (numeric casts ignored; a crate-local len()
    helper that returns the collection's length counts as the collection's length)"""
    R = cx.R
    i0 = _strip_casts(idx)
    alts = cx.fa(b).at(loc) or []
    if not alts:
        return False
    lens = {"VecDeque::len(%s)" % coll, "Vec::len(%s)" % coll, "[T]::len(%s)" % coll}
    m = re.fullmatch(r"(arg\d+|var\d+)\.(\w+)", coll)
    if m:
        from rules import pure_summary
        for pth in R.fns:
            if pth.endswith("::len") and pure_summary(R, pth) is not None:
                summ = _strip_casts(show(pure_summary(R, pth)))
                if re.fullmatch(r"(VecDeque|Vec|\[T\])::len\(arg1\.%s\)" % re.escape(m.group(2)), summ):
                    lens.add("%s(%s)" % (R.short(pth), m.group(1)))
    for alt in alts:
        ok = False
        for lit in alt:
            ls = _strip_casts(lit)
            for L in lens:
                if ls == "lt(%s,%s)" % (i0, L):
                    ok = True
        if not ok:
            return False
    return True


def _range_index_auto(cx, b, loc, coll, idx_e):
    """`X[i + c]` with i drawn from `lo..hi`: in range when lo + c >= 0 and hi + c <= X.len(), where an upper bound of
    the form len - k additionally needs len >= k established on the path (no wrap of the subtraction)"""
    from rules import poly
    from fractions import Fraction
    try:
        pl = poly(idx_e)
    except Exception:
        return False
    K, c = None, 0
    for mono, co in pl.items():
        if mono == ():
            c = co
            continue
        mm = re.fullmatch(r"Range::next\(var(\d+)\)@Some\.0", mono[0]) if len(mono) == 1 else None
        if not mm or co != 1 or K is not None:
            return False
        K = int(mm.group(1))
    if K is None or Fraction(c).denominator != 1:
        return False
    rng = None
    for l2, kind, node in b.defs.get(K, []):
        ce = b.call_expr(node) if kind == "call" else b.rvalue_expr(node["rv"]) if kind == "assign" else None
        if ce and ce[0] == "call" and ce[1].endswith("into_iter") and ce[2] and ce[2][0][0] == "agg" and ce[2][0][1] == "Range":
            rng = (ce[2][0][2][0], ce[2][0][2][1])
    if rng is None:
        return False
    try:
        plo, phi = poly(rng[0]), poly(rng[1])
    except Exception:
        return False
    if set(plo) - {()} or plo.get((), 0) + c < 0:
        return False
    lens = ["VecDeque::len(%s)" % coll, "Vec::len(%s)" % coll, "[T]::len(%s)" % coll]
    L = [m for m in phi if m != ()]
    if len(L) != 1 or len(L[0]) != 1 or L[0][0] not in lens or phi[L[0]] != 1:
        return False
    k = -phi.get((), 0)          # hi = len - k
    if k < 0 or c - k > 0:       # hi + c = len - k + c must not exceed len
        return False
    if k > 0:
        # len >= k on every path, so that `len - k` does not wrap
        alts = cx.fa(b).at(loc) or []
        if not alts:
            return False
        for alt in alts:
            lb = 0
            for lit in alt:
                m1 = re.fullmatch(r"lt\((\d+),(.*)\)", lit)
                m2 = re.fullmatch(r"le\((\d+),(.*)\)", lit)
                m3 = re.fullmatch(r"ne\(0,(.*)\)", lit)
                if m1 and m1.group(2) == L[0][0]:
                    lb = max(lb, int(m1.group(1)) + 1)
                if m2 and m2.group(2) == L[0][0]:
                    lb = max(lb, int(m2.group(1)))
                if m3 and m3.group(1) == L[0][0]:
                    lb = max(lb, 1)
            if lb < k:
                return False
    return True


def check_index_calls(cx, inst, reach):
    R = cx.R
    parsers = [R.fn(p)["path"] for p in PARSERS]
    for b in R.all_bodies():
        if b.path not in reach or b.path in parsers:
            continue
        for loc, t in b.calls():
            fn = t.get("fn") or ""
            if not re.search(r"::index(_mut)?$", R.short(fn)) or len(t["args"]) != 2:
                continue
            e = b.call_expr(t)
            sh = show(e)
            coll = show(b.operand_expr(t["args"][0]))
            idx = show(b.operand_expr(t["args"][1]))
            construct = norm_vars("%s: %s[%s]" % (R.short(fn), coll[:40], idx[:80]))
            status = None
            if _index_call_auto(cx, b, loc, coll, idx):
                status = "auto: index < len established on every path"
            elif _range_index_auto(cx, b, loc, coll, b.operand_expr(t["args"][1])):
                status = "auto: loop variable of a range bounded by the collection's length"
            else:
                for frx, crx, irx, reason in INDEX_CALL_TABLE:
                    if re.fullmatch(frx, b.path) and re.fullmatch(crx, norm_vars(coll)) and re.fullmatch(irx, norm_vars(idx)):
                        status = "reviewed: " + reason
                        if b.path.endswith("LossIntervalQueue::reset") and not _lk_loss_queue_keeps_first(cx, inst):
                            status = None
                        break
            inst.site(b, loc, construct, {"status": status})
            if not status:
                inst.violation(b.path, construct, "indexing a collection (panics when out of range) with an index that is neither established below the length on every path nor a reviewed entry", at=b.span_at(loc))


def _lk_loss_queue_keeps_first(cx, inst):
    """entries[0] in LossIntervalQueue::reset: the queue only ever shrinks through truncate(n) with n >= 1 (no pop,
    clear, drain or retain anywhere in the type), so an entry that exists stays"""
    R = cx.R
    ok = True
    for ob in R.all_bodies():
        if "loss_rate::LossIntervalQueue" not in ob.path:
            continue
        for l, t in ob.calls():
            if not t.get("fn"):
                continue
            sn = R.short(t["fn"])
            ce = show(ob.call_expr(t))
            if not ce.startswith(sn + "(arg1.entries"):
                continue
            if sn == "VecDeque::truncate":
                m = re.fullmatch(r"VecDeque::truncate\(arg1\.entries,(\d+)\)", ce)
                if not m or int(m.group(1)) < 1:
                    inst.site(ob, l, "loss interval queue truncated to %s" % (m.group(1) if m else "a non-constant length"))
                    ok = False
            elif sn.split("::")[-1] in ("pop_front", "pop_back", "clear", "drain", "retain", "remove", "split_off", "swap_remove_back", "swap_remove_front"):
                inst.site(ob, l, "loss interval queue shrunk by " + sn)
                ok = False
    return ok


def _weights_index_in_range(b, idx_e):
    """WEIGHTS has truncate_len - 1 entries and the queue at most truncate_len: an index i + c with i drawn from
    lo .. entries.len() - k stays below len(WEIGHTS) iff c <= k - 1 (and lo + c >= 0); constants are checked by the caller's
    length comparison"""
    from rules import poly
    from fractions import Fraction
    if re.fullmatch(r"\d+", show(idx_e)):
        return True
    try:
        pl = poly(idx_e)
    except Exception:
        return False
    K, c = None, 0
    for mono, co in pl.items():
        if mono == ():
            c = co
            continue
        mm = re.fullmatch(r"Range::next\(var(\d+)\)@Some\.0", mono[0]) if len(mono) == 1 else None
        if not mm or co != 1 or K is not None:
            return False
        K = int(mm.group(1))
    if K is None or Fraction(c).denominator != 1:
        return False
    rng = None
    for l2, kind, node in b.defs.get(K, []):
        ce = b.call_expr(node) if kind == "call" else b.rvalue_expr(node["rv"]) if kind == "assign" else None
        if ce and ce[0] == "call" and ce[1].endswith("into_iter") and ce[2] and ce[2][0][0] == "agg" and ce[2][0][1] == "Range":
            rng = (ce[2][0][2][0], ce[2][0][2][1])
    if rng is None:
        return False
    try:
        plo, phi = poly(rng[0]), poly(rng[1])
    except Exception:
        return False
    L = [m for m in phi if m != ()]
    if set(plo) - {()} or plo.get((), 0) + c < 0 or len(L) != 1 or L[0] != ("VecDeque::len(arg1.entries)",) or phi[L[0]] != 1:
        return False
    k = -phi.get((), 0)
    return c <= k - 1


def _lk_weights(cx, inst, b, n):
    """WEIGHTS[i] in compute_loss_rate: i < entries.len() - 1 <= truncate length - 1 <= len(WEIGHTS)"""
    R = cx.R
    pn = R.body("LossIntervalQueue::push_nack")
    tr = [int(re.search(r",(\d+)\)$", show(pn.call_expr(t))).group(1)) for l, t in pn.calls("VecDeque::truncate")]
    if not tr or max(tr) - 1 > n:
        return None
    # the bound holds at every return only if each growth of the queue is followed by the truncation (or starts from empty)
    for ob in R.all_bodies():
        if "loss_rate::LossIntervalQueue" not in ob.path:
            continue
        for l, t in ob.calls("re:VecDeque::push_(front|back)$"):
            if not show(ob.call_expr(t)).startswith(R.short(t["fn"]) + "(arg1.entries,"):
                continue
            empty, _ = dnf_holds(cx.fa(ob).at(l), [[r"is\(VecDeque::front(_mut)?\(arg1\.entries\),None\)"], [r"eq\(0,VecDeque::len\(arg1\.entries\)\)"]])
            if empty:
                continue
            trl = [tl for tl, tt in ob.calls("VecDeque::truncate") if re.fullmatch(r"VecDeque::truncate\(arg1\.entries,\d+\)", show(ob.call_expr(tt)))]
            if not trl or ob.reach_exit_avoiding(l, trl) is not None:
                inst.site(ob, l, "loss interval pushed without a later truncate")
                return None
    return "reviewed: loss intervals truncated to %d, WEIGHTS has %d entries" % (max(tr), n)


def _lk_channel_index(cx, inst, b, loc, idx):
    R = cx.R
    if b.path.endswith("PacketReceiver::handle_datagram"):
        good, _ = dnf_holds(cx.fa(b).at(loc), [[r"packet_receiver::datagram_is_valid\(arg2\)"]])
        return ("validated: datagram_is_valid" if good else None), "channels[channel_id] is indexed without datagram_is_valid"
    if b.path.endswith("PacketReceiver::receive") or b.path.endswith("PacketReceiver::try_unset_channel_base_id"):
        # the index is a stored channel id: stored only from validated packets
        hd = R.body("PacketReceiver::handle_datagram")
        ok = True
        for l, s2 in hd.assigns():
            rv = s2["rv"]
            if rv["k"] == "agg" and rv.get("adt", "").endswith("ChannelAdvEntry"):
                g, _ = dnf_holds(cx.fa(hd).at(l), [[r"packet_receiver::datagram_is_valid\(arg2\)"]])
                ok &= g
        return ("stored channel id (written only under datagram_is_valid)" if ok else None), "channel ids are stored without validation"
    if b.path.endswith("PacketReceiver::set_channel_base_id"):
        callers = [ob.path.split("::")[-1] for ob in R.all_bodies() if call_sites(ob, "PacketReceiver::set_channel_base_id")]
        return ("reviewed: called from %s with a stored channel id" % callers if callers == ["receive"] else None), "new caller of set_channel_base_id"
    if "packet_sender::PacketSender::" in b.path:
        # sender side: channel ids come from send(), which asserts channel_id < CHANNEL_COUNT
        ok = True
        for fn in ("client::Client::send", "server::remote_client::RemoteClient::send"):
            sb = R.body(fn)
            sinks = call_sites(sb, "HalfConnection::send") + call_sites(sb, "Vec::push", "initial_sends")
            for l, lab in sinks:
                g, _ = dnf_holds(cx.fa(sb).at(l), [[r"lt\(arg3,CHANNEL_COUNT\)"], [r"lt\(cast<usize>\(arg3\),CHANNEL_COUNT\)"]])
                ok &= g
        return ("API contract: send() tests channel_id < CHANNEL_COUNT before queueing" if ok else None), "send() queues a packet without testing channel_id < CHANNEL_COUNT"
    return None, "unlisted channels[] index"


def _lk_assembly_index(cx, inst, b, alen):
    R = cx.R
    hd = R.body("PacketReceiver::handle_datagram")
    aw = R.body("PacketReceiver::advance_window")
    okc = _strip_casts(alen or "") == "MAX_PACKET_WINDOW_SIZE"
    for ob, callee in ((hd, "AssemblyWindow::try_add"), (aw, "AssemblyWindow::clear")):
        for l, t in ob.calls(callee):
            a = show(ob.operand_expr(t["args"][1]))
            if not re.fullmatch(r"cast<usize>\(bitand\((arg1\.receive_window_mask,.*|.*,arg1\.receive_window_mask)\)\)", a):
                okc = False
    return ("reviewed: callers pass id & receive_window_mask, window_size <= MAX_PACKET_WINDOW_SIZE" if okc else None), "AssemblyWindow slots are indexed with an unmasked value or the table is smaller than the window"


def _lk_ack_flags(cx, inst, b, idx, alen, cf):
    if idx != "div(cast<usize>(arg2),64)":
        return None, "ack_flags index shape"
    if not (alen or "").startswith("div(add(63,"):
        return None, "ack_flags length shape"
    return "reviewed: fragment ids come from 0..=last_fragment_id (emit_data_frames range) and ack_flags has ceil((last+1)/64) words", ""


def run(cx):
    check_loops(cx)
    check_panics(cx)
    check_beliefs(cx)
    check_state_beliefs(cx)
    from props.shared import window_pass_guard
    window_pass_guard(cx, "C03.W")
    check_validators(cx)
    check_parser(cx)
    check_index_inventory(cx)
    check_divisions(cx)
    check_shifts(cx)
    check_arith(cx)
    check_underflow(cx)
    # "offending input is discarded and the endpoint keeps serving its other connections": an unreadable datagram
    # does not end the step's socket drain
    from props.shared import socket_drain
    socket_drain(cx, "C03.K")
    # the RTO is 2*MSS/X and the no-feedback deadline now + RTO: a rate of 0 (a floor applied before, not after, the
    # receive-rate cap) makes the RTO infinite and the deadline overflow in step()
    from props.C14 import inst_rate_floor
    inst_rate_floor(cx, "C03.R")
    # a plain comparison of sequence ids sends an id-walking loop round the whole 2^32 ring (or past the logged ids)
    from props.idarith import id_arith_discipline
    id_arith_discipline(cx, "C03.M")
    # the loop and index arguments above rest on definitions elsewhere: `packet_id::is_valid(x)` as a loop-bound
    # guard is only as good as is_valid's own definition (x <= MASK), and the fragment-buffer indices are in range
    # only if the buffer is created for exactly last_fragment_id + 1 fragments, computed without overflow
    from props.C01 import inst_id_arith
    inst_id_arith(cx, "C03.G")
    from props.C04 import inst_sizes
    inst_sizes(cx, "C03.S")
    # the reassembly buffer is sized from the fragment count: a count computed in the header's narrow type wraps to 0
    # and the first fragment copy indexes an empty buffer
    from props.C06 import inst_sibling_accounting
    inst_sibling_accounting(cx, "C03.A")
    # PacketSender::acknowledge unwraps every slot in [base, next): a window that admits one packet too many overwrites
    # the oldest slot, and the ack that passes it unwraps None
    from props.C02 import inst_emit_guards
    inst_emit_guards(cx, "C03.E")


SELFTEST = [
    {"name": "F15 re-introduced: checked addition of a saturated RTO to the clock",
     "edits": [{"file": "src/half_connection/send_rate.rs", "old": "self.nofeedback_exp_ms = Some(now_ms.saturating_add(s_to_ms(rto_s)));\n        self.nofeedback_idle = true;\n    }\n\n    fn nofeedback_expired", "new": "self.nofeedback_exp_ms = Some(now_ms + s_to_ms(rto_s));\n        self.nofeedback_idle = true;\n    }\n\n    fn nofeedback_expired"}],
     "expect": ["C03.Q"]},
    {"name": "F16 re-introduced: 2*recover_rate in u32",
     "edits": [{"file": "src/half_connection/send_rate.rs", "old": "self.send_rate < recover_rate.saturating_mul(2)", "new": "self.send_rate < 2*recover_rate"}],
     "expect": ["C03.Q"]},
    {"name": "sync timer measured as base - now",
     "edits": [{"file": "src/half_connection/mod.rs", "old": "now_ms - self.sync_timeout_base_ms", "new": "self.sync_timeout_base_ms - now_ms"}],
     "expect": ["C03.U"]},
    {"name": "an unreadable datagram ends the socket drain",
     "edits": [{"file": "src/server/mod.rs", "old": "                self.handle_frame(address, frame, now_ms);\n            }", "new": "                self.handle_frame(address, frame, now_ms);\n            } else {\n                break;\n            }"}],
     "expect": ["C03.K"]},
    {"name": "resend back-off exponent no longer capped: the shift amount is unbounded",
     "edits": [{"file": "src/half_connection/mod.rs", "old": "let new_send_count = (entry.send_count + 1).min(MAX_SEND_COUNT);", "new": "let new_send_count = entry.send_count + 1;"}],
     "expect": ["C03.O"]},
    {"name": "ack bit beyond the group's width tested without the < 32 guard",
     "edits": [{"file": "src/half_connection/frame_ack_queue.rs", "old": "                if bit < 32 {", "new": "                if bit < 64 {"}],
     "expect": ["C03.O"]},
    {"name": "F14 reintroduced: the window loop passes an entry whose data flag is set",
     "edits": [{"file": "src/half_connection/packet_receiver/mod.rs",
                "old": "                        if self.data_flags[flags_index] & flag_bit != 0 {\n",
                "new": "                        debug_assert!(self.data_flags[flags_index] & flag_bit == 0);\n                        if false {\n"}],
     "expect": ["C03.T"]},
    {"name": "a second writer of end_id outside the reviewed functions",
     "edits": [{"file": "src/half_connection/packet_receiver/mod.rs",
                "old": "        let sender_delta = packet_id::sub(sender_next_id, base_id);\n",
                "new": "        let sender_delta = packet_id::sub(sender_next_id, base_id);\n        self.end_id = sender_next_id;\n"}],
     "expect": ["C03.T"]},
    {"name": "re-sliced Frame::read (benign g8-3) with the length guard weakened to the CRC size",
     "patch": __import__("os").path.join(__import__("os").path.dirname(__import__("os").path.dirname(__import__("os").path.abspath(__file__))), "benign", "g8-3", "patch.diff"),
     "edits": [{"file": "src/frame/serial/mod.rs", "old": "if frame_len < FRAME_OVERHEAD {", "new": "if frame_len < FRAME_CRC_SIZE {"}],
     "expect": ["C03.I"]},
    {"name": "restore resend_queue.pop() on a purge edge of the pending loop",
     "edits": [{"file": "src/half_connection/mod.rs",
                "old": "                } else {\n                    self.pending_queue.pop_front();\n                    continue;\n                }\n            }\n        }\n\n        dfe.finalize();",
                "new": "                } else {\n                    self.resend_queue.pop();\n                    continue;\n                }\n            }\n        }\n\n        dfe.finalize();"}],
     "expect": ["C03.L"]},
    {"name": "remove fragment_id > fragment_id_last from datagram_is_valid",
     "edits": [{"file": "src/half_connection/packet_receiver/mod.rs", "old": "    if dg.fragment_id > dg.fragment_id_last {\n        return false;\n    }\n", "new": ""}],
     "expect": ["C03.V.datagram"]},
    {"name": "drop the is_valid guard in PacketSender::acknowledge",
     "edits": [{"file": "src/half_connection/packet_sender.rs", "old": "        if !packet_id::is_valid(receiver_base_id) {\n            return;\n        }\n", "new": ""}],
     "expect": ["C03.L"]},
    {"name": "Frame::read accepts 4-byte inputs",
     "edits": [{"file": "src/frame/serial/mod.rs", "old": "if frame_bytes.len() < 5 {", "new": "if frame_bytes.len() < 4 {"}],
     "expect": ["C03.I"]},
    {"name": "sync reader accepts short payloads",
     "edits": [{"file": "src/frame/serial/mod.rs", "old": "    if data.len() != SYNC_FRAME_PAYLOAD_SIZE {\n        return None;\n    }", "new": "    if data.len() > SYNC_FRAME_PAYLOAD_SIZE {\n        return None;\n    }"}],
     "expect": ["C03.I"]},
    {"name": "receive window mask off by one",
     "edits": [{"file": "src/half_connection/packet_receiver/mod.rs", "old": "receive_window_mask: window_size - 1,", "new": "receive_window_mask: window_size,"}],
     "expect": ["C03.X"]},
    {"name": "keep ten loss intervals",
     "edits": [{"file": "src/half_connection/loss_rate.rs", "old": "self.entries.truncate(9);", "new": "self.entries.truncate(10);"}],
     "expect": ["C03.X"]},
    {"name": "benign: rename locals in resynchronize", "edits": [{"file": "src/half_connection/packet_receiver/mod.rs", "old": "let mut sequence_id = base_id;\n\n        while sequence_id != sender_next_id {", "new": "let mut sequence_id = base_id;\n        let _unused_rename_probe = 0;\n\n        while sequence_id != sender_next_id {"}],
     "expect": []},
]


# =================================================================================================
# C03.Q overflow-checked arithmetic


def _float_saturated(D):
    """(functions whose result, fields whose content) can be a float-to-integer conversion of an unbounded float
    expression: such a conversion saturates at the integer type's maximum (x/0.0, very large x), so the value can be
    the largest value of its type whatever the bit-width analysis says about its sources"""
    fns, casts = set(), {}
    for b in D.all_bodies():
        for loc, s in b.assigns():
            rv = s["rv"]
            if rv["k"] == "cast" and rv.get("ck") == "FloatToInt":
                inner = show(b.operand_expr(rv["op"]))
                bounded = re.match(r"(f64::round\()?f64::clamp\(", inner) or re.match(r"mul\((0\.\d+,cast<f64>\(|cast<f64>\(.*\),0\.\d+\)$)", inner)
                if not bounded:
                    casts.setdefault(b.path, []).append(show(b.rvalue_expr(rv)))
    for p, cs in casts.items():
        b = [x for x in D.all_bodies() if x.path == p][0]
        try:
            r = show(b.local_expr(0))
        except Exception:
            r = ""
        if any(c in r for c in cs):
            fns.add(p)
    short = {D.short(p) if hasattr(D, "short") else p for p in fns}
    names = {p.split("::")[-1] for p in fns}
    fields = set()
    for b in D.all_bodies():
        for loc, s in b.assigns():
            if s["pl"]["p"]:
                e = show(b.rvalue_expr(s["rv"]))
                if any(re.search(r"\b%s\(" % re.escape(n), e) for n in names):
                    ps = show(b.place_expr(s["pl"]))
                    fields.add(ps.split(".")[-1])
    return fns, names, fields


ARITH_TABLE = [
    # (function regex, operator, operand regex over the printed expression, reason)
    (r".*emit::(Data|Ack)FrameEmitter.*::push", "Add", r"(Data|Ack)FrameBuilder::size\(.*\),(Data|Ack)FrameBuilder::encoded_size\(", "sizes of one frame under construction (<= MAX_FRAME_SIZE, tested right after) and of one datagram / ack group"),
    (r".*frame_queue::FeedbackGen::put_ack_data", "Add", r"total_ack_size", "bytes acknowledged in one feedback interval: each term is the size of a frame this endpoint sent (<= 1472), one term per frame in the 4096-frame window, reset at every feedback"),
    (r".*frame_queue::FrameQueue::acknowledge_group", "Add", r"var,cast<usize>\(Option::unwrap\(FrameLog::get_frame_mut\(", "sum of the sizes of at most 32 sent frames"),
    (r".*loss_rate::LossIntervalQueue::push_nack", "Add", r"arg2,arg3", "frame counts of one reorder-buffer advance: both bounded by the 4096-frame window (callers: FeedbackGen::notify_advancement / notify_ack closures)"),
    (r".*fragment_buffer::FragmentBuffer::write", "Add", r"\[T\]::len\(arg3\)", "offset / running total inside a buffer that was allocated for num_fragments * MAX_FRAGMENT_SIZE bytes (C04.c): bounded by the allocation"),
    (r".*assembly_window::AssemblyWindow::try_add", "Add", r"arg1\.alloc,assembly_window::packet_alloc_size\(", "bytes currently reserved (<= max_alloc + one packet, C06.a) plus (fragment_id_last + 1) * MAX_FRAGMENT_SIZE <= 2^16 * 1448"),
    (r".*packet_sender::PacketSender::(enqueue_packet|emit_packet)", "Add", r"arg1\.(total_size|alloc),", "byte counters of packets held in memory: bounded by the address space"),
    (r".*HalfConnection::emit_data_frames", "Add", r"arg2,(arg3|mul\(arg3,shl\(1,)", "now_ms + rtt_ms * 2^k, k <= MAX_SEND_COUNT (C12.q): the RTT estimate is a weighted mean of locally measured samples, each at most the clock reading"),
    (r".*HalfConnection::emit_data_frames", "Mul", r"arg3,shl\(1,", "rtt_ms * 2^k with k <= MAX_SEND_COUNT (C12.q, C03.O)"),
    (r".*HalfConnection::step", "Mul", r"SendRateComp::rtt_ms\(", "4 * RTT estimate: the estimate is a weighted mean of locally measured samples, each at most the clock reading"),
    (r".*recv_rate_set::RecvRateSet::rate_limited_update::\{closure#0\}", "Mul", r"2,arg1\.1", "2 * rtt_ms (captured parameter of rate_limited_update, the RTT estimate: at most the clock reading)"),
    (r".*packet_receiver::PacketReceiver::handle_datagram", "Add", r"packet_count,1", "packets of one channel inside the receive window: at most the window size (4096)"),
    (r".*build::AckFrameBuilder::add", "Add", r"arg1\.count,1", "ack groups in one frame: the emitter closes the frame at MAX_FRAME_SIZE (161 groups)"),
]


def check_arith(cx, iid="C03.Q"):
    """T6: `a + b` and `a * b` on integers panic on overflow in builds with overflow checks and wrap otherwise.  Every
    such operation in the crate (rustc emits an Overflow assertion for each in the dev profile) cannot overflow: by the
    bit-width analysis of its operands, by a structural bound, because it adds a bounded amount to a 64-bit clock
    reading / length / byte count that is not a saturated float conversion, or by a reviewed entry.  A value converted
    from an unbounded float expression (RTO = 2*MSS/X, W_init/R) saturates at its type's maximum and is never assumed
    small."""
    D = cx.D
    bw = BitWidth(D)
    f2i_fns, f2i_names, f2i_fields = _float_saturated(D)

    def tainted(e):
        return any(re.search(r"\b%s\(" % re.escape(n), e) for n in f2i_names) or any(re.search(r"\.%s\b|\b%s\(" % (re.escape(f), re.escape(f)), e) for f in f2i_fields)
    with cx.instance(iid, "T6 overflow inventory", "every overflow-checked integer addition / multiplication cannot overflow: operand widths, structural bound, 64-bit quantity plus a bounded amount, or reviewed entry; float-saturated values are never assumed small", floor=60, exact_floor=False) as inst:
        inst.note("float-saturated results: %s; fields holding them: %s" % (sorted(x.split("::")[-1] for x in f2i_fns), sorted(f2i_fields)))
        for b in D.all_bodies():
            for bb in sorted(b.reachable):
                t = b.term(bb)
                msg = str(t.get("msg"))
                if t["k"] != "assert" or msg not in ("Overflow(Add)", "Overflow(Mul)"):
                    continue
                st = [s for s in b.stmts(bb) if s["k"] == "assign" and s["rv"]["k"] == "bin" and s["rv"]["op"].endswith("WithOverflow")]
                if not st:
                    continue
                rv = st[-1]["rv"]
                loc = Loc(bb, len(b.stmts(bb)))
                op = "Add" if "Add" in msg else "Mul"
                e = b.rvalue_expr(rv)
                es = show(e)
                from domain import type_width
                T = type_width(str(rv.get("ty", "")).split(",")[0].strip("( "))
                wa, wb = bw.operand(b, rv["a"], ()), bw.operand(b, rv["b"], ())
                # multi-definition locals are read through their definitions (one level) for taint and table matching
                ctx = es
                for mv in sorted(set(re.findall(r"\bvar(\d+)\b", es))):
                    for dloc, kind, node in b.defs.get(int(mv), []):
                        try:
                            ctx += " ; var%s=%s" % (mv, show(b.rvalue_expr(node["rv"])) if kind == "assign" else show(b.call_expr(node)))
                        except Exception:
                            pass
                taint = tainted(ctx)
                status = None
                fits = (max(wa, wb) + 1 <= T) if op == "Add" else (wa + wb <= T)
                if fits and not taint:
                    status = "bit-width analysis: %d and %d bits fit %d" % (wa, wb, T)
                if not status and not taint:
                    ua, ub = _excl_upper_bound(cx, b, e[2]), _excl_upper_bound(cx, b, e[3])
                    if ua and ub and ((ua - 1) + (ub - 1) if op == "Add" else (ua - 1) * (ub - 1)) < (1 << T):
                        status = "structural bound: operands below %d and %d" % (ua, ub)
                if not status and not taint and op == "Add" and T == 64 and min(wa, wb) <= 48:
                    status = "64-bit clock reading / length / byte count plus an amount below 2^%d" % min(wa, wb)
                if not status and not taint and op == "Mul" and T == 64 and min(wa, wb) <= 16 and re.search(r"MAX_FRAGMENT_SIZE|MSS", es):
                    status = "a fragment count or length times the fragment size: bounded by the address space"
                reason = None
                if not status:
                    nes = norm_vars(ctx)
                    for frx, o, orx, why in ARITH_TABLE:
                        if o == op and re.fullmatch(frx, b.path) and re.search(orx, nes):
                            status, reason = "reviewed", why
                            break
                inst.site(b, loc, "%s %s" % (msg, norm_vars(es)[:90]), {"status": status, "widths": [wa, wb, T], "float_saturated": taint, "reason": reason})
                if not status:
                    inst.violation(b.path, "%s %s" % (op.lower(), norm_vars(es)[:80]),
                                   "overflow-checked %s `%s` is not shown to stay inside %d bits (operand widths %d and %d%s): it panics in builds with overflow checks and wraps otherwise"
                                   % ("addition" if op == "Add" else "multiplication", es[:150], T, wa, wb, "; an operand is a float conversion that saturates at the type's maximum" if taint else ""), at=b.span_at(loc))


# =================================================================================================
# C03.U overflow-checked subtraction


def _dominating_edge_lit(cx, b, loc, rx):
    """is the block of loc reached only through switch edges carrying a literal that matches rx (whatever was
    written since)?  Used for `match self.n { 2 => { …; self.n -= 1; …; self.n -= 1 } }`."""
    fa = cx.fa(b)
    good = set()
    for (x, y, lab), lits in fa.edge_lits.items():
        if any(re.fullmatch(rx, l) for l in lits):
            good.add((x, y))
    # backward search from loc.bb to entry that avoids every good edge
    seen, st = set(), [loc.bb]
    preds = defaultdict(list)
    for x in b.reachable:
        for y, _ in b.succ[x]:
            preds[y].append(x)
    while st:
        y = st.pop()
        if y in seen:
            continue
        seen.add(y)
        if y == 0:
            return False
        for x in preds[y]:
            if (x, y) not in good:
                st.append(x)
    return True


SUB_TABLE = [
    # (function regex, minuend regex, subtrahend regex, reason, linked edge-literal regex or None)
    (r".*reorder_buffer::ReorderBuffer::(put|advance)", r"arg1\.frame_count", r"1", "inside the arm / loop that established frame_count >= 1 (two decrements only inside `frame_count == 2`)", r"(eq\(2,arg1\.frame_count\)|eq\(arg1\.frame_count,2\)|ne\(0,arg1\.frame_count\))"),
    (r".*fragment_buffer::FragmentBuffer::write", r"arg1\.num_fragments", r"1", "num_fragments = fragment_id_last + 1 >= 1 (ActiveEntry::new, C04.c)", None),
    (r".*fragment_buffer::FragmentBuffer::write", r"arg1\.fragments_remaining", r"1", "a fragment is counted only when its bit was clear: as many decrements as bits, fragments_remaining starts at num_fragments (C04.f)", None),
    (r".*assembly_window::AssemblyWindow::clear", r"arg1\.alloc", r".*alloc_size|var|.*window\[arg2\].*@Closed\.0", "releases what try_add charged for this slot (C06.a/C06.b pairing)", None),
    (r".*packet_receiver::PacketReceiver::receive", r".*\.packet_count", r"1", "one decrement per delivered packet, one increment per accepted packet of that channel (handle_datagram)", None),
    (r".*packet_sender::PacketSender::emit_packet", r"arg1\.total_size", r"\[T\]::len\(.*\.data\)", "a stale TimeSensitive packet leaves the queue with the size enqueue_packet added (C20.b)", None),
    (r".*packet_sender::PacketSender::acknowledge", r"arg1\.(alloc|total_size)", r".*", "refunds what emit_packet charged / enqueue_packet added for the released slot (C06.g, C20.b)", None),
]


def check_underflow(cx, iid="C03.U"):
    """T6: `a - b` on unsigned integers panics below zero in builds with overflow checks and wraps otherwise.  Every such
    subtraction has b <= a: established on every path (comparison, non-zero test, length test), structural (a literal's
    length, a range variable's lower bound, x + c - c'), a difference of two readings of the endpoint's monotonic
    clock, the signed flush credit, or a reviewed entry (paired accounting, linked to the pairing rules)."""
    D = cx.D
    with cx.instance(iid, "T6 underflow inventory", "every overflow-checked subtraction has subtrahend <= minuend: established, structural, clock difference, signed credit, or reviewed entry", floor=60, exact_floor=False) as inst:
        for b in D.all_bodies():
            fa = None
            for bb in sorted(b.reachable):
                t = b.term(bb)
                if t["k"] != "assert" or str(t.get("msg")) != "Overflow(Sub)":
                    continue
                st = [s for s in b.stmts(bb) if s["k"] == "assign" and s["rv"]["k"] == "bin" and s["rv"]["op"].endswith("WithOverflow")]
                if not st:
                    continue
                rv = st[-1]["rv"]
                loc = Loc(bb, len(b.stmts(bb)))
                e = b.rvalue_expr(rv)
                A, B = show(e[2]), show(e[3])
                ty = str(rv.get("ty", "")).split(",")[0].strip("( ")
                status = reason = None

                def num(x):
                    if x.isdigit():
                        return int(x)
                    if re.fullmatch(r"[\w:]+", x):
                        try:
                            return D.const_int(x)
                        except Exception:
                            return None
                    return None
                if not B.isdigit() and num(B) is not None:
                    B = str(num(B))     # a named constant subtrahend is its value
                # structural
                m = re.fullmatch(r"\[T\]::len\(Box::new\((array\{.*\}|repeat:(\d+)\{.*\})\)(?:\[RangeFull\{\}\])?\)", A)
                if m and B.isdigit():
                    n = int(m.group(2)) if m.group(2) else None
                    if n is None:
                        try:
                            from props.shared import _split_top
                            n = len(_split_top(m.group(1)[len("array{"):-1]))
                        except Exception:
                            n = None
                    if n is not None and int(B) <= n:
                        status = "length of a %d-byte literal minus %s" % (n, B)
                if not status and B.isdigit():
                    mm = re.fullmatch(r"(?:Range|RangeInclusive)::next\(var(\d+)\)@Some\.0", A)
                    if mm:
                        for l2, kind, node in b.defs.get(int(mm.group(1)), []):
                            ce = b.call_expr(node) if kind == "call" else b.rvalue_expr(node["rv"]) if kind == "assign" else None
                            if ce and ce[0] == "call" and ce[1].split("::")[-1] == "into_iter" and ce[2]:
                                ce = ce[2][0]
                            if ce and ce[0] == "agg" and str(ce[1]).startswith("Range") and show(ce[2][0]).isdigit() and int(show(ce[2][0])) >= int(B):
                                status = "loop variable of a range starting at %s" % show(ce[2][0])
                    mm = re.fullmatch(r"add\((.*)\)", A)
                    if not status and mm:
                        from props.shared import _split_top
                        for part in _split_top(mm.group(1)):
                            try:
                                c = int(part) if part.isdigit() else D.const_int(part)
                            except Exception:
                                c = None
                            if c is not None and c >= int(B):
                                status = "x + %d - %s" % (c, B)
                if not status and A.isdigit():
                    ubB = _excl_upper_bound(cx, b, e[3])
                    if ubB is not None and ubB - 1 <= int(A):
                        status = "%s minus a value of at most %d" % (A, ubB - 1)
                # established
                if not status:
                    fa = fa or cx.fa(b)
                    alts = fa.at(loc) or []

                    def holds(alt):
                        for l in alt:
                            if l in ("le(%s,%s)" % (B, A), "lt(%s,%s)" % (B, A)):
                                return True
                            if B == "1" and l in ("ne(0,%s)" % A, "lt(0,%s)" % A):
                                return True
                            mm2 = re.fullmatch(r"l([te])\(([\w:]+),(.*)\)", l)
                            if mm2 and mm2.group(3) == A and B.isdigit() and num(mm2.group(2)) is not None and num(mm2.group(2)) + (1 if mm2.group(1) == "t" else 0) >= int(B):
                                return True
                            # match a.cmp(&b) { Greater => a - b, Less => b - a, .. }
                            mm3 = re.fullmatch(r"is\(\w+::cmp\((.*)\),(Greater|Less|Equal)\)", l)
                            if mm3:
                                from props.shared import _split_top
                                ops = _split_top(mm3.group(1))
                                if len(ops) == 2 and ((ops == [A, B] and mm3.group(2) in ("Greater", "Equal")) or (ops == [B, A] and mm3.group(2) in ("Less", "Equal"))):
                                    return True
                        return False
                    if alts and all(holds(a) for a in alts):
                        status = "established on every path: %s <= %s" % (B[:40], A[:40])
                # classes
                if not status and ty == "isize" and re.search(r"flush_alloc|arg1\.\d", A):
                    status = "signed flush credit: clamped to [-MAX_FRAME_SIZE .., burst] by step (C13.e) and debited by one frame size (<= 1472) at a time"
                if not status and ty == "u64" and re.fullmatch(r"arg\d+(\.0)?", A) and re.search(r"(_ms|time\w*)(@Some\.0)?$", B):
                    status = "difference of two readings of the endpoint's monotonic clock (the stored one is earlier: C10.a / clock-store rules)"
                if not status:
                    for frx, arx, brx, why, link in SUB_TABLE:
                        if re.fullmatch(frx, b.path) and re.fullmatch(arx, norm_vars(A)) and re.fullmatch(brx, norm_vars(B)):
                            if link and not _dominating_edge_lit(cx, b, loc, link):
                                continue
                            status, reason = "reviewed", why
                            break
                inst.site(b, loc, "sub %s - %s" % (norm_vars(A)[:50], norm_vars(B)[:50]), {"status": status, "reason": reason})
                if not status:
                    inst.violation(b.path, "sub %s - %s" % (norm_vars(A)[:50], norm_vars(B)[:40]),
                                   "overflow-checked subtraction `%s - %s` is not shown to have subtrahend <= minuend on every path: it panics in builds with overflow checks and wraps to a huge value otherwise" % (A[:100], B[:100]), at=b.span_at(loc))
