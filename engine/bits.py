"""E3 — bit-provenance interpreter for the fixed-layout codec (DESIGN.md §1.5).

Abstract domain: a W-bit value is a vector of cells (LSB first), each cell one of
    0 | 1 | ('s', field, k)  bit k of a frame field (writer side source)
          | ('i', j, k)      bit k of input byte j (reader side source)
          | 'T'              unknown
Transfer functions for constants, zero-extending / truncating casts, shifts by constants,
`& | ^` cell-wise, `x != 0` on a one-hot vector, `bool as u8`.  The writer side gives every output
byte's cells in terms of frame fields, the reader side every reconstructed field's cells in terms
of input bytes; substituting the writer's bytes into the reader's cells must give back exactly
bit k of field f (or 0 where the writer's own path condition says that bit is 0).
It is an abstract interpreter over normalised MIR expression trees with a finite lattice; nothing
is executed and no solver is involved.
"""
import re

from mirlib import Loc, dnf_holds, show
from rules import call_sites

WIDTH = {"u8": 8, "u16": 16, "u32": 32, "u64": 64, "usize": 64, "bool": 1}


class Unknown(Exception):
    pass


def const_cells(v, w):
    return [(v >> k) & 1 for k in range(w)]


def ev(e, leaf):
    """cells of expression e; leaf(e) returns cells for recognised leaves or None"""
    c = leaf(e)
    if c is not None:
        return list(c)
    k = e[0]
    if k == "const":
        w = WIDTH.get(e[2])
        if w is None:
            raise Unknown("constant of type %s" % e[2])
        v = 1 if e[1] == "true" else 0 if e[1] == "false" else int(e[1])
        return const_cells(v, w)
    if k == "cast":
        w = WIDTH.get(e[1])
        if w is None:
            raise Unknown("cast to %s" % e[1])
        a = ev(e[2], leaf)
        return (a + [0] * w)[:w]
    if k == "bin":
        op = e[1]
        if op in ("Shl", "Shr"):
            a = ev(e[2], leaf)
            if e[3][0] != "const":
                raise Unknown("shift by non-constant")
            n = int(e[3][1])
            w = len(a)
            if op == "Shl":
                return ([0] * n + a)[:w]
            return (a[n:] + [0] * n)[:w]
        if op in ("BitAnd", "BitOr", "BitXor"):
            a = ev(e[2], leaf)
            b = ev(e[3], leaf)
            w = max(len(a), len(b))
            a = a + [0] * (w - len(a))
            b = b + [0] * (w - len(b))
            out = []
            for x, y in zip(a, b):
                if op == "BitAnd":
                    out.append(0 if x == 0 or y == 0 else y if x == 1 else x if y == 1 else x if x == y else "T")
                elif op == "BitOr":
                    out.append(1 if x == 1 or y == 1 else y if x == 0 else x if y == 0 else x if x == y else "T")
                else:
                    out.append(y if x == 0 else x if y == 0 else 0 if x == y else "T")
            return out
        if op in ("Ne", "Eq"):
            a = ev(e[2], leaf)
            b = ev(e[3], leaf)
            za = all(x == 0 for x in a)
            zb = all(x == 0 for x in b)
            other = b if za else a if zb else None
            if other is not None:
                nz = [x for x in other if x != 0]
                if len(nz) == 1 and nz[0] != "T" and op == "Ne":
                    return [nz[0]]
                if not nz:
                    return [0 if op == "Ne" else 1]
            return ["T"]
    if k == "un" and e[1] == "Not":
        a = ev(e[2], leaf)
        return [1 - x if x in (0, 1) else "T" for x in a]
    raise Unknown("unsupported expression " + show(e)[:80])


def subst(cells, out_bytes, off):
    res = []
    for c in cells:
        if isinstance(c, tuple) and c[0] == "i":
            j = c[1] + off
            if j < 0 or j >= len(out_bytes):
                res.append("T")
            else:
                res.append(out_bytes[j][c[2]])
        else:
            res.append(c)
    return res


def reader_leaf_over(out, off):
    """reader leaf that yields the writer's cells for input byte j directly (so that tests such as
    `byte != 0` are evaluated on what the writer put there)"""

    def leaf(e):
        c = reader_leaf(e)
        if c is None:
            return None
        j = c[0][1] + off
        if j < 0 or j >= len(out):
            return ["T"] * 8
        return list(out[j])

    return leaf


def apply_zero(out, zero_from):
    """writer-side path condition: source bits known to be zero become the constant 0"""
    res = []
    for byte in out:
        res.append([0 if isinstance(c, tuple) and c[0] == "s" and c[2] >= zero_from.get(c[1], 99) else c for c in byte])
    return res


def reader_leaf(e):
    """arg1[const j] -> input byte j"""
    if e[0] == "proj" and e[1] == ("arg", 1) and len(e[2]) == 1:
        el = e[2][0]
        if isinstance(el, tuple) and el[0] == "[]" and el[1][0] == "const":
            j = int(el[1][1])
            return [("i", j, k) for k in range(8)]
        if isinstance(el, str):
            m = re.fullmatch(r"\[c(\d+)\]", el)
            if m:
                return [("i", int(m.group(1)), k) for k in range(8)]
    return None


def field_leaf(argn, widths, rename=None, extra=None):
    """writer leaves: argN.field -> source cells"""

    def leaf(e):
        if extra:
            c = extra(e)
            if c is not None:
                return c
        if e[0] == "proj" and e[1] == ("arg", argn) and len(e[2]) == 1 and isinstance(e[2][0], str) and e[2][0] in widths:
            f = e[2][0]
            return [("s", f, k) for k in range(widths[f])]
        if rename and e[0] == "arg" and e[1] in rename:
            f, w = rename[e[1]]
            return [("s", f, k) for k in range(w)]
        return None

    return leaf


def adt_widths(R, adt):
    a = R.adt(adt)
    out = {}
    for f in a["variants"][0]["fields"]:
        t = f["ty"]
        if t in WIDTH:
            out[f["name"]] = WIDTH[t]
        m = re.fullmatch(r"(?:std::option::)?Option<(\w+)>", t)
        if m and m.group(1) in WIDTH:
            out[f["name"]] = WIDTH[m.group(1)]
    return out


def array_literal_at(b, min_len=2):
    """[(Loc, [element exprs])] for every byte-array literal in body b"""
    out = []
    for bb in sorted(b.reachable):
        for i, s in enumerate(b.stmts(bb)):
            if s["k"] == "assign" and s["rv"]["k"] == "agg" and s["rv"].get("ak") == "array" and s["rv"].get("ety") == "u8":
                e = b.rvalue_expr(s["rv"])
                if len(e[2]) >= min_len:
                    out.append((Loc(bb, i), list(e[2])))
    return out


def zero_bits_from_facts(alts, leafnames):
    """{field: first bit known zero} from `lt(E, 2^k)` / `eq(0,E)` literals common to all alternatives"""
    if not alts:
        return {}
    common = frozenset.intersection(*[frozenset(a) for a in alts])
    z = {}
    for lit in common:
        for name, rx in leafnames.items():
            m = re.fullmatch(r"lt\(%s,(\d+)\)" % rx, lit)
            if m:
                c = int(m.group(1))
                kbits = (c - 1).bit_length() if c > 0 else 0
                if c == 1 << kbits or True:
                    # X < c  =>  X <= c-1  => bits above bit_length(c-1) are zero
                    z[name] = min(z.get(name, 99), (c - 1).bit_length())
            if re.fullmatch(r"eq\(0,%s\)" % rx, lit) or re.fullmatch(r"eq\(%s,0\)" % rx, lit):
                z[name] = 0
    return z


def compare(inst, where, what, got, field, width, zero_from, construct):
    """got[k] must be ('s', field, k), or 0 where the field's bit k is known zero"""
    bad = []
    for k in range(width):
        g = got[k] if k < len(got) else 0
        if g == ("s", field, k):
            continue
        if k >= zero_from.get(field, 99) and g == 0:
            continue
        bad.append((k, g))
    for k in range(width, len(got)):
        if got[k] != 0:
            bad.append((k, got[k]))
    if bad:
        inst.violation(where, construct, "%s: reader bit(s) %s of `%s` do not come back as written: got %s" % (what, [k for k, _ in bad][:8], field, [str(g) for _, g in bad][:4]))
    return not bad


def check_headers(cx, e_id, f_id):
    R = cx.R
    S = "frame::serial::"
    nobl = 0
    chan_bits = (R.const_int("CHANNEL_COUNT") - 1).bit_length()
    seq_bits = R.const_int("packet_id::MASK").bit_length()
    # -------------------------------------------------------------------------------------------
    with cx.instance(f_id + ".fixed", "E3 BIT-PROVENANCE", "fixed-layout frames: every field bit the reader reconstructs is the bit the writer stored", floor=5) as inst:
        fixed = [
            ("HandshakeSynFrame", "write_handshake_syn", "read_handshake_syn_payload"),
            ("HandshakeSynAckFrame", "write_handshake_syn_ack", "read_handshake_syn_ack_payload"),
            ("HandshakeAckFrame", "write_handshake_ack", "read_handshake_ack_payload"),
            ("HandshakeErrorFrame", "write_handshake_error", "read_handshake_error_payload"),
            ("SyncFrame", "write_sync", "read_sync_payload"),
        ]
        for adt, w, r in fixed:
            wb = R.body(S + w)
            lits = array_literal_at(wb, 5)
            if not lits:
                inst.violation(wb.path, "byte literal", "no byte-array literal in %s (anchor)" % w)
                continue
            loc, elems = max(lits, key=lambda x: len(x[1]))
            widths = adt_widths(R, "frame::" + adt)

            def extra(e, widths=widths):
                # Option fields: unwrap_or(field, 0) is the value, is_some(field) the presence bit
                if e[0] == "call" and e[1] == "Option::unwrap_or" and e[2][0][0] == "proj" and e[2][0][1] == ("arg", 1):
                    f = e[2][0][2][0]
                    return [("s", f, k) for k in range(widths.get(f, 32))]
                if e[0] == "call" and e[1] == "Option::is_some" and e[2][0][0] == "proj":
                    return [("s", e[2][0][2][0] + "?", 0)]
                if e[0] == "var":
                    return [("s", "var%d" % e[1], k) for k in range(8)]
                return None

            try:
                from rules import resolve_tuple_merges
                elems = [resolve_tuple_merges(cx, wb, x) for x in elems]
                out = [(ev(x, field_leaf(1, widths, extra=extra)) + [0] * 8)[:8] for x in elems]
            except Unknown as ex:
                inst.violation(wb.path, "writer bytes", "cannot interpret %s's byte literal: %s" % (w, ex))
                continue
            rb = R.body(S + r)
            rfa = cx.fa(rb)
            found = False
            for rloc, s in rb.assigns():
                rv = s["rv"]
                if rv["k"] == "agg" and rv.get("adt") == "frame::" + adt:
                    found = True
                    for fname, op in zip(rv["fields"], rv["ops"]):
                        if fname not in widths:
                            inst.site(rb, rloc, "%s.%s (not a scalar field: table-checked in C16.a)" % (adt, fname))
                            continue
                        e = rb.operand_expr(op)
                        nobl += widths[fname]
                        if e[0] == "var":
                            # Option field: Some(expr) under a mode-bit test, None otherwise
                            okf = True
                            for dloc, kind, node in rb.defs.get(e[1], []):
                                de = rb.rvalue_expr(node["rv"])
                                if de[0] == "agg" and de[1] == "Some":
                                    try:
                                        got = ev(de[2][0], reader_leaf_over(out, 1))
                                    except Unknown as ex:
                                        inst.violation(rb.path, "%s.%s" % (adt, fname), "cannot interpret reader expression: %s" % ex)
                                        okf = False
                                        continue
                                    okf &= compare(inst, rb.path, adt, got, fname, widths[fname], {}, "%s.%s round trip" % (adt, fname))
                                    # presence bit: Some only when the writer's is_some bit is set ...
                                    if ("s", fname + "?", 0) not in _onehot_cells(rfa, rfa.at(dloc), "ne", out, 1):
                                        inst.violation(rb.path, "%s.%s presence bit" % (adt, fname), "the reader's Some(%s) is not decided by the bit where the writer stores is_some(%s)" % (fname, fname))
                                        okf = False
                                elif de[0] == "agg" and de[1] == "None":
                                    # ... and None only when it is clear
                                    if ("s", fname + "?", 0) not in _onehot_cells(rfa, rfa.at(dloc), "eq", out, 1):
                                        inst.violation(rb.path, "%s.%s absence bit" % (adt, fname), "the reader's None for %s is not decided by the bit where the writer stores is_some(%s)" % (fname, fname))
                                        okf = False
                            inst.site(rb, rloc, "%s.%s (optional) round trip: %s" % (adt, fname, okf))
                            continue
                        try:
                            got = ev(e, reader_leaf_over(out, 1))
                        except Unknown as ex:
                            inst.violation(rb.path, "%s.%s" % (adt, fname), "cannot interpret reader expression: %s" % ex)
                            continue
                        ok = compare(inst, rb.path, adt, got, fname, widths[fname], {}, "%s.%s round trip" % (adt, fname))
                        inst.site(rb, rloc, "%s.%s round trip: %s" % (adt, fname, ok))
            if not found:
                inst.violation(rb.path, adt, "reader does not construct %s (anchor)" % adt)

    # -------------------------------------------------------------------------------------------
    with cx.instance(e_id, "T9 + E3 (threshold agreement)", "datagram header classes: selection thresholds equal the reader's field widths; every header bit round-trips under the writer's path condition", floor=3) as inst:
        wb = R.body("frame::serial::build::DataFrameBuilder::add")
        wfa = cx.fa(wb)
        rb = R.body(S + "read_datagram")
        rfa = cx.fa(rb)
        dwid = {"channel_id": 8, "sequence_id": 32, "window_parent_lead": 16, "channel_parent_lead": 16, "fragment_id": 16, "fragment_id_last": 16}

        def wextra(e):
            s = show(e)
            if s == "cast<u16>([T]::len(arg2.data))":
                return [("s", "len", k) for k in range(16)]
            return None

        wleaf = field_leaf(2, dwid, extra=wextra)
        leafnames = {
            "len": r"cast<u16>\(\[T\]::len\(arg2\.data\)\)", "window_parent_lead": r"arg2\.window_parent_lead",
            "channel_parent_lead": r"arg2\.channel_parent_lead", "fragment_id_last": r"arg2\.fragment_id_last",
        }
        classes = {}
        for loc, elems in array_literal_at(wb, 4):
            z = zero_bits_from_facts(wfa.at(loc), leafnames)
            z.setdefault("channel_id", chan_bits)
            z.setdefault("sequence_id", seq_bits)
            z["channel_id"] = min(z["channel_id"], chan_bits)
            z["sequence_id"] = min(z["sequence_id"], seq_bits)
            if z.get("fragment_id_last") == 0:
                z["fragment_id"] = 0  # representable datagram: fragment_id <= fragment_id_last
            def wleaf_z(e, z=z):
                c = wleaf(e)
                if c is None:
                    return None
                return [0 if isinstance(x, tuple) and x[0] == "s" and x[2] >= z.get(x[1], 99) else x for x in c]

            try:
                out = [(ev(x, wleaf_z) + [0] * 8)[:8] for x in elems]
            except Unknown as ex:
                inst.violation(wb.path, "datagram header literal", "cannot interpret a header literal of DataFrameBuilder::add: %s" % ex)
                continue
            classes[len(elems)] = (loc, apply_zero(out, z), z)
        sizes = {R.const_int(S + "DATAGRAM_HEADER_SIZE_MICRO"): "micro", R.const_int(S + "DATAGRAM_HEADER_SIZE_SMALL"): "small", R.const_int(S + "DATAGRAM_HEADER_SIZE_LARGE"): "large"}
        if sorted(classes) != sorted(sizes):
            inst.violation(wb.path, "header classes", "writer header literal lengths %s differ from DATAGRAM_HEADER_SIZE_* %s" % (sorted(classes), sorted(sizes)))
        nread = 0
        for rloc, s in rb.assigns():
            rv = s["rv"]
            if not (rv["k"] == "agg" and rv.get("adt") == "frame::Datagram"):
                continue
            f = dict(zip(rv["fields"], rv["ops"]))
            de = show(rb.operand_expr(f["data"]))
            m = re.search(r"arg1\[Range\{(?:frame::serial::)?(DATAGRAM_HEADER_SIZE_[A-Z]+|\d+),", de)
            if not m:
                inst.violation(rb.path, "payload slice", "cannot find the payload slice of a Datagram literal: %s" % de[:100])
                continue
            h = R.const_int(S + m.group(1)) if not m.group(1).isdigit() else int(m.group(1))
            cname = sizes.get(h, "?")
            nread += 1
            if h not in classes:
                inst.violation(rb.path, "header class %d" % h, "reader parses a %d-byte datagram header the writer never emits" % h)
                continue
            wloc, out, z = classes[h]
            inst.site(rb, rloc, "%s header (%d bytes): writer path condition zero-from %s" % (cname, h, {k: v for k, v in sorted(z.items())}))
            # class selection bits: the reader's own branch conditions must hold for what the writer emits
            for alt in (rfa.at(rloc) or []):
                for lit in alt:
                    le = rfa.lit_expr.get(lit)
                    if not le or "arg1[" not in lit or "len" in lit:
                        continue
                    try:
                        a = ev(le[1], reader_leaf_over(out, 0))
                        b2 = ev(le[2], reader_leaf_over(out, 0))
                    except Unknown:
                        continue
                    w = max(len(a), len(b2))
                    a = a + [0] * (w - len(a))
                    b2 = b2 + [0] * (w - len(b2))
                    nobl += 1
                    if any(x not in (0, 1) for x in a + b2):
                        inst.violation(rb.path, "%s class bits" % cname, "the reader's class test `%s` depends on non-constant writer bits %s" % (lit, [str(x) for x in a if x not in (0, 1)][:3]))
                        continue
                    eqv = a == b2
                    if (le[0] == "eq") != eqv:
                        inst.violation(rb.path, "%s class bits" % cname, "a %s header as written fails the reader's class test `%s`" % (cname, lit))
            # fields
            for fname in ("channel_id", "sequence_id", "window_parent_lead", "channel_parent_lead", "fragment_id", "fragment_id_last"):
                e = rb.operand_expr(f[fname])
                try:
                    got = ev(e, reader_leaf_over(out, 0))
                except Unknown as ex:
                    inst.violation(rb.path, "%s.%s" % (cname, fname), "cannot interpret reader expression: %s" % ex)
                    continue
                nobl += dwid[fname]
                compare(inst, rb.path, cname + " datagram header", got, fname, dwid[fname], z, "%s header %s round trip" % (cname, fname))
            # length field
            m2 = re.search(r"Range\{[^,]+,add\([^,]+,(.*)\)\}\]", de)
            lens = None
            for l2, s2 in rb.assigns():
                pass
            # the slice end is header + len: find the len expression as the second operand of the add
            fe = rb.operand_expr(f["data"])
            lenexpr = _find_len_expr(fe)
            if lenexpr is None:
                inst.violation(rb.path, "%s length field" % cname, "cannot isolate the length expression of the payload slice")
            else:
                try:
                    got = ev(lenexpr, reader_leaf_over(out, 0))
                    nobl += 16
                    compare(inst, rb.path, cname + " datagram header", got, "len", 16, z, "%s header length round trip" % cname)
                except Unknown as ex:
                    inst.violation(rb.path, "%s length field" % cname, "cannot interpret the length expression: %s" % ex)
        if nread != 3:
            inst.violation(rb.path, "Datagram literals", "expected three Datagram literals in read_datagram, found %d" % nread)
        # the payload follows its header: extend(header literal) is followed by extend(datagram.data), nothing else
        ext = [(l, show(wb.operand_expr(t["args"][1]))) for l, t in wb.calls("Vec::extend_from_slice")]
        hdrs = [l for l, a in ext if a.startswith("array{")]
        datas = [l for l, a in ext if a == "arg2.data"]
        others = [a for l, a in ext if not a.startswith("array{") and a != "arg2.data"]
        inst.site(wb, None, "payload copies: %d header literals, %d payload copies" % (len(hdrs), len(datas)))
        if others or len(hdrs) != 3 or not datas:
            inst.violation(wb.path, "payload copy", "DataFrameBuilder::add appends %s besides header literals and the datagram's data" % (others or "an unexpected number of slices"))
        for h in hdrs:
            if wb.reach_exit_avoiding(h, datas) is not None:
                inst.violation(wb.path, "header without payload", "a datagram header is appended without its payload following it", at=wb.span_at(h))
        for dl in datas:
            if wb.reach_from_entry_avoiding(dl, hdrs) is not None:
                inst.violation(wb.path, "payload before header", "a payload is appended before its header", at=wb.span_at(dl))
        # encoded_size selects the class under the same predicates as add
        es = R.body("frame::serial::build::DataFrameBuilder::encoded_size")
        efa = cx.fa(es)
        from rules import case_values
        ret_cases = []
        for loc, kind, node in es.defs.get(0, []):
            if kind != "assign":
                continue
            here = efa.at(loc) or [frozenset()]
            for alts, ce in case_values(cx, es, es.rvalue_expr(node["rv"])):
                merged = [frozenset(a) | frozenset(h) for a in alts for h in here]
                # a value chosen in one arm combined with the facts of another arm at the merge point is infeasible
                merged = [m_ for m_ in merged if not any((l_.startswith("eq(") and ("ne(" + l_[3:]) in m_) or (l_.startswith("!") and l_[1:] in m_) for l_ in m_)] or merged
                ret_cases.append((loc, merged, show(ce)))
        for loc, case_alts, e in ret_cases:
            m = re.match(r"add\((?:frame::serial::)?(DATAGRAM_HEADER_SIZE_[A-Z]+),\[T\]::len\(arg1\.data\)\)|add\(\[T\]::len\(arg1\.data\),(?:frame::serial::)?(DATAGRAM_HEADER_SIZE_[A-Z]+)\)", e)
            if not m:
                inst.violation(es.path, "encoded_size value", "encoded_size returns `%s`" % e)
                continue
            cn = (m.group(1) or m.group(2))
            h = R.const_int(S + cn)
            z = zero_bits_from_facts(case_alts, {"len": r"\[T\]::len\(arg1\.data\)", "window_parent_lead": r"arg1\.window_parent_lead",
                                                   "channel_parent_lead": r"arg1\.channel_parent_lead", "fragment_id_last": r"arg1\.fragment_id_last"})
            wz = {k: v for k, v in classes.get(h, (None, None, {}))[2].items() if k in ("len", "window_parent_lead", "channel_parent_lead", "fragment_id_last")}
            inst.site(es, loc, "encoded_size %s under %s (add: %s)" % (cn, z, wz))
            nobl += 1
            if z != wz:
                inst.violation(es.path, "encoded_size predicates", "encoded_size picks the %d-byte header under %s but add() under %s: the size accounted differs from the bytes written" % (h, z, wz))
    cx.extra["bit_obligations"] = nobl

    # -------------------------------------------------------------------------------------------
    with cx.instance(f_id + ".var", "E3 BIT-PROVENANCE", "data/ack frame headers and ack groups round-trip; counts fit their fields", floor=4) as inst:
        # data frame header
        nb = R.body("frame::serial::build::DataFrameBuilder::new")
        lits = array_literal_at(nb, 4)
        bb = R.body("frame::serial::build::DataFrameBuilder::build")
        rd = R.body(S + "read_data_payload")
        if lits:
            loc, elems = lits[0]
            leaf = field_leaf(0, {}, rename={1: ("sequence_id", 32), 2: ("nonce", 1)})
            try:
                out = [(ev(x, leaf) + [0] * 8)[:8] for x in elems]
                # build(): buffer[k] |= count as u8
                cnt_bits = (R.const_int("frame::serial::build::DataFrameBuilder::MAX_COUNT")).bit_length()
                for l2, node, ps in bb.field_writes(r"arg1\.buffer\[\d+\]"):
                    k = int(re.search(r"\[(\d+)\]", ps).group(1))
                    e = show(bb.rvalue_expr(node["rv"]))
                    if re.fullmatch(r"bitor\((arg1\.buffer\[%d\],cast<u8>\(arg1\.count\)|cast<u8>\(arg1\.count\),arg1\.buffer\[%d\])\)" % (k, k), e):
                        cc = [("s", "count", i) if i < cnt_bits else 0 for i in range(8)]
                        out[k] = [1 if x == 1 or y == 1 else y if x == 0 else x if y == 0 else "T" for x, y in zip(out[k], cc)]
                    else:
                        inst.violation(bb.path, "count byte", "DataFrameBuilder::build writes `%s` into the header" % e)
                for rloc, s in rd.assigns():
                    rv = s["rv"]
                    if rv["k"] == "agg" and rv.get("adt") == "frame::DataFrame":
                        f = dict(zip(rv["fields"], rv["ops"]))
                        for fname, w in (("sequence_id", 32), ("nonce", 1)):
                            got = ev(rd.operand_expr(f[fname]), reader_leaf_over(out, 1))
                            ok = compare(inst, rd.path, "data frame header", got, fname, w, {}, "DataFrame.%s round trip" % fname)
                            inst.site(rd, rloc, "DataFrame.%s round trip: %s" % (fname, ok))
                # the datagram count: the Range end of the for loop
                for l3, t3 in rd.calls("re:into_iter$"):
                    e = rd.operand_expr(t3["args"][0])
                    if e[0] == "agg" and e[1].startswith("Range") and len(e[2]) == 2:
                        got = ev(e[2][1], reader_leaf_over(out, 1))
                        ok = compare(inst, rd.path, "data frame header", got, "count", 8, {"count": cnt_bits}, "datagram count round trip")
                        inst.site(rd, l3, "datagram count round trip: %s (MAX_COUNT needs %d bits)" % (ok, cnt_bits))
            except Unknown as ex:
                inst.violation(nb.path, "data frame header", "cannot interpret the data frame header: %s" % ex)
        else:
            inst.violation(nb.path, "header literal", "no header literal in DataFrameBuilder::new (anchor)")
        # ack frame header + group
        an = R.body("frame::serial::build::AckFrameBuilder::new")
        ab = R.body("frame::serial::build::AckFrameBuilder::build")
        ra = R.body(S + "read_ack_payload")
        lits = array_literal_at(an, 4)
        if lits:
            loc, elems = lits[0]
            leaf = field_leaf(0, {}, rename={1: ("frame_window_base_id", 32), 2: ("packet_window_base_id", 32)})
            try:
                out = [(ev(x, leaf) + [0] * 8)[:8] for x in elems]
                for l2, node, ps in ab.field_writes(r"arg1\.buffer\[\d+\]"):
                    k = int(re.search(r"\[(\d+)\]", ps).group(1))

                    def cleaf(e):
                        if show(e) == "arg1.count":
                            return [("s", "count", i) for i in range(16)]
                        return None

                    out[k] = (ev(bb.rvalue_expr(node["rv"]) if False else ab.rvalue_expr(node["rv"]), cleaf) + [0] * 8)[:8]
                for rloc, s in ra.assigns():
                    rv = s["rv"]
                    if rv["k"] == "agg" and rv.get("adt") == "frame::AckFrame":
                        f = dict(zip(rv["fields"], rv["ops"]))
                        for fname in ("frame_window_base_id", "packet_window_base_id"):
                            got = ev(ra.operand_expr(f[fname]), reader_leaf_over(out, 1))
                            ok = compare(inst, ra.path, "ack frame header", got, fname, 32, {}, "AckFrame.%s round trip" % fname)
                            inst.site(ra, rloc, "AckFrame.%s round trip: %s" % (fname, ok))
                for l3, t3 in ra.calls("re:into_iter$"):
                    e = ra.operand_expr(t3["args"][0])
                    if e[0] == "agg" and e[1].startswith("Range") and len(e[2]) == 2:
                        got = ev(e[2][1], reader_leaf_over(out, 1))
                        ok = compare(inst, ra.path, "ack frame header", got, "count", 16, {}, "ack group count round trip")
                        inst.site(ra, l3, "ack group count round trip: %s" % ok)
            except Unknown as ex:
                inst.violation(an.path, "ack frame header", "cannot interpret the ack frame header: %s" % ex)
        else:
            inst.violation(an.path, "header literal", "no header literal in AckFrameBuilder::new (anchor)")
        aa = R.body("frame::serial::build::AckFrameBuilder::add")
        rg = R.body(S + "read_frame_ack")
        lits = array_literal_at(aa, 4)
        if lits:
            loc, elems = lits[0]
            gw = {"base_id": 32, "bitfield": 32, "nonce": 1}
            try:
                out = [(ev(x, field_leaf(2, gw)) + [0] * 8)[:8] for x in elems]
                if len(elems) != R.const_int(S + "ACK_GROUP_SIZE"):
                    inst.violation(aa.path, "ACK_GROUP_SIZE", "ack group literal has %d bytes, ACK_GROUP_SIZE is %d" % (len(elems), R.const_int(S + "ACK_GROUP_SIZE")))
                for rloc, s in rg.assigns():
                    rv = s["rv"]
                    if rv["k"] == "agg" and rv.get("adt") == "frame::AckGroup":
                        f = dict(zip(rv["fields"], rv["ops"]))
                        for fname, w in gw.items():
                            got = ev(rg.operand_expr(f[fname]), reader_leaf_over(out, 0))
                            ok = compare(inst, rg.path, "ack group", got, fname, w, {}, "AckGroup.%s round trip" % fname)
                            inst.site(rg, rloc, "AckGroup.%s round trip: %s" % (fname, ok))
            except Unknown as ex:
                inst.violation(aa.path, "ack group", "cannot interpret the ack group literal: %s" % ex)
        else:
            inst.violation(aa.path, "group literal", "no byte literal in AckFrameBuilder::add (anchor)")


def _onehot_cells(fa, alts, op, out, off):
    """cells c such that every alternative contains a literal `op(0, X)` where X, evaluated on the
    writer's bytes, has c as its only non-zero cell"""
    res = None
    for alt in (alts or []):
        cs = set()
        for lit in sorted(alt):
            le = fa.lit_expr.get(lit)
            if not le or le[0] != op:
                continue
            for side in (le[1], le[2]):
                try:
                    c = ev(side, reader_leaf_over(out, off))
                except Unknown:
                    continue
                nz = [x for x in c if x != 0]
                if len(nz) == 1 and nz[0] != "T":
                    cs.add(nz[0])
        res = cs if res is None else res & cs
    return res or set()


def _find_len_expr(e):
    """in `into(arg1[Range{H, add(H, LEN)}])` return LEN"""
    if e[0] == "call" and e[2]:
        for a in e[2]:
            r = _find_len_expr(a)
            if r is not None:
                return r
    if e[0] == "proj":
        for el in e[2]:
            if isinstance(el, tuple) and el[0] == "[]":
                r = el[1]
                if r[0] == "agg" and r[1].startswith("Range") and len(r[2]) == 2:
                    end = r[2][1]
                    if end[0] == "bin" and end[1] == "Add":
                        a, b = end[2], end[3]
                        return b if a[0] == "const" else a
        return _find_len_expr(e[1])
    return None
