fn main() { println!("placeholder"); }
