"""C16 — frame codec round-trips, rejects malformed input, CRC catches <= 4 flips (DESIGN.md §4 C16)."""
import json
import os
import re
import subprocess
from mirlib import show, Loc, dnf_holds
from rules import call_sites, call_locs, agg_sites, return_alts
from extract import VERIF

LEVEL = "proof"
SCOPE = ("Proof-level for the finite/algebraic obligations, enumerated on every run from /repo's source: nine "
         "distinct frame-type ids with Frame::write / Frame::read dispatching each variant to the writer/reader "
         "of the same id and unknown ids to None; inverse byte tables for HandshakeErrorType; for each fixed frame "
         "reader length constant + overhead == writer literal length and the reader refuses any other length; "
         "variable frames return Some only when the remaining length is zero; all nine writers append the CRC of "
         "all preceding bytes big-endian in the last four bytes and Frame::read recomputes it over the same bytes "
         "in the same order; the 256-word table literal is the (affine) byte table of generator 0x1_32C0_0699 and "
         "crc::extend is the table-driven reflected step; NO multiple of the generator of weight 1..4 has degree "
         "< 8*MAX_FRAME_SIZE (exhaustive enumeration, ~7e7 probes), hence every 1-4 bit error in a frame of at "
         "most MAX_FRAME_SIZE bytes changes the CRC relation; datagram header class thresholds equal the reader's "
         "field widths; and a bit-provenance round trip of every fixed-layout header (each bit the reader "
         "reconstructs is the bit the writer put there, under the writer's own path conditions). Not decided: "
         "payload copying over runtime lengths beyond 'length field = data.len(), slice = [h .. h+len]'.")
TRUSTED = ["rustc MIR construction and constant evaluation", "the fact extractor and the bit-provenance interpreter in /verif/engine",
           "engine/crcproof (dependency-free Rust, exhaustive enumeration over constants read from the source)",
           "GF(2) algebra: an affine CRC's constant cancels between equal-length messages; x is invertible mod g because g has a constant term"]
LEVEL_NOTE = ("Finite obligations are enumerated and discharged on every run (table words, id/length tables, CRC sequences, weight<=4 "
              "enumeration, header bits). Trusted base as listed; the payload copy over runtime lengths is only checked by shape.")
TECHNIQUE = "static analysis: table/constant agreement, sibling CRC sequences, exhaustive GF(2) enumeration over source constants, bit-provenance abstract interpretation of fixed-layout headers"

S = "frame::serial::"
VARIANTS = {
    "HandshakeSynFrame": ("write_handshake_syn", "read_handshake_syn_payload", "HANDSHAKE_SYN_FRAME_ID", "HANDSHAKE_SYN_FRAME_PAYLOAD_SIZE"),
    "HandshakeSynAckFrame": ("write_handshake_syn_ack", "read_handshake_syn_ack_payload", "HANDSHAKE_SYN_ACK_FRAME_ID", "HANDSHAKE_SYN_ACK_FRAME_PAYLOAD_SIZE"),
    "HandshakeAckFrame": ("write_handshake_ack", "read_handshake_ack_payload", "HANDSHAKE_ACK_FRAME_ID", "HANDSHAKE_ACK_FRAME_PAYLOAD_SIZE"),
    "HandshakeErrorFrame": ("write_handshake_error", "read_handshake_error_payload", "HANDSHAKE_ERROR_FRAME_ID", "HANDSHAKE_ERROR_FRAME_PAYLOAD_SIZE"),
    "DisconnectFrame": ("write_disconnect", "read_disconnect_payload", "DISCONNECT_FRAME_ID", "DISCONNECT_FRAME_PAYLOAD_SIZE"),
    "DisconnectAckFrame": ("write_disconnect_ack", "read_disconnect_ack_payload", "DISCONNECT_ACK_FRAME_ID", "DISCONNECT_ACK_FRAME_PAYLOAD_SIZE"),
    "DataFrame": ("write_data", "read_data_payload", "DATA_FRAME_ID", None),
    "SyncFrame": ("write_sync", "read_sync_payload", "SYNC_FRAME_ID", "SYNC_FRAME_PAYLOAD_SIZE"),
    "AckFrame": ("write_ack", "read_ack_payload", "ACK_FRAME_ID", None),
}
FR = "<frame::Frame as frame::serial::Serialize>::"


def writer_literal(R, fn):
    """(first element expr string, length) of the byte-array literal of a fixed-layout writer or builder"""
    b = R.body(fn)
    for loc, t in b.calls():
        sn = R.short(t.get("fn") or "")
        if sn in ("Box::new", "slice::into_vec", "[T]::into_vec") or sn.endswith("into_vec"):
            e = b.operand_expr(t["args"][0])
            while e[0] == "call" and e[2]:
                e = e[2][0]
            if e[0] == "agg" and e[1] == "array":
                return show(e[2][0]), len(e[2]), e
            if e[0] == "agg" and e[1].startswith("repeat:"):
                # write_handshake_syn: zeroed MAX_FRAME_SIZE buffer + header copied in
                n = int(e[1].split(":")[1])
                first = None
                for l2, t2 in b.calls("[T]::clone_from_slice"):
                    src = b.operand_expr(t2["args"][1])
                    if src[0] == "agg" and src[1] == "array":
                        first = show(src[2][0])
                        return first, n, src
                return first, n, e
    return None, None, None


def error_type_tables(cx, inst):
    """the HandshakeErrorType byte tables of writer and reader are inverse, and unknown bytes are refused"""
    R = cx.R
    # HandshakeErrorType tables
    we = R.body(S + "write_handshake_error")
    wfa = cx.fa(we)
    wt = {}
    for loc, s in we.assigns():
        if not s["pl"]["p"] and not we.is_single_def(s["pl"]["l"]) and we.locals[s["pl"]["l"]]["ty"] == "u8":
            e = we.rvalue_expr(s["rv"])
            if e[0] == "const":
                for vv in ("Version", "Config", "ServerFull"):
                    if dnf_holds(wfa.at(loc), [[r"is\(arg1\.error,%s\)" % vv]])[0]:
                        wt[vv] = int(e[1])
    re_ = R.body(S + "read_handshake_error_payload")
    rfa = cx.fa(re_)
    rt = {}
    for loc, s in re_.assigns():
        if s["rv"]["k"] == "agg" and s["rv"].get("adt", "").endswith("HandshakeErrorType"):
            for alt in (rfa.at(loc) or []):
                for lit in alt:
                    m = re.fullmatch(r"eq\((\d+),arg1\[4\]\)", lit)
                    if m:
                        rt[s["rv"]["variant"]] = int(m.group(1))
        inst.site(we, None, "error byte table writer=%s reader=%s" % (wt, rt))
    if wt != rt or len(wt) != 3 or len(set(wt.values())) != 3:
        inst.violation(we.path, "HandshakeErrorType table", "writer maps %s but reader maps %s" % (wt, rt))
    # unknown error byte -> None
    nones = [a for loc, a in _none_returns(cx, re_)]
    if not any(any(re.fullmatch(r"ne\(\d+,arg1\[4\]\)", l) for l in a) for a in nones):
        inst.violation(re_.path, "unknown error byte", "read_handshake_error_payload does not reject unknown error bytes")



def run(cx):
    R = cx.R
    obligations = 0
    # ---------------------------------------------------------------------------------------------
    with cx.instance("C16.a", "T8 TABLE + T9", "nine distinct frame ids; write/read dispatch each variant consistently; unknown id -> None; HandshakeErrorType tables inverse", floor=20) as inst:
        ids = {}
        for v, (w, r, idc, _) in VARIANTS.items():
            ids[v] = R.const_int(S + idc)
        inst.site("<const>", None, "frame ids: %s" % ids)
        if len(set(ids.values())) != len(ids):
            inst.violation(S, "frame ids", "frame type ids are not pairwise distinct: %s" % ids)
        adt = R.adt("frame::Frame")
        if sorted(x["name"] for x in adt["variants"]) != sorted(VARIANTS):
            inst.violation("frame::Frame", "variants", "Frame has variants %s; the dispatch table covers %s" % (sorted(x["name"] for x in adt["variants"]), sorted(VARIANTS)))
        # write dispatch
        wb = R.body(FR + "write")
        fa = cx.fa(wb)
        for loc, t in wb.calls("re:serial::write_"):
            callee = R.short(t["fn"]).split("::")[-1]
            alts = fa.at(loc)
            hit = [v for v in VARIANTS if dnf_holds(alts, [[r"is\(arg1,%s\)" % v]])[0]]
            inst.site(wb, loc, "write: %s -> %s" % (hit, callee))
            obligations += 1
            if len(hit) != 1 or VARIANTS[hit[0]][0] != callee:
                inst.violation(wb.path, "write dispatch " + callee, "Frame::write sends variant %s to %s" % (hit, callee), at=wb.span_at(loc))
        # each writer's first byte is its id
        for v, (w, r, idc, _) in VARIANTS.items():
            fn = S + w
            first = None
            if w in ("write_data", "write_ack"):
                ctor = "DataFrameBuilder::new" if w == "write_data" else "AckFrameBuilder::new"
                if not call_sites(R.body(fn), ctor) or not call_sites(R.body(fn), ctor.replace("::new", "::build")):
                    inst.violation(fn, "builder", "%s no longer delegates to %s/.build" % (w, ctor))
                nb = R.body("frame::serial::build::" + ctor)
                for loc, st in nb.assigns():
                    e = nb.rvalue_expr(st["rv"])
                    if e[0] == "agg" and e[1] == "array":
                        first = show(e[2][0])
            else:
                first, n, _ = writer_literal(R, fn)
            obligations += 1
            inst.site(R.body(fn), None, "%s first byte = %s" % (w, first))
            if first != S + idc:
                inst.violation(fn, "first byte", "%s writes `%s` as the type byte, expected %s" % (w, first, idc))
        # read dispatch
        rb = R.body(FR + "read")
        disp = {}
        for bb in sorted(rb.reachable):
            t = rb.term(bb)
            if t["k"] == "switch" and show(rb.operand_expr(t["op"])) == "arg1[0]":
                for val, tgt in t["targets"]:
                    tt = rb.term(tgt)
                    if tt["k"] == "call" and tt.get("fn"):
                        disp[int(val)] = R.short(tt["fn"]).split("::")[-1]
                oth = t["otherwise"]
                ok_none = any(s["k"] == "assign" and not s["pl"]["p"] and s["pl"]["l"] == 0 and show(rb.rvalue_expr(s["rv"])) == "None{}" for s in rb.stmts(oth))
                inst.site(rb, Loc(bb, 0), "read: default -> None: %s" % ok_none)
                obligations += 1
                if not ok_none:
                    inst.violation(rb.path, "default arm", "an unknown frame type byte is not rejected")
        for v, (w, r, idc, _) in VARIANTS.items():
            obligations += 1
            inst.site(rb, None, "read: id %d -> %s" % (ids[v], disp.get(ids[v])))
            if disp.get(ids[v]) != r:
                inst.violation(rb.path, "read dispatch id %d" % ids[v], "Frame::read sends id %d (%s) to %s, expected %s" % (ids[v], idc, disp.get(ids[v]), r))
            # the reader constructs that variant and no other
            rbb = R.body(S + r)
            made = {s["rv"]["variant"] for loc, s in rbb.assigns() if s["rv"]["k"] == "agg" and s["rv"].get("adt") == "frame::Frame"}
            if made != {v}:
                inst.violation(rbb.path, "constructed variant", "%s constructs %s, expected Frame::%s" % (r, sorted(made), v))
        if len(disp) != len(VARIANTS):
            inst.violation(rb.path, "read dispatch", "Frame::read dispatches %d ids, expected %d" % (len(disp), len(VARIANTS)))
        error_type_tables(cx, inst)
        obligations += 3

    # ---------------------------------------------------------------------------------------------
    with cx.instance("C16.b", "T9 + T1x", "reader length constant + overhead == writer literal length; fixed readers refuse any other length; variable readers require zero remaining bytes", floor=9) as inst:
        ov = R.const_int(S + "FRAME_OVERHEAD")
        for v, (w, r, idc, lenc) in VARIANTS.items():
            rb_ = R.body(S + r)
            somes = [(loc, "return Some") for loc, s in rb_.assigns() if not s["pl"]["p"] and s["pl"]["l"] == 0 and s["rv"]["k"] == "agg" and s["rv"].get("variant") == "Some"]
            obligations += 1
            if lenc:
                n = R.const_int(S + lenc)
                first, wl, _ = writer_literal(R, S + w)
                inst.site(rb_, None, "%s: reader %d + %d == writer literal %s" % (v, n, ov, wl))
                if wl != n + ov:
                    inst.violation(S + w, "length agreement " + v, "writer emits %s bytes, reader expects %d + %d" % (wl, n, ov))
                cx.guard(inst, rb_, somes, [[r"eq\(\[T\]::len\(arg1\),frame::serial::%s\)" % lenc]], construct="length test of " + r,
                         why="a fixed-layout frame must be refused at any other length")
                if v == "HandshakeSynFrame" and n + ov != R.const_int("MAX_FRAME_SIZE"):
                    inst.violation(S + lenc, "SYN padding", "the SYN frame is not padded to MAX_FRAME_SIZE")
            else:
                # variable frames: Some only when nothing remains
                cx.guard(inst, rb_, somes, [[r"eq\(0,\[T\]::len\(.*\)\)"], [r"eq\(\[T\]::len\(.*\),0\)"]], construct="trailing bytes in " + r,
                         why="trailing bytes after the last element must make the frame invalid")
            if not somes:
                inst.violation(rb_.path, "Some return", "%s never returns a frame (anchor)" % r)

    # ---------------------------------------------------------------------------------------------
    with cx.instance("C16.c", "T4 SIBLING", "all nine writers append CRC(all preceding bytes) big-endian in the last four bytes; Frame::read recomputes and compares the same bytes in the same order", floor=10) as inst:
        sigs = {}
        for v, (w, r, idc, lenc) in VARIANTS.items():
            if w in ("write_data", "write_ack"):
                bn = "frame::serial::build::" + ("DataFrameBuilder" if w == "write_data" else "AckFrameBuilder") + "::build"
                b = R.body(bn)
                sig = None
                for loc, t in b.calls("Vec::extend_from_slice"):
                    e = b.operand_expr(t["args"][1])
                    if e[0] == "call" and e[1] == "u32::to_be_bytes" and len(e[2]) == 1:
                        # crc.to_be_bytes() is the four bytes of crc, most significant first
                        x_ = e[2][0]
                        e = ("agg", "array", tuple(("cast", "u8", x_ if sh_ == 0 else ("bin", "Shr", x_, ("const", str(sh_), "i32", None))) for sh_ in (24, 16, 8, 0)))
                    if e[0] == "agg" and e[1] == "array" and len(e[2]) == 4:
                        buf = show(b.operand_expr(t["args"][0]))
                        sig = tuple(re.sub(re.escape(buf), "BUF", show(x)) for x in e[2])
                        # nothing is appended after the CRC
                        later = [l for l in call_locs(b, "Vec::extend_from_slice") + call_locs(b, "Vec::push") if l != loc and b.reach_from_entry_avoiding(l, [loc]) is None]
                        if later:
                            inst.violation(b.path, "bytes after CRC", "%s appends bytes after the CRC" % bn)
                want = ("cast<u8>(shr(crc::compute(BUF),24))", "cast<u8>(shr(crc::compute(BUF),16))", "cast<u8>(shr(crc::compute(BUF),8))", "cast<u8>(crc::compute(BUF))")
                sigs[w] = sig
                obligations += 1
                inst.site(b, None, "%s CRC append: %s" % (w, sig))
                if sig != want:
                    inst.violation(b.path, "CRC append", "%s appends %s, expected the big-endian CRC of the whole buffer" % (bn, sig))
            else:
                b = R.body(S + w)
                ws = []
                for loc, s in b.assigns():
                    if s["pl"]["p"] and any(isinstance(p, dict) and "idx" in p for p in s["pl"]["p"]):
                        d = show(b.place_expr(s["pl"]))
                        e = show(b.rvalue_expr(s["rv"]))
                        m = re.fullmatch(r"(.*)\[sub\(\[T\]::len\((.*)\),(\d)\)\]", d)
                        if m and "crc::compute" in e:
                            buf = m.group(2)
                            ws.append((int(m.group(3)), e.replace(buf, "BUF")))
                ws.sort(reverse=True)
                want = [(4, "cast<u8>(shr(crc::compute(BUF[Range{0,sub([T]::len(BUF),4)}]),24))"), (3, "cast<u8>(shr(crc::compute(BUF[Range{0,sub([T]::len(BUF),4)}]),16))"),
                        (2, "cast<u8>(shr(crc::compute(BUF[Range{0,sub([T]::len(BUF),4)}]),8))"), (1, "cast<u8>(crc::compute(BUF[Range{0,sub([T]::len(BUF),4)}]))")]
                obligations += 1
                inst.site(b, None, "%s CRC append: %d byte writes" % (w, len(ws)))
                if ws != want:
                    inst.violation(b.path, "CRC append", "%s stores the CRC as %s; siblings store CRC(buf[0..len-4]) big-endian at len-4..len-1" % (w, ws[:4]))
        rb = R.body(FR + "read")
        ok = False
        # the comparison, read off the branch literals (so `if crc != x { return None }` and `if !(crc == x) …` agree)
        A = "bitor(bitor(bitor(shl(cast<u32>(arg1[sub([T]::len(arg1),3)]),16),shl(cast<u32>(arg1[sub([T]::len(arg1),4)]),24)),shl(cast<u32>(arg1[sub([T]::len(arg1),2)]),8)),cast<u32>(arg1[sub([T]::len(arg1),1)]))"
        Bc = "crc::compute(arg1[Range{0,sub([T]::len(arg1),4)}])"
        x, y = sorted((A, Bc))
        want_lits = {"eq(%s,%s)" % (x, y), "ne(%s,%s)" % (x, y)}
        rfa = cx.fa(rb)
        seen_cmp = set()
        for k_, lits in rfa.edge_lits.items():
            for l in lits:
                if "crc::compute" in l:
                    seen_cmp.add(l)
        if seen_cmp:
            inst.site(rb, None, "Frame::read CRC comparison")
            ok = seen_cmp <= want_lits and len(seen_cmp) == 2
            if not ok:
                # `|` is associative and commutative: compare the four shifted bytes as a set
                from props.shared import _split_top

                def flat(x):
                    mm_ = re.fullmatch(r"bitor\((.*)\)", x)
                    if not mm_:
                        return [x]
                    out_ = []
                    for part in _split_top(mm_.group(1)):
                        out_ += flat(part)
                    return out_
                wantA = sorted(flat(A))
                okc = len(seen_cmp) == 2
                for l in seen_cmp:
                    mm_ = re.fullmatch(r"(eq|ne)\((.*)\)", l)
                    ops_ = _split_top(mm_.group(2)) if mm_ else []
                    if len(ops_) != 2 or Bc not in ops_ or sorted(flat([o for o in ops_ if o != Bc][0])) != wantA:
                        okc = False
                ok = okc and {l[:2] for l in seen_cmp} == {"eq", "ne"}
            if not ok:
                inst.violation(rb.path, "CRC comparison", "Frame::read compares `%s`" % sorted(seen_cmp)[0][:200])
        obligations += 1
        if not ok:
            inst.violation(rb.path, "CRC comparison", "Frame::read does not compare the recomputed CRC with the last four bytes big-endian")
        # every reader call is dominated by the CRC match
        sinks = call_sites(rb, "re:serial::read_")
        cx.guard(inst, rb, sinks, [[r"eq\(bitor\(.*\),crc::compute\(arg1\[Range\{0,sub\(\[T\]::len\(arg1\),4\)\}\]\)\)"]], construct="payload parsed without CRC match",
                 why="no frame that fails the CRC may be parsed")

    # ---------------------------------------------------------------------------------------------
    with cx.instance("C16.d", "E2 PROOF (GF(2) enumeration)", "table literal == byte table of g; extend is the table-driven reflected step; no multiple of g of weight <= 4 below 8*MAX_FRAME_SIZE bits", floor=4) as inst:
        t = bytes.fromhex(R.const(S + "crc::PARTIAL_RESULTS")["bytes_hex"])
        T = [int.from_bytes(t[4 * i:4 * i + 4], "little") for i in range(len(t) // 4)]
        nbits = 8 * R.const_int("MAX_FRAME_SIZE")
        exe = os.path.join(VERIF, "engine", "crcproof", "target", "release", "crcproof")
        args = [exe, str(nbits), ",".join("%08X" % w for w in T)]
        if cx.tier == "thorough":
            args.append("census")
        res = json.loads(subprocess.check_output(args, text=True))
        obligations += 256 + 4
        cx.extra["crcproof"] = res
        inst.site("<crc>", None, "generator %s (reflected %s), affine constant %s, %d table mismatches" % (res["generator"], res["reflected_poly"], res["affine_constant"], res["table_mismatch"]))
        inst.site("<crc>", None, "weight-1..4 multiples below %d bits: %d/%d/%d/%d (%d probes)" % (nbits, res["weight1"], res["weight2"], res["weight3"], res["weight4"], res["probes"]))
        if len(T) != 256 or res["table_mismatch"]:
            inst.violation(S + "crc::PARTIAL_RESULTS", "table", "%d words of the CRC table are not the byte table of the generator its other words define" % res["table_mismatch"])
        if not res["has_const_term"]:
            inst.violation(S + "crc::PARTIAL_RESULTS", "generator", "generator has no constant term (shift invariance fails)")
        for wgt in (1, 2, 3, 4):
            if res["weight%d" % wgt]:
                inst.violation(S + "crc::PARTIAL_RESULTS", "weight-%d multiple" % wgt, "the generator %s has a multiple of weight %d and degree < %d: some %d-bit error in a maximum-size frame goes undetected" % (res["generator"], wgt, nbits, wgt))
        if res["generator"] != "0x132C00699":
            inst.note("generator differs from the documented 0x132C00699: %s (accepted as long as the weight enumeration passes)" % res["generator"])
        # positive control: the matcher finds weight-4 multiples for CRC-32/IEEE within the same length
        P = 0xEDB88320
        L = []
        for i in range(256):
            c = i
            for _ in range(8):
                c = (c >> 1) ^ (P if c & 1 else 0)
            L.append(c)
        ctl = json.loads(subprocess.check_output([exe, str(nbits), ",".join("%08X" % w for w in L)], text=True))
        inst.site("<crc>", None, "positive control CRC-32/IEEE: weight-4 multiples found = %d" % ctl["weight4"])
        if ctl["weight4"] == 0 or ctl["table_mismatch"]:
            inst.violation("<checker>", "crcproof positive control", "crcproof no longer finds the known weight-4 multiples of CRC-32/IEEE below %d bits" % nbits)
        # extend shape
        ex = R.body(S + "crc::extend")
        steps = []
        for loc, s in ex.assigns():
            if not s["pl"]["p"] and not ex.is_single_def(s["pl"]["l"]) and ex.locals[s["pl"]["l"]]["ty"] == "u32":
                steps.append(show(ex.rvalue_expr(s["rv"])))
        steps = [re.sub(r"var\d+", "V", x) for x in steps]
        obligations += 1
        inst.site(ex, None, "extend: " + " | ".join(steps)[:200])
        want_step = "bitxor(frame::serial::crc::PARTIAL_RESULTS[cast<usize>(bitxor(Iter::next(V)@Some.0,cast<u8>(V)))],shr(V,8))"
        loop_form = sorted(steps) == sorted(["arg1", want_step])
        # the same recurrence written as a fold over the bytes: fold(iter(data), initial, |crc, &byte| T[(byte ^ crc as u8)] ^ (crc >> 8))
        fold_form = False
        if not steps:
            top = show(ex.local_expr(0))
            cls = [R.body(c) if isinstance(c, str) else c for c in R.closures_of(ex.path)]
            if re.fullmatch(r"Iter::fold\(\[T\]::iter\(arg2\),arg1,closure:.*\)", top) and len(cls) == 1:
                cb = show(cls[0].local_expr(0))
                inst.site(cls[0], None, "extend (fold): " + cb[:160])
                fold_form = cb == "bitxor(frame::serial::crc::PARTIAL_RESULTS[cast<usize>(bitxor(arg3,cast<u8>(arg2)))],shr(arg2,8))"
        if not (loop_form or fold_form):
            inst.violation(ex.path, "extend step", "crc::extend computes %s; expected crc = (crc >> 8) ^ T[(crc as u8) ^ byte] starting from its argument" % steps)
        cp = R.body(S + "crc::compute")
        cs = show(cp.local_expr(0))
        init = R.const_int(S + "crc::INITIAL_CRC")
        inst.site(cp, None, "compute = %s (INITIAL_CRC = %d)" % (cs, init))
        if cs != "crc::extend(frame::serial::crc::INITIAL_CRC,arg1)":
            inst.violation(cp.path, "compute", "crc::compute is `%s`" % cs)

    # ---------------------------------------------------------------------------------------------
    from bits import check_headers
    check_headers(cx, "C16.e", "C16.f")
    # "rejects missing bytes and never panics": every index/slice range of the readers is within the input on all paths
    from props.C03 import check_parser
    check_parser(cx, "C16.g")
    obligations += len(cx.instances[-1].sites)
    from props.shared import writer_loops_unconditional
    writer_loops_unconditional(cx, "C16.h")
    obligations += len(cx.instances[-1].sites)
    cx.extra["obligations"] = obligations + cx.extra.get("bit_obligations", 0)


def _none_returns(cx, b):
    fa = cx.fa(b)
    out = []
    for loc, kind, node in b.defs.get(0, []):
        if kind == "assign" and show(b.rvalue_expr(node["rv"])) == "None{}":
            for a in fa.at(loc) or []:
                out.append((loc, a))
    return out


SELFTEST = [
    {"name": "flip one CRC table word",
     "edits": [{"file": "src/frame/serial/crc.rs", "old": "0x8158410D,", "new": "0x8158410C,"}],
     "expect": ["C16.d"]},
    {"name": "Frame::read accepts 4-byte inputs",
     "edits": [{"file": "src/frame/serial/mod.rs", "old": "if frame_bytes.len() < 5 {", "new": "if frame_bytes.len() < 4 {"}],
     "expect": ["C16.g"]},
    {"name": "micro header threshold < 64 -> <= 64",
     "edits": [{"file": "src/frame/serial/build.rs", "old": "if data_len_u16 < 64 &&", "new": "if data_len_u16 <= 64 &&"}],
     "expect": ["C16"]},
    {"name": "swap two frame ids in the reader dispatch",
     "edits": [{"file": "src/frame/serial/mod.rs", "old": "            DISCONNECT_FRAME_ID => read_disconnect_payload(payload_bytes),\n            DISCONNECT_ACK_FRAME_ID => read_disconnect_ack_payload(payload_bytes),", "new": "            DISCONNECT_ACK_FRAME_ID => read_disconnect_payload(payload_bytes),\n            DISCONNECT_FRAME_ID => read_disconnect_ack_payload(payload_bytes),"}],
     "expect": ["C16.a"]},
]
