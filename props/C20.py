"""C20 — send_buffer_size() is exact and returns to zero (DESIGN.md §4 C20)."""
import re
from mirlib import show, Loc, dnf_holds
from rules import call_sites, call_locs, rx_comm

SCOPE = ("Decides the bookkeeping structure of the send-buffer counter for every path: PacketSender.total_size is "
         "written in exactly three bodies; `+= data.len()` is paired with queueing that same data; in the stale "
         "TimeSensitive arm `-= packet.data.len()` is paired with popping that packet; in acknowledge "
         "`-= entry.packet.size()` is paired with clearing that window slot and PendingPacket::size is the length "
         "of the same buffer; moving a packet from the queue into the window writes the counter on no path; the "
         "accessors forward the counter under Active and return 0 otherwise. Not decided: equality with a running "
         "model over histories; absence of underflow follows from the pairing, it is not proved numerically.")

PS = "half_connection::packet_sender::PacketSender::"


def run(cx):
    R = cx.R
    with cx.instance("C20.a", "T3 WHO-MAY", "PacketSender.total_size is written in exactly enqueue_packet, emit_packet, acknowledge", floor=3) as inst:
        allowed = {PS + "enqueue_packet", PS + "emit_packet", PS + "acknowledge"}
        writers = {}
        for b in R.all_bodies():
            if "packet_sender::" not in b.path:
                continue
            for l, node, ps in b.field_writes(r"arg1\.total_size"):
                writers.setdefault(b.path, []).append(l)
                inst.site(b, l, "write total_size")
            # mutable borrows of the field
            for l, s in b.assigns():
                if s["rv"]["k"] == "ref" and s["rv"].get("mut") and show(b.place_expr(s["rv"]["pl"])) == "arg1.total_size":
                    inst.violation(b.path, "&mut total_size", "total_size is borrowed mutably (an untracked writer)", at=b.span_at(l))
        for w in writers:
            if w not in allowed:
                inst.violation(w, "write total_size", "total_size is written outside the three bookkeeping functions")
        for a in allowed:
            if a not in writers:
                inst.violation(a, "write total_size", "%s no longer maintains total_size" % a.split("::")[-1])
            elif len(writers[a]) != 1:
                inst.violation(a, "write total_size count", "%s writes total_size %d times (the queue->window move must not touch it)" % (a.split("::")[-1], len(writers[a])))
    with cx.instance("C20.b", "T2 PAIR + T4", "every add is paired with queueing that data; every subtract with removing that packet, by the same amount", floor=3) as inst:
        # enqueue
        b = R.body(PS + "enqueue_packet")
        for l, node, ps in b.field_writes(r"arg1\.total_size"):
            e = show(b.rvalue_expr(node["rv"]))
            m = re.fullmatch(rx_comm("add", r"\[T\]::len\((arg\d+)\)", r"arg1\.total_size").replace("(arg\\d+)", "(?P<d>arg\\d+)", 1).replace("(arg\\d+)", "(?P<d2>arg\\d+)"), e)
            inst.site(b, l, "total_size = " + e)
            if not m:
                inst.violation(b.path, "total_size +=", "enqueue adds `%s`, expected total_size + data.len()" % e, at=b.span_at(l))
                continue
            d = m.group("d") or m.group("d2")
            pb = [l2 for l2, t in b.calls("VecDeque::push_back") if re.search(r"PacketSendEntry::new\(%s," % d, show(b.call_expr(t)))]
            cx.followed_by(inst, b, [(l, "total_size += len(%s)" % d)], pb, "add without queueing the same data", "packet_send_queue.push_back(entry with that data)")
            for l2 in pb:
                if b.reach_from_entry_avoiding(l2, [l]) is not None:
                    inst.violation(b.path, "push_back without add", "a packet is queued without adding its size", at=b.span_at(l2))
        # stale TimeSensitive drop
        b = R.body(PS + "emit_packet")
        loops = b.loops()
        for l, node, ps in b.field_writes(r"arg1\.total_size"):
            e = show(b.rvalue_expr(node["rv"]))
            inst.site(b, l, "total_size = " + e[:90])
            if e != "sub(arg1.total_size,[T]::len(VecDeque::front(arg1.packet_send_queue)@Some.0.data))":
                inst.violation(b.path, "total_size -= (drop)", "the stale-packet arm subtracts `%s`, expected the front packet's data.len()" % e, at=b.span_at(l))
            pops = [l2 for l2 in call_locs(b, "VecDeque::pop_front", r"arg1\.packet_send_queue") if any(l2.bb in L["body"] for L in loops)]
            cx.followed_by(inst, b, [(l, "total_size -= len(front.data)")], pops, "subtract without dropping the packet", "packet_send_queue.pop_front() in the drop loop")
            for l2 in pops:
                L0 = [L for L in loops if l2.bb in L["body"]][0]
                if l.bb not in L0["body"] or _cycle_without(b, L0, l2, l):
                    inst.violation(b.path, "drop without subtract", "a stale TimeSensitive packet is dropped without subtracting its size", at=b.span_at(l2))
        # acknowledge
        b = R.body(PS + "acknowledge")
        for l, node, ps in b.field_writes(r"arg1\.total_size"):
            e = show(b.rvalue_expr(node["rv"]))
            inst.site(b, l, "total_size = " + e[:110])
            m = re.fullmatch(r"sub\(arg1\.total_size,PendingPacket::size\(RefCell::borrow\(Option::unwrap\((arg1\.window\[.*\])\)\.packet\)\)\)", e)
            mt = re.fullmatch(r"sub\(arg1\.total_size,PendingPacket::size\(RefCell::borrow\(Option::unwrap\(Option::take\((arg1\.window\[.*\])\)\)\.packet\)\)\)", e)
            if mt:
                # the entry is taken out of its slot and its size subtracted: vacating and reading are one call
                slot = mt.group(1)
                takes = [l2 for l2, t2 in b.calls("Option::take") if show(b.call_expr(t2)) == "Option::take(%s)" % slot]
                cx.followed_by(inst, b, [(l2, "window[idx].take()") for l2 in takes], [l], "slot cleared without subtract", "total_size -= size(entry)")
                if not takes:
                    inst.violation(b.path, "total_size -= (ack)", "the entry whose size is subtracted is not taken from a window slot (anchor)", at=b.span_at(l))
                continue
            if not m:
                inst.violation(b.path, "total_size -= (ack)", "acknowledge subtracts `%s`, expected the acknowledged entry's packet size" % e, at=b.span_at(l))
                continue
            slot = m.group(1)
            clears = [l2 for l2, n2, ps2 in b.field_writes(re.escape(slot)) if show(b.rvalue_expr(n2["rv"])) == "None{}"]
            cx.followed_by(inst, b, [(l, "total_size -= size(slot)")], clears, "subtract without clearing the slot", "window[idx] = None")
            Ls = b.loops()
            for l2 in clears:
                if Ls and _cycle_without(b, Ls[0], l2, l):
                    inst.violation(b.path, "slot cleared without subtract", "a window slot is released without subtracting its packet size", at=b.span_at(l2))
        pp = R.body("PendingPacket::size")
        e = show(pp.local_expr(0))
        inst.site(pp, None, "PendingPacket::size = " + e)
        if e != "[T]::len(arg1.data)":
            inst.violation(pp.path, "PendingPacket::size", "PendingPacket::size returns `%s`, not the payload length" % e)
        pn = R.body("PendingPacket::new")
        ok = False
        for l, s in pn.assigns():
            rv = s["rv"]
            if rv["k"] == "agg" and rv.get("adt", "").endswith("PendingPacket"):
                ok = show(pn.operand_expr(rv["ops"][rv["fields"].index("data")])) == "arg1"
        if not ok:
            inst.violation(pn.path, "PendingPacket.data", "PendingPacket::new does not store the packet data it is given")
    ack_loop_shape(cx, "C20.d")
    with cx.instance("C20.g", "T3 WHO-MAY + T7", "what acknowledge subtracts is what enqueue added: PendingPacket::size() is the length of the payload, and the payload is never replaced after construction", floor=2) as inst:
        PP = "half_connection::pending_packet::PendingPacket::"
        sz = R.body(PP + "size")
        e = show(sz.local_expr(0))
        inst.site(sz, None, "size() = " + e)
        if e != "[T]::len(arg1.data)":
            inst.violation(sz.path, "size()", "PendingPacket::size() is `%s`, expected the payload length" % e)
        nb = R.body(PP + "new")
        for loc, s_ in nb.assigns():
            rv = s_["rv"]
            if rv["k"] == "agg" and rv.get("adt", "").endswith("PendingPacket"):
                v = show(nb.operand_expr(rv["ops"][rv["fields"].index("data")]))
                inst.site(nb, loc, "PendingPacket.data = " + v)
                if v != "arg1":
                    inst.violation(nb.path, "payload", "a pending packet stores `%s`, not the payload it was given" % v, at=nb.span_at(loc))
        for ob in R.all_bodies():
            if "pending_packet::" not in ob.path and "packet_sender::" not in ob.path and "half_connection::HalfConnection::" not in ob.path:
                continue
            if ob.path == nb.path:
                continue
            for l, node, ps in ob.field_writes(r".*\.data"):
                tgt = show(ob.place_expr(node["pl"])) if node.get("pl") else ps
                if re.search(r"(RefCell::borrow_mut\(.*\)|arg1)\.data$", tgt) and "pending_packet::" in ob.path:
                    inst.violation(ob.path, "payload replaced", "the payload of a pending packet is replaced after construction: size() no longer equals what send_buffer_size() was charged", at=ob.span_at(l))
            for l, t in ob.calls("re:mem::(replace|take|swap)$"):
                if re.search(r"\.data\b", show(ob.operand_expr(t["args"][0]))) and "pending_packet::" in ob.path:
                    inst.violation(ob.path, "payload replaced", "the payload of a pending packet is taken after construction", at=ob.span_at(l))
    # "zero once everything has been acknowledged": every ack frame reaches PacketSender::acknowledge with the
    # frame's packet window base, whatever the frame window does (an ack that only moves the packet window —
    # the reply to a resynchronising sync — must still release the bytes)
    from props.C11 import ack_frame_applies_both
    ack_frame_applies_both(cx, "C20.e")
    from props.shared import ack_processing_presence
    ack_processing_presence(cx, "C20.f")
    # the buffer size returns to zero only if every acknowledgement that arrives intact reaches PacketSender::acknowledge
    # and is applied there: the endpoints forward ack frames unconditionally, and the sender refuses only what it must
    from props.shared import frame_forward_exact, packet_ack_exact
    frame_forward_exact(cx, "C20.h")
    packet_ack_exact(cx, "C20.i")
    from props.shared import ctor_initial_state
    ctor_initial_state(cx, "C20.j")
    # "zero once everything has been acknowledged": lost Unreliable packets are only ever released by the resync the
    # sender requests once nothing is left to resend, whether or not more packets wait behind a full window
    from props.C02 import inst_resync_guard
    inst_resync_guard(cx, "C20.l")
    from props.C11 import sync_reply_mechanism
    sync_reply_mechanism(cx, "C20.m", "C20.n")
    # a full frame window that was lost reopens only if the receiver accepts a resynchronisation by exactly its size
    from props.C11 import resync_acceptance
    resync_acceptance(cx, "C20.o")
    from props.C01 import inst_id_arith
    inst_id_arith(cx, "C20.k")
    with cx.instance("C20.c", "T7 SHAPE", "send_buffer_size forwards PacketSender.total_size under Active and returns 0 otherwise", floor=4) as inst:
        t = R.body(PS + "total_size")
        e = show(t.local_expr(0))
        inst.site(t, None, "PacketSender::total_size = " + e)
        if e != "arg1.total_size":
            inst.violation(t.path, "accessor", "PacketSender::total_size returns `%s`" % e)
        h = R.body("HalfConnection::send_buffer_size")
        e = show(h.local_expr(0))
        inst.site(h, None, "HalfConnection::send_buffer_size = " + e)
        if e != "PacketSender::total_size(arg1.packet_sender)":
            inst.violation(h.path, "accessor", "HalfConnection::send_buffer_size returns `%s`" % e)
        for fn in ("client::Client::send_buffer_size", "server::remote_client::RemoteClient::send_buffer_size"):
            b = R.body(fn)
            fa = cx.fa(b)
            seen = set()
            for loc, kind, node in b.defs.get(0, []):
                if kind == "call":
                    e = show(b.call_expr(node))
                    g, _ = dnf_holds(fa.at(loc), [[r"is\(arg1\.state,Active\)"]])
                    seen.add("fwd" if e == "HalfConnection::send_buffer_size(arg1.state@Active.0.half_connection)" and g else "bad:" + e)
                else:
                    e = show(b.rvalue_expr(node["rv"]))
                    g, _ = dnf_holds(fa.at(loc), [[r"!is\(arg1\.state,Active\)"]])
                    seen.add("zero" if e == "0" and g else "bad:" + e)
            inst.site(b, None, "%s: %s" % (fn.split("::")[-2], sorted(seen)))
            if seen != {"fwd", "zero"}:
                inst.violation(b.path, "accessor", "send_buffer_size is not `Active => half_connection.send_buffer_size(), _ => 0`: %s" % sorted(seen))


def ack_loop_shape(cx, iid):
    """the counter returns to zero only if acknowledge really walks base_id up to the acknowledged
    id for every pair of ids, including across the 20-bit wrap: `while base_id != id { ..; base_id =
    add(base_id, 1) }` (an ordered comparison stops short at the wrap)"""
    from loops import classify
    from domain import BitWidth
    R = cx.R
    with cx.instance(iid, "T5 LOOP (shape)", "acknowledge releases packets with `while base_id != acked_id`, stepping by packet_id::add", floor=1) as inst:
        b = R.body(PS + "acknowledge")
        Ls = b.loops()
        if len(Ls) != 1:
            inst.violation(b.path, "acknowledge loop", "expected one release loop in PacketSender::acknowledge, found %d" % len(Ls))
            return
        info = classify(b, Ls[0], BitWidth(R), cx.fa(b))
        inst.site(b, Loc(Ls[0]["header"], 0), "%s %s" % (info.cls, info.desc))
        if info.cls != "counter" or not info.ok or info.detail.get("counter") != "arg1.base_id" or info.detail.get("bound") != "arg2" or info.detail.get("step") != "packet_id::add":
            inst.violation(b.path, "release loop shape", "the release loop is `%s` (%s): acknowledged packets may never be released (e.g. across the id wrap), so send_buffer_size() never returns to zero" % (info.desc, info.why or info.cls))


def _cycle_without(b, L, target, blocker):
    """inside loop L: can `target` be reached from the header without passing `blocker`?"""
    from collections import deque
    h = L["header"]
    dq = deque([h])
    seen = set()
    while dq:
        x = dq.popleft()
        if x in seen:
            continue
        seen.add(x)
        if x == blocker.bb and not (x == target.bb and target.idx < blocker.idx):
            continue
        if x == target.bb:
            return True
        for y, _ in b.succ[x]:
            if y in L["body"]:
                dq.append(y)
    return False


SELFTEST = [
    {"name": "forget total_size -= when dropping a stale TimeSensitive packet",
     "edits": [{"file": "src/half_connection/packet_sender.rs", "old": "                        self.total_size -= packet.data.len();\n", "new": ""}],
     "expect": ["C20"]},
    {"name": "subtract alloc_size instead of packet size on acknowledge",
     "edits": [{"file": "src/half_connection/packet_sender.rs", "old": "self.total_size -= entry.packet.borrow().size();", "new": "self.total_size -= entry.alloc_size;"}],
     "expect": ["C20.b"]},
]
