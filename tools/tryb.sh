#!/bin/sh
# dev aid: tryb.sh <patch-or-benign-id> <PROP>... : scratch copy of /repo under /tmp/tb/<name>, patch applied, named checks run with full output
p=$1; shift
[ -f "$p" ] || p=/verif/benign/$p/patch.diff
name=$(echo "$p" | tr '/' '_')
d=/tmp/tb/$name
if [ ! -d $d/repo ]; then mkdir -p $d; rsync -a --exclude target --exclude .git /repo/ $d/repo/; (cd $d/repo && git apply --whitespace=nowarn "$p") || exit 2; fi
for id in "$@"; do VERIF_EVIDENCE_DIR=$d/ev VERIF_REPLAY_DIR=$d/rp /verif/check $id quick --src $d/repo --target-dir $d/tgt | grep -v "^KNOWN-FINDING"; done
