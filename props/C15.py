"""C15 — only genuine, fresh acknowledgements change sender state (DESIGN.md §4 C15)."""
import re
from mirlib import show, Loc, dnf_holds
from rules import call_sites, call_locs, write_sites
from loops import norm_vars

SCOPE = ("Decides, for every path of FrameQueue::acknowledge_group, that each sender-side effect of an ack group "
         "(marking a frame acked, acknowledging fragments, notifying the loss detector, recording ack data for the "
         "RTT/rate sample) is reachable only after the nonce comparison succeeded against the XOR of the logged "
         "nonces of exactly the claimed frames, after every covered id was found in the log, and only for frames not "
         "acknowledged before (the aggregate record through a local that only a fresh acknowledgement can set); and "
         "that one random nonce per data frame goes both on the wire and into the log. Not decided: quantitative "
         "'no effect on RTT/loss/rate' beyond 'no state write happens'.")

AG = "half_connection::frame_queue::FrameQueue::acknowledge_group"


def effects(b):
    out = []
    for loc, node, ps in b.field_writes(r".*\.acked"):
        out.append((loc, "write " + norm_vars(ps), "per-frame"))
    for loc, lab in call_sites(b, "PendingPacket::acknowledge_fragment"):
        out.append((loc, "PendingPacket::acknowledge_fragment", "per-frame"))
    for loc, lab in call_sites(b, "FeedbackGen::notify_ack"):
        out.append((loc, "FeedbackGen::notify_ack", "per-frame"))
    for loc, lab in call_sites(b, "FeedbackGen::put_ack_data"):
        out.append((loc, "FeedbackGen::put_ack_data", "aggregate"))
    return out


def nonce_var(b):
    """the accumulator compared with ack.nonce: returns (var string, compare literal regex)"""
    fa_lits = set()
    for bb in sorted(b.reachable):
        t = b.term(bb)
        if t["k"] == "switch":
            e = show(b.operand_expr(t["op"]))
            m = re.fullmatch(r"(ne|eq)\(arg2\.nonce,(var\d+)\)", e)
            if m:
                return m.group(2)
    return None


def run(cx):
    R = cx.R
    b = R.body(AG)
    fa = cx.fa(b)
    effs = effects(b)
    nv = nonce_var(b)
    with cx.instance("C15.a", "T1 GUARD", "every effect of an ack group requires nonce equality and that every covered id was found in the log", floor=4) as inst:
        if nv is None:
            inst.violation(b.path, "nonce comparison", "acknowledge_group no longer compares ack.nonce with an accumulated nonce (anchor)")
        else:
            sinks = [(l, lab) for l, lab, k in effs]
            kinds = {lab for l, lab, k in effs}
            for need in ("PendingPacket::acknowledge_fragment", "FeedbackGen::notify_ack", "FeedbackGen::put_ack_data"):
                if need not in kinds:
                    inst.violation(b.path, need, "expected effect site `%s` not found (anchor)" % need)
            cx.guard(inst, b, sinks, [[r"eq\(arg2\.nonce,%s\)" % nv]], construct=None,
                     why="an acknowledgement whose nonce does not reproduce the parity of the acknowledged frames must have no effect")
        # log membership: reuse the linked check of the panic inventory (validating loop over the same range)
        from props.C03 import _lk_ack_group_unwrap
        uw = [l for l, t in b.calls("Option::unwrap") if "FrameLog::get_frame_mut" in show(b.call_expr(t))]
        if uw:
            ok, why = _lk_ack_group_unwrap(cx, inst, b, uw[0])
            inst.site(b, uw[0], "validating lookup loop precedes the mutation loop", {"holds": ok})
            if not ok:
                inst.violation(b.path, "log membership", "effects are reachable for ids that were not found in the frame log: " + why)
        else:
            # a non-panicking lookup is fine as long as effects sit under its Some edge
            sinks = [(l, lab) for l, lab, k in effs if k == "per-frame"]
            cx.guard(inst, b, sinks, [[r"is\(FrameLog::get_frame_mut\(.*\),Some\)"]], construct="log membership")

    with cx.instance("C15.b", "T7 SHAPE", "the compared nonce is the XOR of sent_frame.nonce over exactly the frames whose bit is set", floor=2) as inst:
        if nv:
            l = int(nv[3:])
            for loc, kind, node in b.defs.get(l, []):
                e = show(b.rvalue_expr(node["rv"])) if kind == "assign" else show(b.call_expr(node))
                inst.site(b, loc, "%s = %s" % (nv, norm_vars(e)[:120]))
                if e == "false":
                    continue
                m = re.fullmatch(r"bitxor\(FrameLog::get_frame\(arg1\.frame_log,u32::wrapping_add\(arg2\.base_id,(.*)\)\)@Some\.0\.nonce,%s\)" % nv, e)
                if not m:
                    inst.violation(b.path, "nonce accumulator", "nonce accumulator is updated by `%s`, expected `acc ^= logged_frame(base_id + i).nonce`" % norm_vars(e)[:160], at=b.span_at(loc))
                    continue
                idx = re.escape(m.group(1))
                good, bad = dnf_holds(fa.at(loc), [[r"ne\(0,bitand\(arg2\.bitfield,shl\(1,%s\)\)\)" % idx]])
                if not good:
                    inst.violation(b.path, "nonce accumulator bit test", "a frame's nonce is folded in without testing the group's bit for that same frame", at=b.span_at(loc))
            # the accumulator is not written after the comparison
    with cx.instance("C15.c", "T7 SHAPE (dataflow)", "one rand::random() value per data frame goes both into the frame header and into the log entry", floor=3) as inst:
        p = R.body("DataFrameEmitter::push")
        rs = call_sites(p, "rand::random")
        if len(rs) != 1:
            inst.violation(p.path, "rand::random", "expected exactly one rand::random() per new data frame, found %d" % len(rs))
        for loc, lab in call_sites(p, "DataFrameBuilder::new"):
            t = p.node_at(loc)
            a = show(p.operand_expr(t["args"][1]))
            inst.site(p, loc, "DataFrameBuilder::new(_, nonce=%s)" % a)
            if a != "rand::random()":
                inst.violation(p.path, "header nonce", "the nonce put on the wire is `%s`, not the frame's random nonce" % a, at=p.span_at(loc))
        found = False
        for loc, s in p.assigns():
            if s["rv"]["k"] == "agg" and s["rv"].get("adt", "").endswith("InProgressDataFrame"):
                ops = dict(zip(s["rv"]["fields"], s["rv"]["ops"]))
                a = show(p.operand_expr(ops["nonce"]))
                found = True
                inst.site(p, loc, "InProgressDataFrame{nonce: %s}" % a)
                if a != "rand::random()":
                    inst.violation(p.path, "logged nonce", "the nonce remembered for the frame is `%s`, not the one put on the wire" % a, at=p.span_at(loc))
        if not found:
            inst.violation(p.path, "InProgressDataFrame", "construction of InProgressDataFrame not found (anchor)")
        f = R.body("DataFrameEmitter::finalize")
        for loc, lab in call_sites(f, "FrameQueue::push"):
            t = f.node_at(loc)
            a = show(f.operand_expr(t["args"][4]))
            inst.site(f, loc, "FrameQueue::push(.., nonce=%s)" % a)
            if not a.endswith("@Some.0.nonce"):
                inst.violation(f.path, "FrameQueue::push nonce", "finalize logs nonce `%s`, not the in-progress frame's" % a, at=f.span_at(loc))
        q = R.body("FrameQueue::push")
        ok = False
        for loc, t in q.calls("FrameLog::push"):
            e = q.operand_expr(t["args"][1])
            if e[0] == "agg" and len(e) > 3 and "nonce" in e[3]:
                a = show(e[2][e[3].index("nonce")])
                inst.site(q, loc, "log entry nonce = " + a)
                ok = a == "arg5"
        if not ok:
            inst.violation(q.path, "log entry nonce", "FrameQueue::push does not store its nonce argument in the log entry")
        nb = R.body("DataFrameBuilder::new")
        txt = " ".join(show(nb.call_expr(t)) for _, t in nb.calls()) + " ".join(show(nb.rvalue_expr(s["rv"])) for _, s in nb.assigns())
        inst.site(nb, None, "header literal")
        if "shl(cast<u8>(arg2),7)" not in txt:
            inst.violation(nb.path, "header nonce bit", "DataFrameBuilder::new does not encode the nonce as bit 7 of the header byte")

    with cx.instance("C15.d", "T1 GUARD (freshness, local-mediated)", "every effect requires that a frame of the group was not acknowledged before", floor=4) as inst:
        fresh = r"eq\(.*\.acked,false\)"
        per = [(l, lab) for l, lab, k in effs if k == "per-frame"]
        cx.guard(inst, b, per, [[fresh], [r"!.*\.acked"]], construct=None, why="a repeated copy of an acknowledgement must not re-apply per-frame effects")
        agg = [(l, lab) for l, lab, k in effs if k == "aggregate"]
        for loc, lab in agg:
            inst.site(b, loc, lab + " (aggregate)")
            alts = fa.at(loc)
            good, _ = dnf_holds(alts, [[fresh]])
            if good:
                continue
            # mediated by a local: true(v) established here, and every assignment that can make v true
            # itself requires freshness
            ok = False
            cand = set()
            for alt in (alts or []):
                for lit in alt:
                    m = re.fullmatch(r"(var\d+)", lit) or re.fullmatch(r"ne\((?:0,)?(var\d+)(?:,0)?\)", lit)
                    if m:
                        cand.add(m.group(1))
            for v in sorted(cand):
                if not all(any(re.fullmatch(r"%s|ne\((0,)?%s(,0)?\)" % (v, v), lit) for lit in alt) for alt in alts):
                    continue
                l = int(v[3:])
                if b.locals[l]["ty"] != "bool" and not b.locals[l]["ty"].startswith("u"):
                    continue
                setters_ok = True
                nset = 0
                for dloc, kind, node in b.defs.get(l, []):
                    e = show(b.rvalue_expr(node["rv"])) if kind == "assign" else "call"
                    if e in ("false", "0"):
                        continue
                    nset += 1
                    g2, _ = dnf_holds(fa.at(dloc), [[fresh], [r"!.*\.acked"]])
                    if not g2:
                        setters_ok = False
                if setters_ok and nset > 0:
                    ok = True
                    inst.note("aggregate effect mediated by local %s (%d setter(s), all under the freshness test)" % (v, nset))
            if not ok:
                inst.violation(b.path, lab, "the aggregate ack record is produced even when the group acknowledged nothing new: a replayed genuine acknowledgement yields an RTT sample",
                               at=b.span_at(loc))


def ack_recording(cx, iid):
    """receiver side: an ack group reproduces the nonce parity of exactly the frames seen: a frame
    inside the last group's 32-id span sets its own bit once and folds its nonce in with it; any
    other accepted frame opens a new group {base: id, bitfield: 1, nonce}"""
    R = cx.R
    with cx.instance(iid, "T7 SHAPE + T1", "mark_seen records bit (id - base) and XORs the frame's nonce exactly once per frame; new groups start as {id, 1, nonce}", floor=4) as inst:
        b = R.body("FrameAckQueue::mark_seen")
        last = r"VecDeque::back_mut\(arg1\.entries\)@Some\.0"
        bit = r"u32::wrapping_sub\(arg2,%s\.base_id\)" % last
        ws = {}
        for l, node, ps in b.field_writes(r".*\.(bitfield|nonce)"):
            v = show(b.rvalue_expr(node["rv"]))
            ws[ps.split(".")[-1]] = (l, ps, v)
            inst.site(b, l, "%s = %s" % (ps[-30:], v[:90]))
        import re as _re
        okb = "bitfield" in ws and _re.fullmatch(r"bitor\((%s\.bitfield,shl\(1,%s\)|shl\(1,%s\),%s\.bitfield)\)" % (last, bit, bit, last), ws["bitfield"][2])
        okn = "nonce" in ws and _re.fullmatch(r"bitxor\((%s\.nonce,arg3|arg3,%s\.nonce)\)" % (last, last), ws["nonce"][2])
        if not okb:
            inst.violation(b.path, "bit recording", "a seen frame is recorded as `%s`" % (ws.get("bitfield", (0, 0, None))[2],))
        if not okn:
            inst.violation(b.path, "nonce folding", "a seen frame's nonce is folded as `%s`" % (ws.get("nonce", (0, 0, None))[2],))
        sinks = [(ws[k][0], "update " + k) for k in ws]
        cx.guard(inst, b, sinks, [[r"lt\(%s,32\)" % bit, r"eq\(0,bitand\(%s\.bitfield,shl\(1,%s\)\)\)" % (last, bit)]], construct="ack bit/nonce updated outside its guard",
                 why="a frame counted twice (or beyond bit 31) flips the group's parity: the sender rejects the acknowledgement", checked_before=True)
        if "bitfield" in ws and "nonce" in ws:
            cx.followed_by(inst, b, [(ws["bitfield"][0], "set bit")], [ws["nonce"][0]], "bit set without folding the nonce", "nonce ^= frame nonce")
        pbs = call_sites(b, "VecDeque::push_back", r"arg1\.entries")
        for l, lab in pbs:
            e = show(b.call_expr(b.node_at(l)))
            inst.site(b, l, e)
            if e != "VecDeque::push_back(arg1.entries,AckGroup{arg2,1,arg3})":
                inst.violation(b.path, "new ack group", "a new ack group is created as `%s`, expected {base_id: frame id, bitfield: 1, nonce: frame nonce}" % e[:120], at=b.span_at(l))
        cx.guard(inst, b, pbs, [[r"is\(VecDeque::back_mut\(arg1\.entries\),None\)"], [r"le\(32,%s\)" % bit]], construct="new group although the frame fits the last one")
        # emit side: groups are handed to the emitter unchanged and popped only after a successful push
        ea = R.body("half_connection::HalfConnection::emit_ack_frames")
        pops = call_sites(ea, "FrameAckQueue::pop")
        cx.guard(inst, ea, pops, [[r"is\(AckFrameEmitter::push\(var\d+,FrameAckQueue::peek\(arg1\.frame_ack_queue\)@Some\.0\),Ok\)"]], construct="ack group dropped without being sent",
                 why="an acknowledgement group removed before it was put into a frame is lost: the sender never learns of those frames")


_run_core = run


def run(cx):
    _run_core(cx)
    ack_recording(cx, "C15.e")
    # an acknowledgement is applied to the frames it names: the log lookups used for checking and for applying
    # agree (modular index), and window bases beyond what was sent are refused
    from props.idarith import id_arith_discipline
    id_arith_discipline(cx, "C15.f")
    from props.C03 import check_validators
    check_validators(cx, "C15.g")
    from props.C11 import ack_advance_exact
    ack_advance_exact(cx, "C15.h")
    log_lookup_siblings(cx, "C15.i")
    from props.shared import resend_ref_in_own_frame
    resend_ref_in_own_frame(cx, "C15.j")
    from props.shared import resend_refs_untouched
    resend_refs_untouched(cx, "C15.q")
    from props.shared import acked_flag_writers
    acked_flag_writers(cx, "C15.r")
    # the nonce parity an acknowledgement must reproduce is the bit that went out on the wire
    from bits import check_headers
    check_headers(cx, "C15.s", "C15.t")
    # a window base that is not a packet id is not an acknowledgement of anything
    from props.C01 import inst_id_arith
    inst_id_arith(cx, "C15.u")
    # an acknowledgement the loss detector has already judged does not enter it again
    from props.shared import reorder_put_guarded
    reorder_put_guarded(cx, "C15.v")
    group_width(cx, "C15.k")
    # a genuine acknowledgement of one frame must mark exactly the fragments that frame carried: the flag word/bit
    # written by acknowledge_fragment is the one fragment_acknowledged reads
    from props.C04 import inst_fragment_flags
    inst_fragment_flags(cx, "C15.l")
    from props.shared import forget_shape
    forget_shape(cx, "C15.m")
    from props.shared import cull_always_drains, nofeedback_timer_writers
    cull_always_drains(cx, "C15.n")
    nofeedback_timer_writers(cx, "C15.o")
    # the acknowledgement a sender receives names the frames the receiver saw: the receiver's queue of owed groups hands
    # out each group once, oldest first
    from props.shared import ack_queue_discipline
    ack_queue_discipline(cx, "C15.p")


def group_width(cx, iid):
    """T7: an ack group is applied over all of its bits: the width is (index of the highest set bit) + 1, up to the
    full 32.  Accepted spellings: the reverse scan `for i in (0..32).rev() { if bitfield & (1 << i) != 0 { size = i + 1; break } }`
    and `32 - bitfield.leading_zeros()`; both loops of acknowledge_group run over 0..width."""
    R = cx.R
    with cx.instance(iid, "T7 SHAPE", "acknowledge_group covers bits 0..=highest set bit of the 32-bit field in both of its passes", floor=2) as inst:
        b = R.body(AG)
        rngs = [show(b.call_expr(t)) for l, t in b.calls("I::into_iter") if re.fullmatch(r"I::into_iter\(Range\{0,.*\}\)", show(b.call_expr(t)))]
        inst.site(b, None, "passes: %s" % rngs)
        ws = {re.fullmatch(r"I::into_iter\(Range\{0,(.*)\}\)", r).group(1) for r in rngs}
        if len(rngs) != 2 or len(ws) != 1:
            inst.violation(b.path, "passes", "expected the checking and the applying pass to run over the same 0..width (found %s)" % rngs)
            return
        w = ws.pop()
        ok = False
        if w == "sub(32,u32::leading_zeros(arg2.bitfield))":
            ok = True
            inst.site(b, None, "width = 32 - leading_zeros(bitfield)")
        mm = re.fullmatch(r"Option::map_or\(Rev::find\((var\d+),closure:(\S+?)\{arg2(?:\.bitfield)?\}\),0,closure:(\S+?)\{\}\)", w)
        if mm:
            # (0..32).rev().find(|&i| bitfield & (1 << i) != 0).map_or(0, |i| i + 1)
            try:
                src = sorted(show(b.rvalue_expr(node["rv"])) if kind == "assign" else show(b.call_expr(node)) for loc, kind, node in b.defs.get(int(mm.group(1)[3:]), []))
                c0 = show(R.body(mm.group(2)).local_expr(0))
                c1 = show(R.body(mm.group(3)).local_expr(0))
                inst.site(b, None, "width = rev(0..32).find(%s).map_or(0, %s) over %s" % (c0, c1, src))
                ok = (re.sub(r"arg1\.0\.bitfield", "arg1.0", c0) in ("ne(0,bitand(arg1.0,shl(1,arg2)))", "ne(0,bitand(shl(1,arg2),arg1.0))") and c1 in ("add(1,arg2)", "add(arg2,1)")
                      and all(re.fullmatch(r"(I::into_iter\()?Iterator::rev\(Range\{0,32\}\)\)?", x) for x in src) and bool(src))
            except Exception:
                ok = False
        mm = re.fullmatch(r"add\((?:1,)?Rev::find\((var\d+),closure:(\S+?)\{arg2(?:\.bitfield)?\}\)@Some\.0(?:,1)?\)", w)
        if mm:
            # let Some(top) = (0..32).rev().find(|&i| bitfield & (1 << i) != 0) else { return }; width = top + 1
            try:
                src = sorted(show(b.rvalue_expr(node["rv"])) if kind == "assign" else show(b.call_expr(node)) for loc, kind, node in b.defs.get(int(mm.group(1)[3:]), []))
                c0 = show(R.body(mm.group(2)).local_expr(0))
                inst.site(b, None, "width = rev(0..32).find(%s)? + 1 over %s" % (c0, src))
                ok = (re.sub(r"arg1\.0\.bitfield", "arg1.0", c0) in ("ne(0,bitand(arg1.0,shl(1,arg2)))", "ne(0,bitand(shl(1,arg2),arg1.0))")
                      and all(re.fullmatch(r"(I::into_iter\()?Iterator::rev\(Range\{0,32\}\)\)?", x) for x in src) and bool(src))
            except Exception:
                ok = False
        m = re.fullmatch(r"var(\d+)", w)
        if m:
            n = int(m.group(1))
            defs = sorted(show(b.rvalue_expr(node["rv"])) if kind == "assign" else show(b.call_expr(node)) for loc, kind, node in b.defs.get(n, []))
            inst.site(b, None, "width defs: %s" % defs)
            scan = [show(b.call_expr(t)) for l, t in b.calls("I::into_iter") if "Iterator::rev(Range{0,32})" in show(b.call_expr(t))]
            if len(defs) == 2 and defs[0] == "0" and re.fullmatch(r"add\((1,Rev::next\(var\d+\)@Some\.0|Rev::next\(var\d+\)@Some\.0,1)\)", defs[1]) and scan:
                # the assignment happens under the bit test of the scanned index
                fa = cx.fa(b)
                for loc, kind, node in b.defs.get(n, []):
                    v = show(b.rvalue_expr(node["rv"])) if kind == "assign" else ""
                    if v.startswith("add("):
                        g, _ = dnf_holds(fa.at(loc), [[r"ne\(0,bitand\(arg2\.bitfield,shl\(1,Rev::next\(var\d+\)@Some\.0\)\)\)"]])
                        ok = g
            elif defs == ["sub(32,u32::leading_zeros(arg2.bitfield))"]:
                ok = True
        if not ok:
            inst.violation(b.path, "group width", "the ack group width is `%s`: not the position of the highest set bit + 1 (a capped or shifted width leaves acknowledged frames unmarked and breaks the nonce parity)" % w)


def log_lookup_siblings(cx, iid):
    """T4: FrameLog::get_frame (used to validate an ack group) and get_frame_mut (used to apply it) index the log
    with the same expression"""
    R = cx.R
    with cx.instance(iid, "T4 SIBLING", "FrameLog::get_frame and get_frame_mut compute the same modular index", floor=2) as inst:
        from props.C03 import _strip_casts, _index_call_auto
        idx = {}
        for fn in ("FrameLog::get_frame", "FrameLog::get_frame_mut"):
            b = R.body(fn)
            for l, t in b.calls("re:VecDeque::(get|get_mut|index|index_mut)$"):
                if show(b.operand_expr(t["args"][0])) != "arg1.frames":
                    continue
                e = show(b.call_expr(t))
                inst.site(b, l, e[:100])
                ix = show(b.operand_expr(t["args"][1]))
                # widening casts (to usize / u64) are transparent, a narrowing one (`as u8 as usize`) is part of the index
                keep = re.sub(r"cast<(u8|u16|u32|i8|i16|i32)>\(", lambda m_: "narrow_%s(" % m_.group(1), ix)
                idx.setdefault(fn, set()).add(_strip_casts(keep))
                if R.short(t["fn"]).split("::")[-1].startswith("index") and not _index_call_auto(cx, b, l, "arg1.frames", ix):
                    inst.violation(b.path, "unchecked log index", "%s indexes the log with `%s` without `index < len` established on every path: an acknowledgement naming a frame that is not in the log must be ignored, not panic" % (fn, ix), at=b.span_at(l))
        if len(idx) != 2 or idx["FrameLog::get_frame"] != idx["FrameLog::get_frame_mut"] or any(len(v) != 1 for v in idx.values()):
            inst.violation("half_connection::frame_queue::FrameLog", "get_frame / get_frame_mut", "the checking and the applying lookup disagree: %s" % {k: sorted(v) for k, v in idx.items()})
        dr = R.body("FrameLog::drain")
        dcalls = [(l, show(dr.call_expr(t))) for l, t in dr.calls("VecDeque::drain")]
        bws = [(l, show(dr.rvalue_expr(n["rv"]))) for l, n, ps in dr.field_writes(r"arg1\.base_id") if n["k"] == "assign"]
        inst.site(dr, None, "drain: %s ; base_id = %s" % ([c for _, c in dcalls], [v for _, v in bws]))
        if [c for _, c in dcalls] != ["VecDeque::drain(arg1.frames,RangeTo{cast<usize>(u32::wrapping_sub(arg2,arg1.base_id))})"] or [v for _, v in bws] != ["arg2"]:
            inst.violation(dr.path, "drain", "FrameLog::drain must remove exactly the entries below the new base (modular distance) and then move base_id to it: %s / %s" % ([c for _, c in dcalls], [v for _, v in bws]))
        elif dr.reach_from_entry_avoiding(bws[0][0], [dcalls[0][0]]) is not None or dr.reach_exit_avoiding(dcalls[0][0], [bws[0][0]]) is not None:
            inst.violation(dr.path, "drain order", "the entries are not removed before base_id moves on every path")
        if len(idx) == 2 and all(len(v) == 1 for v in idx.values()):
            got = sorted(idx["FrameLog::get_frame"])[0]
            if got != "u32::wrapping_sub(arg2,arg1.base_id)":
                inst.violation("half_connection::frame_queue::FrameLog", "log index", "the frame log is indexed by `%s`, expected (id wrapping_sub base) as usize" % got)

SELFTEST = [
    {"name": "ack emitter peeks the newest group and pops the oldest",
     "edits": [{"file": "src/half_connection/frame_ack_queue.rs", "old": "        self.entries.front()", "new": "        self.entries.back()"}],
     "expect": ["C15.p"]},
    {"name": "skip the ack.nonce != true_nonce return",
     "edits": [{"file": "src/half_connection/frame_queue.rs", "old": "        if ack.nonce != true_nonce {\n            // Penalize bad nonce\n            return;\n        }\n", "new": ""}],
     "expect": ["C15.a"]},
    {"name": "record ack data regardless of freshness",
     "edits": [{"file": "src/half_connection/frame_queue.rs", "old": "        if newly_acked {", "new": "        if newly_acked || true {"}],
     "expect": ["C15.d"]},
]
