#!/usr/bin/env python3
"""Collects the independently seeded defects (written by sub-agents that saw only the property text)
into /verif/seeded/<property>-<n>/ : patch.diff, demo.patch, notes.md, meta.json.

Only changes whose validation verdict (tools/seeded.py validate, kept under .cache/seedval/) is ok
are kept.  For each kept change the registered checks are run against /repo with the patch applied
(and the patch is undone straight afterwards); meta.json records which checks raised a VIOLATION.
"""
import json
import os
import re
import shutil
import subprocess
import sys

VERIF = os.path.dirname(os.path.dirname(os.path.abspath(__file__)))
sys.path.insert(0, os.path.join(VERIF, "tools"))
import seeded  # noqa: E402


def needs_from_notes(txt):
    m = re.search(r"(?is)(need(?:ed|s)?[^\n]*manifest[^\n]*\n)(.*?)(\n#+ |\n\*\*[A-Z]|\Z)", txt)
    if m:
        body = (m.group(1) + m.group(2)).strip()
        return re.sub(r"\s+", " ", body)[:900]
    return re.sub(r"\s+", " ", txt.strip())[:600]


def main():
    only = set(sys.argv[1:])
    out_root = os.path.join(VERIF, "seeded")
    os.makedirs(out_root, exist_ok=True)
    summary = []
    for d in sorted(os.listdir("/tmp")):
        m = re.fullmatch(r"mut-(C\d+)([a-z]?)", d)
        if not m:
            continue
        pid = m.group(1)
        for n in (1, 2, 3):
            key = "%s%s-%d" % (pid, m.group(2), n)
            if only and key not in only:
                continue
            patch = "/tmp/%s/OUT/patch%d.diff" % (d, n)
            demo = "/tmp/%s/OUT/demo%d.patch" % (d, n)
            notes = "/tmp/%s/OUT/notes%d.md" % (d, n)
            vfile = os.path.join(VERIF, ".cache", "seedval", key + ".json")
            if not (os.path.exists(patch) and os.path.exists(demo) and os.path.exists(vfile)):
                continue
            try:
                verdict = json.load(open(vfile))
            except Exception:
                continue
            if not verdict.get("ok"):
                summary.append((key, "not kept: validation failed", ""))
                continue
            dst = os.path.join(out_root, key)
            os.makedirs(dst, exist_ok=True)
            shutil.copy(patch, os.path.join(dst, "patch.diff"))
            shutil.copy(demo, os.path.join(dst, "demo.patch"))
            ntxt = open(notes).read() if os.path.exists(notes) else ""
            if ntxt:
                open(os.path.join(dst, "notes.md"), "w").write(ntxt)
            res = seeded.check(patch)
            fired = res.get("fired", {})
            files = sorted(set(re.findall(r"^\+\+\+ b/(\S+)", open(patch).read(), re.M)))
            meta = {
                "id": key,
                "property": pid,
                "origin": "written by a sub-agent given only the text of property %s and a scratch git worktree of /repo; nothing from /verif" % pid,
                "files_changed": files,
                "needs_to_manifest": needs_from_notes(ntxt),
                "what_was_run": {
                    "validation": "tools/seeded.py validate (scratch worktree of /repo HEAD under /tmp, full `cargo test --offline --no-fail-fast` in a private network namespace, three configurations)",
                    "demo_tests": [t for t in verdict.get("demo_failing_tests", [])],
                    "demo_passes_without_patch": verdict.get("demo_passes_without_patch"),
                    "demo_fails_with_patch": verdict.get("demo_fails_with_patch"),
                    "existing_suite_unchanged_with_patch": verdict.get("existing_suite_unchanged"),
                    "existing_suite_failures_with_patch (known-flaky only)": verdict.get("existing_suite_failures_with_patch"),
                    "checks": "git -C /repo apply patch.diff; ./check <ID> quick for all 20; git -C /repo checkout -- .",
                },
                "caught_by": fired,
                "caught_by_own_property_check": pid in fired,
            }
            json.dump(meta, open(os.path.join(dst, "meta.json"), "w"), indent=1)
            summary.append((key, "kept", ", ".join("%s:%s" % (k, "/".join(x.split(" @ ")[0] for x in v)) for k, v in sorted(fired.items())) or "MISSED"))
            print(key, summary[-1][1], summary[-1][2], flush=True)
    # the summary always covers every kept change (rebuilt from the meta files)
    allsum = []
    for d in sorted(os.listdir(out_root)):
        mp = os.path.join(out_root, d, "meta.json")
        if os.path.exists(mp):
            m = json.load(open(mp))
            allsum.append((m["id"], "kept", ", ".join("%s:%s" % (k, "/".join(sorted({x.split(" @ ")[0] for x in v}))) for k, v in sorted(m["caught_by"].items())) or "MISSED"))
    json.dump(allsum, open(os.path.join(out_root, "SUMMARY.json"), "w"), indent=1)


if __name__ == "__main__":
    main()
