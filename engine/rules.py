"""Rule templates (T1..T10 of DESIGN.md §1.3) and the per-run bookkeeping used by every property.

A property module exposes `run(cx)`; it opens instances with `cx.instance(id, rule, text)` and
reports matched sites and violations.  Nothing here executes uflow code.
"""
import json
import os
import re
import time

from mirlib import (
    AnchorMissing,
    Facts,
    FactsAnalysis,
    Loc,
    alt_satisfies,
    closure,
    dnf_holds,
    name_match,
    show,
    sp_str,
)


def _load_floors():
    p = os.path.join(os.path.dirname(os.path.dirname(os.path.abspath(__file__))), "floors.json")
    try:
        return json.load(open(p)).get("floors", {})
    except Exception:
        return {}


# per-instance site counts confirmed on the reviewed tree (floors.json, committed): a rule whose
# matched-site count falls below what was counted has lost an anchor or a mechanism was deleted
_FLOORS = _load_floors()


class Instance:
    def __init__(self, cx, iid, rule, text, floor=1, exact_floor=False):
        self.exact_floor = exact_floor
        self.cx = cx
        self.iid = iid
        self.rule = rule
        self.text = text
        self.floor = floor
        self.sites = []
        self.violations = []
        self.notes = []

    def site(self, body, loc=None, what="", detail=None):
        rec = {"fn": body.path if hasattr(body, "path") else str(body), "what": what}
        if loc is not None and hasattr(body, "span_at"):
            rec["at"] = body.span_at(loc)
        if detail is not None:
            rec["detail"] = detail
        self.sites.append(rec)
        return rec

    def violation(self, fn, construct, msg, at=None, detail=None):
        """key = instance | function def-path | construct descriptor (never a line number)"""
        key = "%s|%s|%s" % (self.iid, fn, construct)
        rec = {"key": key, "instance": self.iid, "rule": self.rule, "fn": fn, "construct": construct, "msg": msg}
        if at:
            rec["at"] = at
        if detail:
            rec["detail"] = detail
        self.violations.append(rec)
        return rec

    def note(self, s):
        self.notes.append(s)

    # -- context manager: anchors missing inside an instance fail closed -----------------------------
    def __enter__(self):
        return self

    def __exit__(self, et, ev, tb):
        if et is not None and issubclass(et, AnchorMissing):
            self.violation("<anchor>", str(ev), "anchor missing (fail closed): %s" % ev)
            self.cx._close(self)
            return True
        if et is None:
            self.cx._close(self)
        return False


class Cx:
    def __init__(self, prop, R, D, tier="quick", src="/repo", meta=None):
        self.prop = prop
        self.R = R
        self.D = D
        self.tier = tier
        self.src = src
        self.meta = meta or {}
        self.instances = []
        self._fa = {}
        self.extra = {}

    def instance(self, iid, rule, text, floor=1, exact_floor=False):
        """floor: non-vacuity bound (the rule must match at least this many sites or it has lost its anchors).
        exact_floor=True additionally applies the site count recorded in floors.json on the reviewed tree; it is
        reserved for instances whose every site is a distinct required mechanism (tables, presence rules), because
        behaviour-preserving edits (merging two guarded sinks, fusing loops) legitimately lower an inventory count"""
        return Instance(self, iid, rule, text, floor, exact_floor)

    def _close(self, inst):
        fl = _FLOORS.get(inst.iid)
        if fl is not None and fl > inst.floor and inst.exact_floor:
            inst.floor = fl
        if len(inst.sites) < inst.floor and not any(v["fn"] == "<anchor>" for v in inst.violations):
            inst.violation(
                "<floor>",
                "sites<%d" % inst.floor,
                "instance matched %d site(s), fewer than the %d counted on the reviewed tree: a guarded mechanism was removed or the rule lost its anchor (fail closed)"
                % (len(inst.sites), inst.floor),
            )
        self.instances.append(inst)

    def fa(self, body, kill_on_mut_calls=False, kill_fields=True):
        key = (body.facts.config, body.path, kill_on_mut_calls, kill_fields)
        a = self._fa.get(key)
        if a is None:
            a = FactsAnalysis(body, kill_on_mut_calls, kill_fields)
            self._fa[key] = a
        return a

    # -- T1 GUARD ----------------------------------------------------------------------------------
    def guard(self, inst, body, sinks, dnf, construct=None, why="", checked_before=False):
        """every sink (Loc, label) requires the DNF (list of conjunctions of regex literals) to be
        established on every path reaching it.  checked_before=True: field writes do not invalidate
        facts (the sink follows the state update the guard authorised)"""
        fa = self.fa(body, kill_fields=not checked_before)
        n = 0
        for loc, label in sinks:
            n += 1
            alts = fa.at(loc)
            ok, bad = dnf_holds(alts, dnf)
            rec = inst.site(body, loc, label, {"required": dnf_str(dnf)})
            if alts is not None:
                rec["detail"]["established"] = [sorted(a)[:12] for a in list(alts)[:3]]
            if not ok:
                inst.violation(
                    body.path,
                    construct or label,
                    "sink `%s` is reachable without the required guard %s%s"
                    % (label, dnf_str(dnf), (" — " + why) if why else ""),
                    at=body.span_at(loc),
                    detail={"facts_on_offending_path": sorted(bad)},
                )
        return n

    def guard_cases(self, inst, body, sinks, cases, construct, why="", fa=None):
        """T1 per arm: a sink shared by several arms (`let timed_out = match state {…}; if timed_out { sink }`) holds
        a DNF whose alternatives belong to different arms.  cases = [(name, arm_regex, conj)]: every alternative at
        every sink that carries a literal matching arm_regex must satisfy conj (regex list, over the closure of the
        alternative).  Alternatives of no listed case are left to other rules.  Returns the case names seen."""
        fa = fa or self.fa(body)
        seen = set()
        for loc, label in sinks:
            alts = fa.at(loc)
            if alts is None:
                continue
            for alt in alts:
                for name, arm_rx, conj in cases:
                    if any(re.fullmatch(arm_rx, l) for l in alt):
                        seen.add(name)
                        inst.site(body, loc, "%s [%s]" % (label, name), {"requires": conj})
                        if not alt_satisfies(alt, conj):
                            inst.violation(body.path, "%s in %s" % (construct, name),
                                           "sink `%s` is reachable in case %s without the required guard %s%s" % (label, name, " ∧ ".join(conj), (" — " + why) if why else ""),
                                           at=body.span_at(loc), detail={"facts_on_offending_path": sorted(alt)[:12]})
        return seen

    # -- T2 PAIR ------------------------------------------------------------------------------------
    def followed_by(self, inst, body, a_sites, b_locs, construct, what_b, exits=None):
        """every path from each A to function return passes through some B"""
        n = 0
        for loc, label in a_sites:
            n += 1
            inst.site(body, loc, label, {"must_be_followed_by": what_b})
            w = body.reach_exit_avoiding(loc, b_locs, exits)
            if w is not None:
                inst.violation(
                    body.path,
                    construct or label,
                    "`%s` can reach the function exit without `%s`" % (label, what_b),
                    at=body.span_at(loc),
                    detail={"offending_path": body.path_spans(w)[:24]},
                )
        return n

    def preceded_by(self, inst, body, a_sites, b_locs, construct, what_b):
        n = 0
        for loc, label in a_sites:
            n += 1
            inst.site(body, loc, label, {"must_be_preceded_by": what_b})
            w = body.reach_from_entry_avoiding(loc, b_locs)
            if w is not None:
                inst.violation(
                    body.path,
                    construct or label,
                    "`%s` is reachable from function entry without `%s`" % (label, what_b),
                    at=body.span_at(loc),
                    detail={"offending_path": body.path_spans(w)[:24]},
                )
        return n


def dnf_str(dnf):
    return " ∨ ".join("(" + " ∧ ".join(c) + ")" for c in dnf)


def esc(s):
    """regex-escape a literal expression string"""
    return re.escape(s)


# sink selectors -------------------------------------------------------------------------------------


def call_sites(body, pat, arg_rx=None):
    """[(Loc, label)] of calls whose callee matches pat (and whose printed args match arg_rx)"""
    out = []
    for loc, t in body.calls(pat):
        e = body.call_expr(t)
        s = show(e)
        if arg_rx and not re.search(arg_rx, s):
            continue
        out.append((loc, body.facts.short(t["fn"]) + "(…)" if len(s) > 120 else s))
    return out


def call_locs(body, pat, arg_rx=None):
    return [l for l, _ in call_sites(body, pat, arg_rx)]


def write_sites(body, field_rx):
    return [(loc, "write " + ps) for loc, node, ps in body.field_writes(field_rx)]


def agg_sites(body, label_rx):
    """assignments whose rvalue is an aggregate with label matching (e.g. 'State::Active')"""
    out = []
    rx = re.compile(label_rx)
    for loc, s in body.assigns():
        rv = s["rv"]
        if rv["k"] == "agg":
            e = body.rvalue_expr(rv)
            if rx.fullmatch(e[1]):
                out.append((loc, "construct " + e[1]))
    return out


def rv_sites(body, rx, dest_rx=None):
    """assignments whose normalised rvalue matches rx (search)"""
    out = []
    r = re.compile(rx)
    for loc, s in body.assigns():
        e = show(body.rvalue_expr(s["rv"]))
        if r.search(e):
            if dest_rx:
                d = show(body.place_expr(s["pl"])) if s["pl"]["p"] else "_%d" % s["pl"]["l"]
                if not re.fullmatch(dest_rx, d):
                    continue
            out.append((loc, e))
    return out


def event_pushes(body, ev_rx):
    """Vec::push(<…>.events_out, <Event…>) sites whose event expression matches ev_rx"""
    out = []
    for loc, t in body.calls("Vec::push"):
        e = body.call_expr(t)
        if e[0] != "call" or len(e[2]) != 2:
            continue
        tgt = show(e[2][0])
        if not tgt.endswith("events_out") and "events_out" not in tgt:
            continue
        ev = show(e[2][1])
        if re.search(ev_rx, ev):
            out.append((loc, "push " + ev[:60]))
    return out


def now_provenance(cx, body, argn, depth=0):
    """is parameter `argn` of `body` fed, at every call site in the crate, from the endpoint's clock
    (`X::now_ms(arg1)`) or from the caller's own now-parameter?  returns (ok, witness)"""
    R = cx.R
    if depth > 6:
        return False, "call chain too deep"
    sites = []
    for ob in R.all_bodies():
        for loc, t in ob.calls():
            if R.local_fn_of(t.get("fn") or "") == body.path and not t.get("unresolved"):
                sites.append((ob, loc, t))
    if not sites:
        return False, "no call site of %s" % body.path
    for ob, loc, t in sites:
        i = argn - 1
        if i >= len(t["args"]):
            return False, "arity"
        e = ob.operand_expr(t["args"][i])
        s = show(e)
        if re.fullmatch(r"(Client|Server)::now_ms\(arg1\)", s):
            continue
        m = re.fullmatch(r"arg(\d+)", s)
        if m:
            ok, w = now_provenance(cx, ob, int(m.group(1)), depth + 1)
            if ok:
                continue
            return False, w
        return False, "%s passes `%s` as the time argument of %s" % (ob.path, s[:80], body.path)
    return True, ""


def rx_comm(op, a, b):
    """regex for a commutative binary expression whose operands print in canonical (sorted) order"""
    return r"(?:%s\(%s,%s\)|%s\(%s,%s\))" % (op, a, b, op, b, a)


# ---------------------------------------------------------------------------------------------------
# AC-normal form for arithmetic expression trees (T7 SHAPE): products are flattened into
# coefficient * sorted factors / sorted divisors (constants folded exactly), sums into sorted terms.
from fractions import Fraction


# integer types narrower than the pointer width: a cast to one of them can truncate
NARROW_INT = ("u8", "u16", "u32", "i8", "i16", "i32")


def strip_result_cast(e):
    """the outermost conversion of a value to the (narrow) type of the slot it is stored in / returned through
    is part of the slot's type, not of the formula: `(expr) as u16` stored in a u16 field"""
    if isinstance(e, tuple) and e and e[0] == "cast" and e[1] in NARROW_INT:
        return e[2]
    return e


def _const_val(e):
    if e[0] == "cast":
        return _const_val(e[2])
    if e[0] == "bin" and e[1] in ("Add", "Sub", "Mul", "Div"):
        a, b = _const_val(e[2]), _const_val(e[3])
        if a is None or b is None:
            return None
        if e[1] == "Add":
            return a + b
        if e[1] == "Sub":
            return a - b
        if e[1] == "Mul":
            return a * b
        if not (_is_float(e[2]) or _is_float(e[3])):
            return Fraction(int(a) // int(b)) if b != 0 and a.denominator == 1 and b.denominator == 1 else None
        return a / b if b != 0 else None
    if e[0] == "const" and e[2] in ("f64", "f32", "u8", "u16", "u32", "u64", "usize", "i32", "i64", "isize", "{float}", "{integer}"):
        try:
            return Fraction(str(e[1]))
        except Exception:
            return None
    return None


def acnf(e, consts=None):
    """canonical string of an arithmetic expression modulo associativity/commutativity of + and *,
    division by constants, integer->float casts and named constants (resolved through `consts`)"""
    k = e[0]
    if k == "const":
        v = _const_val(e)
        if v is not None:
            return _fr(v)
        return show(e)
    if k == "cast":
        if e[1] in NARROW_INT:
            # a cast to a narrow integer type may truncate: it is part of the formula
            return "cast<%s>(%s)" % (e[1], acnf(e[2], consts))
        return acnf(e[2], consts)  # widening casts / int->float are transparent for the formula's shape
    cv = _const_val(e)
    if cv is not None:
        return _fr(cv)
    if k == "bin" and e[1] in ("Mul", "Div"):
        coef, num, den = _prod(e, consts)
        s = "*".join(sorted(num)) or "1"
        if den:
            s += "/(" + "*".join(sorted(den)) + ")"
        if coef != 1:
            s = _fr(coef) + "*" + s
        return s
    if k == "bin" and e[1] in ("Add", "Sub"):
        terms = _sum(e, consts, 1)
        return "(" + " + ".join(sorted(terms)) + ")"
    if k == "call":
        name = e[1]
        args = [acnf(a, consts) for a in e[2]]
        if name in ("f64::max", "f64::min", "Ord::max", "Ord::min"):
            args = sorted(args)
        return name + "(" + ",".join(args) + ")"
    if k == "un":
        return e[1].lower() + "(" + acnf(e[2], consts) + ")"
    return show(e)


def _fr(v):
    return str(v.numerator) if v.denominator == 1 else "%d/%d" % (v.numerator, v.denominator)


def _is_float(e):
    k = e[0]
    if k == "const":
        return e[2] in ("f64", "f32")
    if k == "cast":
        return e[1] in ("f64", "f32")
    if k == "call":
        return e[1].startswith("f64::") or e[1].startswith("f32::") or e[1].endswith("as_secs_f64") or e[1].endswith("::ms_to_s")
    if k == "bin":
        return _is_float(e[2]) or _is_float(e[3])
    return False


def _prod(e, consts):
    v0 = _const_val(e)
    if v0 is not None:
        return v0, [], []
    if e[0] == "cast" and e[1] not in NARROW_INT:
        return _prod(e[2], consts)
    if e[0] == "bin" and e[1] == "Div" and not (_is_float(e[2]) or _is_float(e[3])):
        # integer division truncates: it is not the inverse of multiplication, keep it opaque
        return Fraction(1), ["idiv(%s,%s)" % (acnf(e[2], consts), acnf(e[3], consts))], []
    if e[0] == "bin" and e[1] == "Mul":
        c1, n1, d1 = _prod(e[2], consts)
        c2, n2, d2 = _prod(e[3], consts)
        return c1 * c2, n1 + n2, d1 + d2
    if e[0] == "bin" and e[1] == "Div":
        c1, n1, d1 = _prod(e[2], consts)
        c2, n2, d2 = _prod(e[3], consts)
        if c2 == 0:
            return c1, n1 + d2, d1 + n2 + ["0"]
        return c1 / c2, n1 + d2, d1 + n2
    v = _const_val(e)
    if v is not None:
        return v, [], []
    return Fraction(1), [acnf(e, consts)], []


def _sum(e, consts, sign):
    if e[0] == "bin" and e[1] == "Add":
        return _sum(e[2], consts, sign) + _sum(e[3], consts, sign)
    if e[0] == "bin" and e[1] == "Sub":
        return _sum(e[2], consts, sign) + _sum(e[3], consts, -sign)
    s = acnf(e, consts)
    return [s if sign > 0 else "-" + s]


def return_alts(cx, body, want):
    """alternative fact-sets under which a bool function returns `want` (True/False): for every
    assignment of the return place, the facts established there plus, for a non-constant value,
    the literals implied by that value having the wanted truth"""
    fa = cx.fa(body)
    out = []
    for loc, kind, node in body.defs.get(0, []):
        if kind != "assign":
            continue
        e = body.rvalue_expr(node["rv"])
        alts = fa.at(loc) or []
        if e[0] == "const" and e[2] == "bool":
            if (e[1] == "true") == want:
                out.extend((loc, a) for a in alts)
            continue
        lits = fa.bool_lits(e, want)
        for a in alts:
            m = frozenset(a | set(lits))
            # an alternative that needs a boolean local both true and false is infeasible
            if any(re.fullmatch(r"!var\d+", l) and l[1:] in m for l in m):
                continue
            # `a && b && c` is lowered to a flag that is `false` on the short-circuit edges and `c` at the end: a flag
            # known true (false for `||`) can only have taken its value from the one non-constant definition
            extra = set()
            for l in m:
                mm = re.fullmatch(r"(!?)var(\d+)", l)
                if not mm:
                    continue
                truth = mm.group(1) == ""
                consts, others = [], []
                for dloc, dk, dn in body.defs.get(int(mm.group(2)), []):
                    de = body.rvalue_expr(dn["rv"]) if dk == "assign" else body.call_expr(dn)
                    if de[0] == "const" and len(de) > 2 and de[2] == "bool":
                        consts.append(de[1] == "true")
                    else:
                        others.append(de)
                if len(others) == 1 and consts and all(c != truth for c in consts):
                    try:
                        extra |= set(fa.bool_lits(others[0], truth))
                    except Exception:
                        pass
            out.append((loc, frozenset(m | extra)))
    return out


def root_local(b, op):
    """follow single-definition copy chains from an operand to the local that really holds the value"""
    if op["k"] not in ("copy", "move") or op["pl"]["p"]:
        return None
    l = op["pl"]["l"]
    hops = 0
    while b.is_single_def(l) and hops < 8:
        loc, kind, node = b.defs[l][0]
        if kind == "assign" and node["rv"]["k"] == "use" and node["rv"]["op"]["k"] in ("copy", "move") and not node["rv"]["op"]["pl"]["p"]:
            l = node["rv"]["op"]["pl"]["l"]
            hops += 1
        else:
            break
    return l


def subst_var(e, n, repl):
    """replace ('var', n) inside the normalised expression e by repl"""
    if isinstance(e, tuple):
        if len(e) == 2 and e[0] == "var" and e[1] == n:
            return repl
        return tuple(subst_var(c, n, repl) for c in e)
    if isinstance(e, list):
        return [subst_var(c, n, repl) for c in e]
    return e


def _vars_in(e, out):
    if isinstance(e, tuple):
        if len(e) == 2 and e[0] == "var" and isinstance(e[1], int):
            out.add(e[1])
        else:
            for c in e:
                _vars_in(c, out)
    elif isinstance(e, list):
        for c in e:
            _vars_in(c, out)


def case_values(cx, body, expr, depth=2):
    """Case split of an expression over the definitions of the multi-definition locals it mentions
    (`let x = match … { A => a, B => b }; use(x)` reads in MIR as var = a | var = b at different places):
    returns [(alternatives holding at the definition(s), expression with the locals replaced)].
    A local that is re-defined from itself (loop counters) is left alone."""
    vs = set()
    _vars_in(expr, vs)
    out = [([frozenset()], expr)]
    if depth <= 0:
        return out
    fa = cx.fa(body)
    for n in sorted(vs):
        defs = body.defs.get(n, [])
        if not defs or len(defs) > 8:
            continue
        cases = []
        selfref = False
        for loc, kind, node in defs:
            de = body.rvalue_expr(node["rv"]) if kind == "assign" else body.call_expr(node)
            inner = set()
            _vars_in(de, inner)
            if n in inner:
                selfref = True
            cases.append((fa.at(loc) or [frozenset()], de))
        if selfref:
            continue
        nxt = []
        for alts0, e0 in out:
            for alts1, de in cases:
                merged = [frozenset(a0) | frozenset(a1) for a0 in alts0 for a1 in alts1][:16]
                nxt.append((merged, subst_var(e0, n, de)))
        out = nxt
    if depth > 1:
        res = []
        for alts, e in out:
            vs2 = set()
            _vars_in(e, vs2)
            if vs2 - vs:
                for alts2, e2 in case_values(cx, body, e, depth - 1):
                    res.append(([frozenset(a) | frozenset(b) for a in alts for b in alts2][:16], e2))
            else:
                res.append((alts, e))
        out = res
    return out


# Polynomial normal form for integer expressions (T7 SHAPE): +, -, * are expanded and collected exactly (the integers
# mod 2^n form a ring, so the expansion is exact under wrapping arithmetic as well); integer division, calls and
# everything else are opaque atoms (printed from their own normal form); widening casts are transparent.
def poly(e):
    """dict: sorted tuple of atom strings -> Fraction coefficient"""
    k = e[0]
    v = _const_val(e) if k in ("const", "bin", "cast") and not _is_float(e) else None
    if v is not None:
        return {(): v} if v != 0 else {}
    if k == "cast" and not _is_float(e):
        if e[1] in NARROW_INT:
            return {("cast<%s>(%s)" % (e[1], poly_str(e[2])),): Fraction(1)}
        return poly(e[2])
    if k == "bin" and e[1] in ("Add", "Sub", "AddWithOverflow", "SubWithOverflow") and not _is_float(e):
        a, b = poly(e[2]), poly(e[3])
        sg = 1 if e[1].startswith("Add") else -1
        out = dict(a)
        for m, c in b.items():
            out[m] = out.get(m, 0) + sg * c
        return {m: c for m, c in out.items() if c != 0}
    if k == "bin" and e[1] in ("Mul", "MulWithOverflow") and not _is_float(e):
        a, b = poly(e[2]), poly(e[3])
        out = {}
        for m1, c1 in a.items():
            for m2, c2 in b.items():
                m = tuple(sorted(m1 + m2))
                out[m] = out.get(m, 0) + c1 * c2
        return {m: c for m, c in out.items() if c != 0}
    if k == "bin" and e[1] == "Div" and not _is_float(e):
        return {("idiv(%s,%s)" % (poly_str(e[2]), poly_str(e[3])),): Fraction(1)}
    if k == "call":
        return {("%s(%s)" % (e[1], ",".join(poly_str(a) if not _is_float(a) else acnf(a) for a in e[2])),): Fraction(1)}
    return {(show(e),): Fraction(1)}


def poly_str(e):
    p = poly(e)
    if not p:
        return "0"
    terms = []
    for m in sorted(p):
        c = p[m]
        body = "*".join(m)
        if not m:
            terms.append(_fr(c))
        elif c == 1:
            terms.append(body)
        else:
            terms.append(_fr(c) + "*" + body)
    return " + ".join(terms)


def canon_value(cx, body, e, depth=3):
    """Rewrites multi-definition locals that spell a known combinator into that combinator, bottom-up:
         match x { Some(v) => v, None => d }          ->  Option::unwrap_or(x, d)
         if c { a } else { b } with a == b             ->  a
       so that `let r = opt.unwrap_or(D)` and the equivalent explicit match compare equal."""
    if not isinstance(e, tuple) or depth <= 0:
        return e
    if len(e) == 2 and e[0] == "var" and isinstance(e[1], int):
        defs = body.defs.get(e[1], [])
        if 2 <= len(defs) <= 3:
            fa = cx.fa(body)
            some_v = none_v = subj = None
            vals = []
            for loc, kind, node in defs:
                de = body.rvalue_expr(node["rv"]) if kind == "assign" else body.call_expr(node)
                de = canon_value(cx, body, de, depth - 1)
                vals.append(de)
                alts = fa.at(loc) or []
                for alt in alts[:1] if isinstance(alts, list) else list(alts)[:1]:
                    pass
                sd = show(de)
                m = re.fullmatch(r"(.+)@Some\.0", sd)
                if m and alts and all(("is(%s,Some)" % m.group(1)) in a for a in alts):
                    some_v, subj = de, m.group(1)
                else:
                    none_v = (de, alts)
            if len(defs) == 2 and some_v is not None and none_v is not None and none_v[1] and all(("is(%s,None)" % subj) in a for a in none_v[1]):
                base = some_v[1] if some_v[0] == "proj" and len(some_v[2]) == 2 else ("proj", some_v[1], tuple(some_v[2][:-2]))
                return ("call", "Option::unwrap_or", (base, none_v[0]))
            if len({show(v) for v in vals}) == 1:
                return vals[0]
            if len(defs) == 2:
                # if a > b { b } else { a }  ==  min(a, b)   (and the mirror image for max)
                (l0, k0, n0), (l1, k1, n1) = defs
                x, y = vals
                sx, sy = show(x), show(y)
                ax, ay = fa.at(l0) or [], fa.at(l1) or []

                def holds(alts, lits):
                    return bool(alts) and all(any(l in a for l in lits) for a in alts)
                x_le_y = ["lt(%s,%s)" % (sx, sy), "le(%s,%s)" % (sx, sy)]
                y_le_x = ["lt(%s,%s)" % (sy, sx), "le(%s,%s)" % (sy, sx)]
                if holds(ax, x_le_y) and holds(ay, y_le_x):
                    return ("call", "Ord::min", tuple(sorted((x, y), key=show)))
                if holds(ax, y_le_x) and holds(ay, x_le_y):
                    return ("call", "Ord::max", tuple(sorted((x, y), key=show)))
        return e
    return tuple(canon_value(cx, body, c, depth) if isinstance(c, tuple) else c for c in e)


def split_option_map(R, e):
    """(X, value when X is Some, value when X is None) for `X.map(closure).unwrap_or(D)` / `X.map_or(D, closure)`,
    with the closure's body inlined (its parameter replaced by X@Some.0, its captures by the captured expressions);
    None for any other expression.  This is the expression form of `if let Some(v) = X { f(v) } else { D }`."""
    if not (isinstance(e, tuple) and e and e[0] == "call"):
        return None
    X = clo = D = None
    if e[1] == "Option::unwrap_or" and len(e[2]) == 2 and e[2][0][0] == "call" and e[2][0][1] == "Option::map" and len(e[2][0][2]) == 2:
        X, clo, D = e[2][0][2][0], e[2][0][2][1], e[2][1]
    elif e[1] == "Option::map_or" and len(e[2]) == 3:
        X, D, clo = e[2]
    if clo is None or clo[0] != "agg" or not str(clo[1]).startswith("closure:"):
        return None
    try:
        cb = R.body(clo[1][len("closure:"):])
        ce = cb.local_expr(0)
    except Exception:
        return None
    if cb.argc != 2 or _has_leaf(ce, ("var", "rec")):
        return None
    payload = ("proj", X, ("@Some", "0")) if X[0] != "proj" else ("proj", X[1], tuple(X[2]) + ("@Some", "0"))

    def sub(x):
        if isinstance(x, tuple):
            if x == ("arg", 2):
                return payload
            if len(x) == 3 and x[0] == "proj" and x[1] == ("arg", 1) and x[2] and str(x[2][0]).isdigit() and int(x[2][0]) < len(clo[2]):
                cap = clo[2][int(x[2][0])]
                rest = tuple(x[2][1:])
                if not rest:
                    return cap
                return ("proj", cap, rest) if cap[0] != "proj" else ("proj", cap[1], tuple(cap[2]) + rest)
            return tuple(sub(c) for c in x)
        return x
    return X, sub(ce), D


def resolve_tuple_merges(cx, body, e, depth=6):
    """`let (flag, v) = match opt { Some(x) => (C, x), None => (0, d) }` reads in MIR as a tuple-typed local with two
    definitions.  Where the facts at the two definitions are is(opt,Some) / is(opt,None) for one and the same `opt`,
    component k of that local is rewritten into the scalar spelling of the same value:
        (x, d)  ->  Option::unwrap_or(opt, d)          (C, 0) with C = 1 << s  ->  (is_some(opt) as u8) << s
    Anything else is left alone (the caller then fails closed)."""
    if not isinstance(e, tuple) or depth <= 0:
        return e
    if e and e[0] == "proj" and isinstance(e[1], tuple) and e[1][0] == "var" and e[2] and isinstance(e[2][0], str) and e[2][0].isdigit():
        n, k = e[1][1], int(e[2][0])
        defs = body.defs.get(n, [])
        if len(defs) == 2 and all(kind == "assign" for _, kind, _ in defs):
            fa = cx.fa(body)
            vals = []
            for loc, kind, node in defs:
                de = body.rvalue_expr(node["rv"])
                vals.append((loc, de, fa.at(loc) or []))
            if all(de[0] == "agg" and de[1] == "tuple" and len(de[2]) > k for _, de, _ in vals):
                for (la, da, fa_a), (lb, db, fa_b) in (vals, vals[::-1]):
                    # which Option decides?  the one whose payload the Some-side tuple mentions
                    X = None
                    for comp in da[2]:
                        if comp[0] == "proj" and len(comp[2]) >= 2 and tuple(comp[2][-2:]) == ("@Some", "0"):
                            X = ("proj", comp[1], tuple(comp[2][:-2])) if len(comp[2]) > 2 else comp[1]
                    if X is None:
                        continue
                    xs = show(X)
                    if not (fa_a and all(("is(%s,Some)" % xs) in a for a in fa_a) and fa_b and all(("is(%s,None)" % xs) in a for a in fa_b)):
                        continue
                    ca, cb = da[2][k], db[2][k]
                    rest = tuple(e[2][1:])
                    out = None
                    if show(ca) == xs + "@Some.0" and cb[0] == "const":
                        out = ("call", "Option::unwrap_or", (X, cb))
                    elif ca[0] == "const" and cb[0] == "const" and str(cb[1]) == "0":
                        try:
                            a_ = int(str(ca[1]))
                        except ValueError:
                            a_ = 0
                        if a_ > 0 and a_ & (a_ - 1) == 0:
                            out = ("bin", "Shl", ("cast", ca[2], ("call", "Option::is_some", (X,))), ("const", str(a_.bit_length() - 1), "i32", None))
                    if out is not None:
                        return ("proj", out, rest) if rest else out
    return tuple(resolve_tuple_merges(cx, body, c, depth - 1) if isinstance(c, tuple) else c for c in e)


def _subst_args(e, args):
    if isinstance(e, tuple):
        if len(e) == 2 and e[0] == "arg" and isinstance(e[1], int) and 1 <= e[1] <= len(args):
            return args[e[1] - 1]
        return tuple(_subst_args(c, args) for c in e)
    return e


def _has_leaf(e, kinds):
    if isinstance(e, tuple):
        if e and e[0] in kinds and len(e) == 2:
            return True
        return any(_has_leaf(c, kinds) for c in e)
    return False


def pure_summary(R, path):
    """the return expression of a crate-local function that is a single side-effect-free expression of its
    parameters (no multi-definition locals, no writes through its parameters, no calls that take `&mut`), or None"""
    cache = getattr(R, "_pure_cache", None)
    if cache is None:
        cache = R._pure_cache = {}
    if path in cache:
        return cache[path]
    cache[path] = None
    try:
        b = R.body(path)
    except Exception:
        return None
    if b.path != path:
        return None
    try:
        e = b.local_expr(0)
    except RecursionError:
        return None
    if _has_leaf(e, ("var", "rec")) or len(show(e)) > 400:
        return None
    for loc, node, ps in b.field_writes(r".*"):
        return None
    for loc, t in b.calls():
        for a in t["args"]:
            if a["k"] in ("copy", "move") and b.locals[a["pl"]["l"]]["ty"].startswith("&mut"):
                return None
    cache[path] = e
    return e


def inline_pure(R, e, keep=(), depth=3):
    """expression with calls to small pure crate-local helpers replaced by their bodies (so that a predicate that was
    extracted into a private helper compares equal to the inline test); callees named in `keep` are left alone"""
    if not isinstance(e, tuple) or depth <= 0:
        return e
    e = tuple(inline_pure(R, c, keep, depth) if isinstance(c, tuple) else c for c in e)
    if e and e[0] == "call" and e[1] not in keep:
        hits = [p for p in R.fns if R.short(p) == e[1]]
        if len(hits) == 1:
            summ = pure_summary(R, hits[0])
            if summ is not None:
                return inline_pure(R, _subst_args(summ, e[2]), keep, depth - 1)
    return e
