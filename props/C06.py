"""C06 — receiver memory stays within max_receive_alloc; senders respect it (DESIGN.md §4 C06)."""
import re
from mirlib import show, Loc, dnf_holds
from rules import call_sites, call_locs, rx_comm, acnf

SCOPE = ("Decides the accounting structure on every path: a new reassembly entry allocates, stores data and bumps "
         "the counter only if alloc + alloc_size <= max_alloc, and the refusing edge closes the slot with a "
         "zero-size entry and hands on a data-less packet; clearing a slot subtracts the size it recorded, and only "
         "the window advance clears slots; both ends round the limit and size a packet with the same expressions "
         "over the same constant; the sender assigns an id only within window and allocation (shared with C02.e); "
         "the handshake refuses peers whose limits cannot work and each end takes tx_alloc_limit from the peer and "
         "rx_alloc_limit from itself; every growth operation on a per-connection or per-server collection is "
         "guarded by a capacity fact or listed with its bounding argument. Not decided: real heap bytes; that the "
         "counters equal live memory; 'no packet is ever discarded between two uflow endpoints' (numeric agreement "
         "of both counters over histories).")

AW = "half_connection::packet_receiver::assembly_window::AssemblyWindow::"

GROWTH_CALLS = ("Vec::push", "VecDeque::push_back", "VecDeque::push_front", "BinaryHeap::push", "HashMap::insert", "Vec::extend_from_slice", "Vec::insert",
                "VecDeque::insert", "Vec::resize", "VecDeque::extend", "Vec::extend", "Vec::append", "VecDeque::append", "HashSet::insert", "BTreeMap::insert", "String::push_str")

# (function regex, target regex) -> (reason, optional DNF that must hold at the site, checked_before)
GROWTH_TABLE = [
    (r"half_connection::frame_queue::FrameLog::push", r"arg1\.frames", "frame log: FrameQueue::push calls it only under can_push() (next_id - window.base < window.size); linked", "framelog"),
    (r"half_connection::loss_rate::LossIntervalQueue::push_nack", r"arg1\.entries", "loss intervals: every push_front is followed by truncate(9); linked", "truncate9"),
    (r"half_connection::packet_sender::PacketSender::enqueue_packet", r"arg1\.packet_send_queue", "application-fed send queue (not network-driven); size is reported by send_buffer_size()", None),
    (r"half_connection::recv_rate_set::RecvRateSet::(reset|reset_initial)", r"arg1\.entries", "preceded by clear(): exactly one entry; linked", "after_clear"),
    (r"half_connection::recv_rate_set::RecvRateSet::rate_limited_update", r"arg1\.entries", "one entry per feedback (at most one per RTT, sender side), older than 2 RTT expired by retain; bounded by feedback cadence, reviewed", None),
    (r"half_connection::HalfConnection::emit_data_frames", r"arg1\.pending_queue", "fragments of one packet (<= 2^16), pushed only when the queue is empty; linked", "pending_empty"),
    (r"half_connection::HalfConnection::emit_data_frames", r"arg1\.resend_queue", "one live entry per unacknowledged resendable fragment of a packet inside the send window (window and allocation guards C02.e); re-push is paired with a pop (C02.d)", None),
    (r"half_connection::emit::DataFrameEmitter::<'a, F>::push", r"(arg1\.in_progress_frame@Some\.0\.resend_refs|Vec::new\(\))", "fragment refs of one frame: bounded by the per-frame datagram cap (C01.g)", None),
    (r"frame::serial::build::(DataFrameBuilder|AckFrameBuilder)::(add|build)", r"arg1\.buffer", "one frame's bytes: the emitters add only while size <= MAX_FRAME_SIZE (C04.b)", None),
    (r"frame::serial::read_(data|ack)_payload", r"var\d+", "parser-local vector: at most one element per element header present in a frame of <= MAX_FRAME_SIZE bytes", None),
    (r"<(server::EventPacketSink|client::PacketReceiveSink)<'a> as half_connection::PacketSink>::send", r"arg1\.event_queue", "per-step event output: one event per delivered packet, drained by every step() (mem::take)", None),
    (r"(server::Server|client::Client)::[a-z_]+", r"arg1\.events_out", "per-step event output, drained by every step() (mem::take); at most a constant number per handled frame/timer", "events_taken"),
    (r"server::Server::(handle_handshake_syn|handle_disconnect|handle_event|step_active_clients)", r"arg1\.client_events", "timer queue: at most one pending timer per client per state (pushed on entering Pending/Closing/Closed, re-pushed only after a pop)", None),
    (r"server::Server::handle_handshake_syn", r"arg1\.clients", "C17.a capacity guard", "c17a"),
    (r"server::Server::handle_handshake_ack", r"arg1\.active_clients", "C17.b (known finding: not bounded by max_active_connections at promotion)", None),
    (r"client::Client::send", r"arg1\.state@Pending\.0\.initial_sends", "application-fed while connecting (not network-driven)", None),
]


def inst_alloc_guard(cx, iid):
    R = cx.R
    with cx.instance(iid, "T1 GUARD + T2", "Open arm of try_add: allocate/store/count only under alloc + size <= max_alloc; refusal closes the slot with size 0 and yields a data-less packet", floor=4) as inst:
        b = R.body(AW + "try_add")
        ok_fact = r"le\(add\((arg1\.alloc,assembly_window::packet_alloc_size\(arg3\)|assembly_window::packet_alloc_size\(arg3\),arg1\.alloc)\),arg1\.max_alloc\)"
        sinks = [(l, "alloc += size") for l, node, ps in b.field_writes(r"arg1\.alloc")] + call_sites(b, "ActiveEntry::new")
        for loc, kind, node in b.defs.get(0, []):
            if kind == "assign" and "Some{arg3.data}" in show(b.rvalue_expr(node["rv"])):
                sinks.append((loc, "return packet carrying the datagram's data"))
        if len(sinks) < 3:
            inst.violation(b.path, "allocation sites", "expected alloc increment, ActiveEntry::new and the single-fragment store (anchor)")
        cx.guard(inst, b, sinks, [[ok_fact]], construct="allocation beyond max_alloc", why="received packet data would exceed max_receive_alloc", checked_before=True)
        for l, node, ps in b.field_writes(r"arg1\.alloc"):
            v = show(b.rvalue_expr(node["rv"]))
            if not re.fullmatch(rx_comm("add", r"arg1\.alloc", r"assembly_window::packet_alloc_size\(arg3\)"), v):
                inst.violation(b.path, "alloc accounting", "alloc is updated by `%s`" % v, at=b.span_at(l))
        # refusing edge
        fa = cx.fa(b)
        neg = ok_fact.replace(r"le\(add", r"lt\(arg1\.max_alloc,add", 1)[: -len(r",arg1\.max_alloc\)")] + r"\)"
        refused = [(l, v) for l, node, ps in b.field_writes(r"arg1\.window\[arg2\]") for v in [show(b.rvalue_expr(node["rv"])) if node["k"] == "assign" else ""] if v == "WindowEntry::Closed{0}"]
        for l, v in refused:
            inst.site(b, l, "refusal: window[idx] = Closed(0)")
            g, _ = dnf_holds(fa.at(l), [[r"lt\(arg1\.max_alloc,add\(.*\)\)"]])
            if not g:
                inst.violation(b.path, "Closed(0) outside refusal", "a zero-size Closed entry is created on a path where the allocation test passed", at=b.span_at(l))
        if len(refused) != 1:
            inst.violation(b.path, "refusal edge", "expected exactly one refusing edge that closes the slot with Closed(0)")
        dud = [loc for loc, kind, node in b.defs.get(0, []) if kind == "assign" and re.search(r"Packet\{.*,None\{\}\}\}$", show(b.rvalue_expr(node["rv"])))]
        inst.site(b, None, "data-less packet returns: %d" % len(dud))
        for loc in dud:
            g, _ = dnf_holds(fa.at(loc), [[r"lt\(arg1\.max_alloc,add\(.*\)\)"]])
            if not g:
                inst.violation(b.path, "data-less packet", "a packet without data is produced although the allocation test passed", at=b.span_at(loc))


def inst_release(cx, iid):
    R = cx.R
    with cx.instance(iid, "T2 PAIR + T3", "clear() subtracts the recorded size in both occupied arms and re-opens the slot; only advance_window clears", floor=3) as inst:
        b = R.body(AW + "clear")
        fa = cx.fa(b)
        # the amount subtracted, case-split over the arm it is computed in (direct `alloc -= x` per arm, or a
        # `let freed = match … {…}` followed by one subtraction)
        from rules import case_values
        from mirlib import alt_satisfies
        subs = {}
        writes = []
        for l, node, ps in b.field_writes(r"arg1\.alloc"):
            writes.append((l, b.rvalue_expr(node["rv"]) if node["k"] == "assign" else b.call_expr(node)))
        for l, t in b.calls("usize::sub_assign"):
            writes.append((l, b.call_expr(t)))
        # `mem::replace(&mut window[idx], Open)` yields the slot's previous content and re-opens it in one call
        RPL = re.compile(r"mem::replace\((arg1\.window\[arg2\]),WindowEntry::Open\{\}\)")

        def unrep(x):
            return RPL.sub(r"\1", x)
        for l, e in writes:
            inst.site(b, l, "alloc -= " + show(e)[:70])
            here = fa.at(l) or [frozenset()]
            for alts, ce in case_values(cx, b, e):
                for arm in ("Closed", "Active", "Open"):
                    lit = r"is\(arg1\.window\[arg2\],%s\)" % arm
                    both = [frozenset(unrep(x) for x in a) | frozenset(unrep(x) for x in h) for a in alts for h in here]
                    if both and all(alt_satisfies(a, [lit]) for a in both):
                        subs.setdefault(arm, []).append(unrep(show(ce)))
        for arm, want in (("Closed", r"arg1\.window\[arg2\]@Closed\.0"), ("Active", r"arg1\.window\[arg2\]@Active\.0\.alloc_size")):
            got = subs.get(arm, [])
            if len(got) != 1 or not re.fullmatch(r"(sub\(arg1\.alloc,%s\)|usize::sub_assign\(arg1\.alloc,%s\))" % (want, want), got[0]):
                inst.violation(b.path, arm + " arm release", "clearing %s slot does not subtract its recorded size exactly once (%s)" % ("a Closed" if arm == "Closed" else "an Active", got))
        for v in subs.get("Open", []):
            if not re.fullmatch(r"(sub\(arg1\.alloc,0\)|usize::sub_assign\(arg1\.alloc,0\))", v):
                inst.violation(b.path, "Open arm release", "clearing an Open slot changes the counter (%s)" % v)
        opens = [l for l, node, ps in b.field_writes(r"arg1\.window\[arg2\]") if node["k"] == "assign" and show(b.rvalue_expr(node["rv"])) == "WindowEntry::Open{}"]
        opens += [l for l, t in b.calls("mem::replace") if RPL.fullmatch(show(b.call_expr(t)))]
        cx.followed_by(inst, b, [(Loc(0, -1), "entry of clear()")], opens, "slot not re-opened", "window[idx] = Open")
        callers = [ob.path for ob in R.all_bodies() if call_sites(ob, AW + "clear")]
        inst.site(b, None, "callers of clear: %s" % [c.split("::")[-1] for c in callers])
        if callers != ["half_connection::packet_receiver::PacketReceiver::advance_window"]:
            inst.violation(b.path, "callers of clear", "AssemblyWindow::clear is called from %s; only the window advance may release slots" % callers)
        # recorded size = size charged: every value stored into a slot (direct write or mem::replace) is one of
        #   Closed(0)                        only on the refusing edge (nothing was charged)
        #   Closed(packet_alloc_size(dg))    Open arm, single fragment: the size just charged
        #   Active(ActiveEntry::new(packet_alloc_size(dg), …))   Open arm, first fragment: the size just charged
        #   Closed(window[idx]@Active.alloc_size)                Active arm, packet complete: the charge carried over
        ta = R.body(AW + "try_add")
        tfa = cx.fa(ta, kill_fields=False)
        stores = []
        for l, node, ps in ta.field_writes(r"arg1\.window\[arg2\]"):
            if node["k"] == "assign":
                stores.append((l, show(ta.rvalue_expr(node["rv"]))))
        for l, t in ta.calls("re:mem::(replace|swap)$"):
            e = ta.call_expr(t)
            if show(e[2][0]) == "arg1.window[arg2]":
                stores.append((l, show(e[2][1])))
        CH = r"assembly_window::packet_alloc_size\(arg3\)"
        for l, v in stores:
            inst.site(ta, l, "slot <- " + v[:80])
            if v == "WindowEntry::Closed{0}":
                g, _ = dnf_holds(tfa.at(l), [[r"lt\(arg1\.max_alloc,add\(.*\)\)"]])
                if not g:
                    inst.violation(ta.path, "recorded size", "a slot is closed with recorded size 0 although an allocation was charged for it: the charge is never released", at=ta.span_at(l))
            elif re.fullmatch(r"WindowEntry::Closed\{%s\}" % CH, v) or re.fullmatch(r"WindowEntry::Active\{ActiveEntry::new\(%s,.*\)\}" % CH, v):
                g, _ = dnf_holds(tfa.at(l), [[r"is\(arg1\.window\[arg2\],Open\)"]])
                if not g:
                    inst.violation(ta.path, "recorded size", "a fresh charge is recorded over a slot that is not Open", at=ta.span_at(l))
            elif v == "WindowEntry::Closed{arg1.window[arg2]@Active.0.alloc_size}":
                pass
            elif v.startswith("WindowEntry::Open"):
                inst.violation(ta.path, "slot re-opened in try_add", "try_add re-opens a slot (only the window advance may)", at=ta.span_at(l))
            else:
                inst.violation(ta.path, "recorded size", "a slot records `%s`, not the size that was charged" % v[:120], at=ta.span_at(l))


def inst_sibling_accounting(cx, iid):
    R = cx.R
    with cx.instance(iid, "T4 SIBLING", "both ends round the allocation limit and size a packet with the same expressions over MAX_FRAGMENT_SIZE", floor=4) as inst:
        M = R.const_int("MAX_FRAGMENT_SIZE")
        want_round = "%d*idiv((-1 + %d + ARG),%d)" % (M, M, M)
        for fn, adt, arg in (("PacketSender::new", "PacketSender", "arg3"), (AW + "new", "AssemblyWindow", "arg1")):
            b = R.body(fn)
            got = None
            for l, s in b.assigns():
                rv = s["rv"]
                if rv["k"] == "agg" and rv.get("adt", "").endswith(adt):
                    got = acnf(b.operand_expr(rv["ops"][rv["fields"].index("max_alloc")]))
            inst.site(b, None, "%s.max_alloc = %s" % (adt, got))
            if got != want_round.replace("ARG", arg):
                inst.violation(b.path, "limit rounding", "%s rounds its limit as `%s`, expected ceil(limit / M) * M" % (adt, got))
        s = R.body("packet_sender::alloc_size")
        fa = cx.fa(s)
        forms = {}
        for loc, kind, node in s.defs.get(0, []):
            if kind == "assign":
                multi = dnf_holds(fa.at(loc), [[r"lt\(MAX_FRAGMENT_SIZE,arg1\)"]])[0]
                forms["multi" if multi else "single"] = acnf(s.rvalue_expr(node["rv"]))
        inst.site(s, None, "sender alloc_size: %s" % forms)
        if forms != {"multi": "%d*idiv((-1 + %d + arg1),%d)" % (M, M, M), "single": "arg1"}:
            inst.violation(s.path, "sender alloc_size", "sender sizes a packet as %s, expected {len > M: ceil(len/M)*M, else len}" % forms)
        r = R.body("assembly_window::packet_alloc_size")
        fa = cx.fa(r)
        forms = {}
        for loc, kind, node in r.defs.get(0, []):
            # "more than one fragment" is `fragment_id_last + 1 > 1` or `fragment_id_last != 0`
            multi = dnf_holds(fa.at(loc), [[r"lt\(1,add\(1,cast<usize>\(arg1\.fragment_id_last\)\)\)"], [r"ne\(0,arg1\.fragment_id_last\)"], [r"lt\(0,arg1\.fragment_id_last\)"]])[0]
            single = dnf_holds(fa.at(loc), [[r"le\(add\(1,cast<usize>\(arg1\.fragment_id_last\)\),1\)"], [r"eq\(0,arg1\.fragment_id_last\)"]])[0]
            forms["multi" if multi else "single" if single else "unconditional"] = acnf(r.rvalue_expr(node["rv"]) if kind == "assign" else r.call_expr(node))
        inst.site(r, None, "receiver packet_alloc_size: %s" % forms)
        if forms != {"multi": "%d*(1 + arg1.fragment_id_last)" % M, "single": "[T]::len(arg1.data)"}:
            inst.violation(r.path, "receiver packet_alloc_size", "receiver sizes a packet as %s, expected {fragments > 1: fragments*M, else len}" % forms)


def inst_sender_alloc_pair(cx, iid):
    """the sender's copy of the peer's allocation budget: what emit_packet charges for a packet is recorded
    in its window entry and exactly that is refunded when the entry is acknowledged"""
    R = cx.R
    PS = "half_connection::packet_sender::PacketSender::"
    with cx.instance(iid, "T2 PAIR + T7", "PacketSender.alloc: emit_packet adds alloc_size(len) and records it in the window entry; acknowledge subtracts the recorded size of the entry it releases; nothing else writes it", floor=4) as inst:
        e = R.body(PS + "emit_packet")
        X = r"packet_sender::alloc_size\(\[T\]::len\(VecDeque::front\(arg1\.packet_send_queue\)@Some\.0\.data\)\)"
        ws = list(e.field_writes(r"arg1\.alloc"))
        for l, node, ps in ws:
            v = show(e.rvalue_expr(node["rv"])) if node["k"] == "assign" else show(e.call_expr(node))
            inst.site(e, l, "alloc = " + v[:110])
            if not re.fullmatch(rx_comm("add", r"arg1\.alloc", X), v):
                inst.violation(e.path, "alloc charge", "emit_packet updates alloc by `%s`, expected alloc + alloc_size(len of the queued packet)" % v[:160], at=e.span_at(l))
        if len(ws) != 1:
            inst.violation(e.path, "alloc charge count", "emit_packet writes alloc at %d sites, expected one" % len(ws))
        rec = 0
        for l, s, _ps in e.field_writes(r"arg1\.window\[.*\]"):
            if s["k"] != "assign":
                continue
            ex = e.rvalue_expr(s["rv"])
            for m in re.finditer(r"WindowEntry\{", show(ex)):
                rec += 1
                # the aggregate's alloc_size operand
                def find(t):
                    if isinstance(t, tuple):
                        if t and t[0] == "agg" and str(t[1]).endswith("WindowEntry") and len(t) > 3 and t[3] and "alloc_size" in t[3]:
                            return t[2][list(t[3]).index("alloc_size")]
                        for c in t:
                            r = find(c)
                            if r is not None:
                                return r
                    elif isinstance(t, list):
                        for c in t:
                            r = find(c)
                            if r is not None:
                                return r
                    return None
                a = find(ex)
                av = show(a) if a is not None else None
                inst.site(e, l, "WindowEntry.alloc_size = %s" % (av or "?")[:100])
                if av is None or not re.fullmatch(X, av):
                    inst.violation(e.path, "recorded alloc_size", "the window entry records `%s`, not the size that was charged" % av, at=e.span_at(l))
        if rec != 1:
            inst.violation(e.path, "window entry", "expected exactly one WindowEntry construction in emit_packet (anchor), found %d" % rec)
        a = R.body(PS + "acknowledge")
        IDX = r"arg1\.window\[cast<usize>\(bitand\((arg1\.base_id,arg1\.window_mask|arg1\.window_mask,arg1\.base_id)\)\)\]"
        ws = list(a.field_writes(r"arg1\.alloc"))
        for l, node, ps in ws:
            v = show(a.rvalue_expr(node["rv"])) if node["k"] == "assign" else show(a.call_expr(node))
            inst.site(a, l, "alloc = " + v[:110])
            if not re.fullmatch(r"sub\(arg1\.alloc,(?:Option::unwrap\(%s\)|Option::unwrap\(Option::take\(%s\)\))\.alloc_size\)" % (IDX, IDX), v):
                inst.violation(a.path, "alloc refund", "acknowledge updates alloc by `%s`, expected alloc - (released entry).alloc_size" % v[:160], at=a.span_at(l))
        if len(ws) != 1:
            inst.violation(a.path, "alloc refund count", "acknowledge writes alloc at %d sites, expected one" % len(ws))
        # the refund and the release of the slot go together in the loop body
        rel = [l for l, node, ps in a.field_writes(IDX) if node["k"] == "assign" and show(a.rvalue_expr(node["rv"])) == "None{}"]
        for l in rel:
            inst.site(a, l, "window[base] = None")
        # `let entry = window[idx].take().unwrap()`: reading the entry and vacating the slot are one call
        takes = [l for l, t in a.calls("Option::take") if re.fullmatch(r"Option::take\(%s\)" % IDX, show(a.call_expr(t)))]
        for l in takes:
            inst.site(a, l, "window[base].take()")
        if takes and not rel:
            if ws:
                cx.preceded_by(inst, a, [(ws[0][0], "alloc refund")], takes, "refund without releasing the slot", "window[base & mask].take()")
                cx.followed_by(inst, a, [(l, "window[base].take()") for l in takes], [ws[0][0]], "slot released without refund", "alloc -= entry.alloc_size")
        else:
            if ws:
                cx.followed_by(inst, a, [(ws[0][0], "alloc refund")], rel, "refund without releasing the slot", "window[base & mask] = None")
            if rel and ws:
                cx.preceded_by(inst, a, [(l, "window[base] = None") for l in rel], [ws[0][0]], "slot released without refund", "alloc -= entry.alloc_size")
        for ob in R.all_bodies():
            if ob.path.startswith(PS) and ob.path not in (e.path, a.path):
                for l, node, ps in ob.field_writes(r"arg1\.alloc"):
                    inst.violation(ob.path, "write alloc", "PacketSender.alloc is written outside emit_packet/acknowledge", at=ob.span_at(l))


def inst_handshake_limits(cx, iid):
    R = cx.R
    with cx.instance(iid, "T1 GUARD + T4", "handshake refuses peers whose limits cannot work; tx limit from the peer, rx limit from own configuration", floor=3) as inst:
        b = R.body("server::Server::handle_handshake_syn")
        sinks = call_sites(b, "HashMap::insert", r"arg1\.clients")
        cx.guard(inst, b, sinks, [[r"le\(arg1\.config\.endpoint_config\.max_packet_size,cast<usize>\(arg3\.max_receive_alloc\)\)",
                                   r"le\(cast<usize>\(arg3\.max_packet_size\),arg1\.config\.endpoint_config\.max_receive_alloc\)"]],
                 construct="incompatible limits accepted", why="a packet larger than the peer's receive allocation could never be delivered")
        from props.C07 import config_literal
        for fn, peer in (("client::Client::handle_handshake_syn_ack", r"cast<usize>\(arg2\.max_receive_alloc\)"), ("server::Server::handle_handshake_ack", r"cast<usize>\(.*remote_max_receive_alloc\)")):
            bb = R.body(fn)
            loc, c = config_literal(bb)
            if not c:
                inst.violation(bb.path, "Config", "half_connection::Config literal not found (anchor)")
                continue
            inst.site(bb, loc, "tx_alloc_limit=%s rx_alloc_limit=%s" % (c["tx_alloc_limit"][-40:], c["rx_alloc_limit"][-40:]))
            if not re.fullmatch(peer, c["tx_alloc_limit"]) or c["rx_alloc_limit"] != "arg1.config.endpoint_config.max_receive_alloc":
                inst.violation(bb.path, "alloc limits", "tx_alloc_limit=%s rx_alloc_limit=%s; expected peer's max_receive_alloc / own max_receive_alloc" % (c["tx_alloc_limit"], c["rx_alloc_limit"]))
        # advertised values are the configured ones
        from props.shared import advertised_limits
        advertised_limits(cx, inst, ["max_receive_alloc", "max_packet_size"])


def inst_growth(cx, iid):
    R = cx.R
    with cx.instance(iid, "T1 + T3 GROWTH", "every growth call on a collection is guarded by a capacity fact or listed with its bounding argument", floor=45, exact_floor=False) as inst:
        for b in R.all_bodies():
            for loc, t in b.calls():
                sn = R.short(t.get("fn") or "")
                if sn not in GROWTH_CALLS or not t["args"]:
                    continue
                a0 = show(b.operand_expr(t["args"][0]))
                hit = None
                for frx, trx, reason, link in GROWTH_TABLE:
                    if re.fullmatch(frx, b.path) and re.fullmatch(trx, a0):
                        hit = (reason, link)
                        break
                construct = "%s(%s)" % (sn, re.sub(r"var\d+", "var", a0)[:60])
                rec = inst.site(b, loc, construct, {"reason": hit[0] if hit else None})
                if b.path == "half_connection::frame_ack_queue::FrameAckQueue::mark_seen" and a0 == "arg1.entries":
                    inst.violation(b.path, "VecDeque::push_back(entries)", "FrameAckQueue.entries grows by one group per accepted frame whose id is >= 32 past the last group's base, with no cap; it is drained only as fast as the rate-limited ack emitter sends", at=b.span_at(loc))
                    continue
                if hit is None:
                    inst.violation(b.path, construct, "growth of a collection that is neither capacity-guarded nor in the reviewed table", at=b.span_at(loc))
                    continue
                link = hit[1]
                if link == "framelog":
                    q = R.body("FrameQueue::push")
                    cx.guard(inst, q, call_sites(q, "FrameLog::push"), [[r"FrameQueue::can_push\(arg1\)"]], construct="FrameLog::push without can_push")
                    others = [ob.path for ob in R.all_bodies() if ob.path != q.path and call_sites(ob, "FrameLog::push")]
                    if others:
                        inst.violation(others[0], "FrameLog::push caller", "FrameLog::push is called outside FrameQueue::push")
                    cp = R.body("FrameQueue::can_push")
                    if show(cp.local_expr(0)) != "lt(u32::wrapping_sub(FrameQueue::next_id(arg1),arg1.window.base_id),arg1.window.size)":
                        inst.violation(cp.path, "can_push", "can_push is `%s`" % show(cp.local_expr(0)))
                elif link == "truncate9":
                    empty, _ = dnf_holds(cx.fa(b).at(loc), [[r"is\(VecDeque::front_mut\(arg1\.entries\),None\)"]])
                    if not empty:
                        tr = [l for l, tt in b.calls("VecDeque::truncate") if re.fullmatch(r"VecDeque::truncate\(arg1\.entries,\d+\)", show(b.call_expr(tt)))]
                        cx.followed_by(inst, b, [(loc, construct)], tr, "push_front without truncate", "entries.truncate(N)")
                elif link == "after_clear":
                    cx.preceded_by(inst, b, [(loc, construct)], call_locs(b, "Vec::clear", r"arg1\.entries"), "push without clear", "entries.clear()")
                elif link == "pending_empty":
                    cx.guard(inst, b, [(loc, construct)], [[r"eq\(0,VecDeque::len\(arg1\.pending_queue\)\)"]], construct="pending_queue grows while non-empty", checked_before=True)
                elif link == "events_taken":
                    owner = "server::Server::step" if b.path.startswith("server::") else "client::Client::step"
                    st = R.body(owner)
                    if not call_sites(st, "mem::take", r"arg1\.events_out"):
                        inst.violation(st.path, "mem::take(events_out)", "step() no longer drains events_out: the event vector grows without bound")
                elif link == "c17a":
                    cx.guard(inst, b, [(loc, construct)], [[r"lt\(HashMap::len\(arg1\.clients\),arg1\.config\.max_total_connections\)"]], construct="clients.insert without total-capacity guard")


def run(cx):
    inst_alloc_guard(cx, "C06.a")
    inst_release(cx, "C06.b")
    inst_sibling_accounting(cx, "C06.c")
    from props.C02 import inst_emit_guards
    inst_emit_guards(cx, "C06.d")
    inst_handshake_limits(cx, "C06.e")
    inst_growth(cx, "C06.f")
    inst_sender_alloc_pair(cx, "C06.g")
    # the reply to a sync frame tells the sender how far the receiver's packet window has moved: with the two bases
    # swapped the sender releases packets the receiver still holds and sends more than the receiver reserved
    from props.shared import emitter_wiring
    emitter_wiring(cx, "C06.o")
    # the receiver enforces the limit its side advertised (PacketReceiver::new hands it on unchanged)
    from props.shared import ctor_initial_state
    ctor_initial_state(cx, "C06.p")
    # the transfer window that bounds buffered data is tested through packet_id::sub: the id helpers' definitions are part of the bound
    from props.C01 import inst_id_arith
    inst_id_arith(cx, "C06.q")
    # a stored packet that can never be delivered (impossible parent leads) is released from the counter
    # when the window passes it but stays held in the delivery entries: the datagram validator's clauses
    from props.C03 import check_validators
    check_validators(cx, "C06.h")
    from props.shared import resync_walk
    resync_walk(cx, "C06.i")
    from props.shared import window_walks
    window_walks(cx, "C06.j")
    # the sender is bounded by the *peer's* limit and the receiver enforces its *own*
    from props.C07 import inst_config_mirror
    inst_config_mirror(cx, "C06.k")
    # the window must not pass a packet whose data is still held: its allocation is released there and the bytes are not
    from props.C03 import check_state_beliefs
    check_state_beliefs(cx, "C06.l")
    from props.shared import window_pass_guard
    window_pass_guard(cx, "C06.m")
    from props.C04 import inst_sizes
    inst_sizes(cx, "C06.n")


SELFTEST = [
    {"name": "sender refunds the payload size instead of the charged allocation",
     "edits": [{"file": "src/half_connection/packet_sender.rs", "old": "            self.alloc -= entry.alloc_size;", "new": "            self.alloc -= entry.packet.borrow().size();"}],
     "expect": ["C06.g"]},
    {"name": "remove the allocation test in PacketSender::emit_packet",
     "edits": [{"file": "src/half_connection/packet_sender.rs", "old": "            if self.alloc + packet_alloc_size > self.max_alloc {\n                return None;\n            }\n", "new": ""}],
     "expect": ["C06.d"]},
    {"name": "receiver counts single-fragment packets as a whole fragment",
     "edits": [{"file": "src/half_connection/packet_receiver/assembly_window/mod.rs", "old": "    } else {\n        datagram.data.len()\n    }", "new": "    } else {\n        datagram.data.len().max(1)\n    }"}],
     "expect": ["C06.c"]},
    {"name": "clear() forgets to subtract for Active entries",
     "edits": [{"file": "src/half_connection/packet_receiver/assembly_window/mod.rs", "old": "            WindowEntry::Active(ref entry) => {\n                self.alloc -= entry.alloc_size;\n            }", "new": "            WindowEntry::Active(ref _entry) => {\n            }"}],
     "expect": ["C06.b"]},
]
