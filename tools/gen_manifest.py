#!/usr/bin/env python3
"""Regenerates /verif/MANIFEST.json from the property modules under props/ (one check per module).
Properties without a module are listed under not_applicable with the reason recorded in NA below."""
import importlib, json, os, sys
VERIF = os.path.dirname(os.path.dirname(os.path.abspath(__file__)))
sys.path.insert(0, os.path.join(VERIF, "engine")); sys.path.insert(0, VERIF)

NA = {}  # property id -> reason, for properties deliberately not claimed

props = [json.loads(l)["id"] for l in open(os.path.join(VERIF, "properties.jsonl"))]
checks, na = [], []
for pid in props:
    if os.path.exists(os.path.join(VERIF, "props", pid + ".py")):
        m = importlib.import_module("props." + pid)
        checks.append({
            "property_id": pid,
            "quick_cmd": "./check %s quick" % pid,
            "thorough_cmd": "./check %s thorough" % pid,
            "evidence_file": "evidence/%s.json" % pid,
            "replay_cmd_template": "./check %s quick --replay {path}" % pid,
            "engine": "uflow-static",
            "level_claimed": {
                "category": getattr(m, "LEVEL", "other"),
                "text": m.SCOPE,
                "design_ref": "DESIGN.md §4 " + pid,
            },
            "level_note": getattr(m, "LEVEL_NOTE", "Trusted: rustc front end and MIR construction (nightly), the fact extractor and rule library in /verif/engine, std/rand contracts, and the instance tables fixed by reading the code. Decides necessary structural conditions of the property for every input/schedule; does not decide the behavioural remainder named in the text."),
            "technique": getattr(m, "TECHNIQUE", "static analysis: path rules over rustc MIR (guard dominance, pairing, who-may-write, shape/table/constant agreement)"),
        })
    else:
        na.append({"property_id": pid, "reason": NA.get(pid, "no static check is registered for this property in this revision (the clauses planned in DESIGN.md §4 are not implemented yet); nothing is claimed")})
man = {
    "version": 1,
    "setup_cmd": "cd engine/driver && cargo build --release --offline && cd ../crcproof && cargo build --release --offline",
    "hooks": {
        "guard": "uflow_verif",
        "enable": "none needed: the checks read /repo's source through a rustc_private driver (cargo +nightly check with RUSTC_WORKSPACE_WRAPPER); no hook code exists in /repo",
        "baseline_off_cmd": "cd /repo && cargo test --workspace --no-fail-fast --offline",
        "source_commits": [],
        "add_only": True,
    },
    "engines": [
        {"name": "uflow-static", "path": "engine/", "serves_properties": [c["property_id"] for c in checks],
         "kind_free_text": "rustc_private MIR fact extractor (engine/driver) + Python rule library (engine/mirlib.py, engine/rules.py) + per-property rule instances (props/)"},
    ],
    "checks": checks,
    "not_applicable": na,
    "notes": "Static analysis only. Every check extracts facts from /repo's current working tree on each run (hash-keyed cache under .cache/). Known findings: known_findings.json.",
}
json.dump(man, open(os.path.join(VERIF, "MANIFEST.json"), "w"), indent=1)
print("checks:", [c["property_id"] for c in checks], "n/a:", len(na))
