"""C13 — wire rate never exceeds the negotiated ceiling (DESIGN.md §4 C13)."""
import re
from mirlib import show, Loc, dnf_holds
from rules import call_sites, call_locs, acnf, rx_comm

SCOPE = ("Decides the leaky-bucket mechanism on every path: each of the three frame sends of a connection (sync "
         "frame, ack callback, data callback) and both emitters' finalize debit the flush credit by the length of "
         "the bytes sent; a new frame is started only with non-negative credit and a frame is extended only while "
         "credit covers its current size; the credit refill is min(credit + round(rate*dt), round(rate*rtt)); every "
         "write of the allowed send rate is followed, before the function returns, by the clamp to max_send_rate; the "
         "negotiated ceiling is min(own max_send_rate, peer max_receive_rate) at both ends. Not decided: the byte-rate "
         "inequality over time intervals (a numeric bound over time).")

HC = "half_connection::HalfConnection::"


def debit_after_send(cx, inst, b, sends, credit_rx, bytes_of):
    """each send is followed on all paths by credit = credit - len(<the bytes sent>)"""
    for loc, lab in sends:
        t = b.node_at(loc)
        sent = show(b.operand_expr(t["args"][bytes_of])) if bytes_of is not None else None
        deb = []
        for l2, node, ps in b.field_writes(credit_rx):
            e = show(b.rvalue_expr(node["rv"])) if node["k"] == "assign" else ""
            m = re.fullmatch(r"sub\((%s),cast<isize>\(\[T\]::len\((.*)\)\)\)" % credit_rx, e)
            if m and (sent is None or m.group(2) == sent or m.group(2) in sent):
                deb.append(l2)
        cx.followed_by(inst, b, [(loc, lab)], deb, "send without flush_alloc debit", "flush_alloc -= len(bytes sent)")


def inst_credit_refill(cx, iid):
    R = cx.R
    with cx.instance(iid, "T7 SHAPE", "fill_flush_alloc: flush_alloc = min(saturating_add(flush_alloc, round(rate*dt)), round(rate*rtt))", floor=1) as inst:
        b = R.body(HC + "fill_flush_alloc")
        ws = [(l, node) for l, node, ps in b.field_writes(r"arg1\.flush_alloc")]
        want = "Ord::min(f64::round(Option::unwrap_or(SendRateComp::rtt_s(arg1.send_rate_comp),0)*SendRateComp::send_rate(arg1.send_rate_comp)),isize::saturating_add(arg1.flush_alloc,f64::round(Duration::as_secs_f64(Instant::sub(arg2,arg1.time_last_flushed@Some.0))*SendRateComp::send_rate(arg1.send_rate_comp))))"
        for l, node in ws:
            from rules import canon_value
            got = acnf(canon_value(cx, b, b.rvalue_expr(node["rv"])))
            inst.site(b, l, "flush_alloc = " + got[:100])
            if got != want:
                inst.violation(b.path, "flush_alloc refill", "credit refill is `%s`, expected `%s`" % (got, want), at=b.span_at(l))
        if len(ws) != 1:
            inst.violation(b.path, "flush_alloc refill", "expected exactly one refill write, found %d" % len(ws))
        st = R.body(HC + "step")
        if not call_sites(st, "HalfConnection::fill_flush_alloc"):
            inst.violation(st.path, "fill_flush_alloc", "step() no longer refills the credit")



def run(cx):
    R = cx.R
    with cx.instance("C13.a", "T2 PAIR", "every FrameSink::send of a connection and both emitters' finalize debit flush_alloc by the length sent", floor=5) as inst:
        b = R.body(HC + "emit_sync_frame")
        s = call_sites(b, "FrameSink::send")
        if len(s) != 1:
            inst.violation(b.path, "FrameSink::send", "expected one sync-frame send, found %d" % len(s))
        debit_after_send(cx, inst, b, s, r"arg1\.flush_alloc", 1)
        for cl, nm in ((HC + "emit_ack_frames::{closure#0}", "ack"), (HC + "emit_data_frames::{closure#0}", "data")):
            c = R.body(cl)
            s = call_sites(c, "FrameSink::send")
            if len(s) != 1:
                inst.violation(c.path, "FrameSink::send", "expected one send in the %s callback, found %d" % (nm, len(s)))
            # the captured credit is one of the closure's upvars; it must be the parent's self.flush_alloc
            parent = R.body(c.fn["parent"])
            cap = None
            for loc, st in parent.assigns():
                if st["rv"]["k"] == "agg" and st["rv"].get("ak") == "closure" and st["rv"]["closure"] == c.path:
                    ops = [show(parent.operand_expr(o)) for o in st["rv"]["ops"]]
                    if "arg1.flush_alloc" in ops:
                        cap = ops.index("arg1.flush_alloc")
            if cap is None:
                inst.violation(c.path, "captured flush_alloc", "the %s callback does not capture self.flush_alloc" % nm)
                continue
            debit_after_send(cx, inst, c, s, r"arg1\.%d" % cap, 1)
        for fn in ("DataFrameEmitter::finalize", "AckFrameEmitter::finalize"):
            f = R.body(fn)
            s = call_sites(f, "FnMut::call_mut", r"arg1\.emit_cb")
            if len(s) != 1:
                inst.violation(f.path, "emit_cb", "expected one emit callback invocation in %s" % fn)
            # debit precedes or follows the callback with the same frame bytes
            for loc, lab in s:
                t = f.node_at(loc)
                sent = show(f.operand_expr(t["args"][1]))
                m = re.fullmatch(r"tuple\{(.*)\}", sent)
                sent = m.group(1) if m else sent
                deb = [l2 for l2, node, ps in f.field_writes(r"arg1\.flush_alloc")
                       if node["k"] == "assign" and show(f.rvalue_expr(node["rv"])) == "sub(arg1.flush_alloc,cast<isize>([T]::len(%s)))" % sent]
                inst.site(f, loc, "emit_cb(frame) with private credit debit", {"debits": len(deb)})
                if not deb or (f.reach_from_entry_avoiding(loc, deb) is not None and f.reach_exit_avoiding(loc, deb) is not None):
                    inst.violation(f.path, "emit without private debit", "%s emits a frame without debiting the emitter's flush_alloc by its length" % fn, at=f.span_at(loc))
        # who-may-send: FrameSink::send only at these three sites within half_connection
        n = 0
        for ob in R.all_bodies():
            if ob.path.startswith("half_connection::"):
                for loc, lab in call_sites(ob, "FrameSink::send"):
                    n += 1
                    if ob.path not in (HC + "emit_sync_frame", HC + "emit_ack_frames::{closure#0}", HC + "emit_data_frames::{closure#0}"):
                        inst.violation(ob.path, "FrameSink::send", "a frame is sent from a site that is not paired with a credit debit", at=ob.span_at(loc))

    with cx.instance("C13.b", "T1 GUARD", "a new frame needs non-negative credit; extending a frame needs credit covering its current size", floor=4) as inst:
        b = R.body(HC + "emit_sync_frame")
        cx.guard(inst, b, call_sites(b, "FrameSink::send"), [[r"le\(0,arg1\.flush_alloc\)"]], construct="sync send without credit")
        pd = R.body("AckFrameEmitter::push_dud")
        cx.guard(inst, pd, call_sites(pd, "AckFrameBuilder::new"), [[r"le\(0,arg1\.flush_alloc\)"]], construct="push_dud new frame without credit")
        ap = R.body("AckFrameEmitter::push")
        cx.guard(inst, ap, call_sites(ap, "AckFrameBuilder::new"), [[r"le\(0,arg1\.flush_alloc\)"]], construct="ack new frame without credit")
        cx.guard(inst, ap, call_sites(ap, "AckFrameBuilder::add", r"arg1\.in_progress_frame"),
                 [[r"le\(0,sub\(arg1\.flush_alloc,cast<isize>\(AckFrameBuilder::size\(arg1\.in_progress_frame@Some\.0\)\)\)\)"]], construct="ack frame extended without credit")
        dp = R.body("DataFrameEmitter::push")
        cx.guard(inst, dp, call_sites(dp, "DataFrameBuilder::new"), [[r"le\(0,arg1\.flush_alloc\)"]], construct="data new frame without credit")
        cx.guard(inst, dp, call_sites(dp, "DataFrameBuilder::add", r"arg1\.in_progress_frame"),
                 [[r"le\(0,sub\(arg1\.flush_alloc,cast<isize>\(DataFrameBuilder::size\(arg1\.in_progress_frame@Some\.0\.fbuilder\)\)\)\)"]], construct="data frame extended without credit")
        # the emitters are created from the connection's credit
        for fn, ctor in ((HC + "emit_data_frames", "DataFrameEmitter::new"), (HC + "emit_ack_frames", "AckFrameEmitter::new")):
            eb = R.body(fn)
            for loc, lab in call_sites(eb, ctor):
                inst.site(eb, loc, ctor)
                t = eb.node_at(loc)
                idx = 2 if ctor.startswith("Data") else 2
                # the credit operand: (frame_window_base, packet_window_base, credit, cb) / (now, frame_queue, credit, cb)
                op = t["args"][2]
                cur = show(eb.operand_expr(op))
                fresh = cur == "arg1.flush_alloc"
                if not fresh and re.fullmatch(r"arg\d+", cur):
                    # handed in by the caller: it must be read from self.flush_alloc *after* the preceding emitter ran
                    # (one snapshot shared by the ack and the data emitter lets a flush spend its credit twice)
                    argn = int(cur[3:])
                    ef = R.body(HC + "emit_frames")
                    fresh = True
                    ncalls = 0
                    for cl, ct in ef.calls(fn.split("::")[-1] if False else "HalfConnection::" + fn.split("::")[-1]):
                        ncalls += 1
                        a = ct["args"][argn - 1]
                        if show(ef.operand_expr(a)) != "arg1.flush_alloc" or a["k"] not in ("copy", "move"):
                            fresh = False
                            continue
                        l0 = a["pl"]["l"]
                        # chase plain copies back to the statement that actually reads the field
                        hops = 0
                        while hops < 8 and ef.is_single_def(l0):
                            dl0, dk0, dn0 = ef.defs[l0][0]
                            rv0 = dn0.get("rv", {}) if dk0 == "assign" else {}
                            if rv0.get("k") == "use" and rv0["op"]["k"] in ("copy", "move") and not rv0["op"]["pl"]["p"]:
                                l0 = rv0["op"]["pl"]["l"]
                                hops += 1
                            else:
                                break
                        defs = ef.defs.get(l0, [])
                        prev = [pl for pl, pt in ef.calls("re:HalfConnection::emit_(ack|data)_frames$") if ef.reach_from_entry_avoiding(cl, [pl]) is None and pl != cl]
                        for dl, dk, dn in defs:
                            for pl in prev:
                                if ef.reach_from_entry_avoiding(dl, [pl]) is not None:
                                    fresh = False
                    if ncalls == 0:
                        fresh = False
                if not fresh:
                    inst.violation(eb.path, ctor, "%s is not given the connection's current flush_alloc (read after the preceding emitter has spent its share)" % ctor, at=eb.span_at(loc))

    inst_credit_refill(cx, "C13.c")
    with cx.instance("C13.e", "T3 WHO-MAY", "the flush credit is only ever refilled by fill_flush_alloc, debited by the length sent, or handed over by an emitter", floor=4) as inst:
        ok_forms = [
            r"sub\(arg1\.flush_alloc,cast<isize>\(\[T\]::len\(.*\)\)\)",
            r"Ord::min\(.*isize::saturating_add\(arg1\.flush_alloc,.*\)",
            r"Ord::min\(f64::round.*",
        ]
        for b in R.all_bodies():
            if not b.path.startswith("half_connection::"):
                continue
            for l, node, ps in b.field_writes(r"arg1\.flush_alloc"):
                from rules import canon_value
                v = show(canon_value(cx, b, b.rvalue_expr(node["rv"]) if node["k"] == "assign" else b.call_expr(node)))
                inst.site(b, l, "%s: flush_alloc = %s" % (b.path.split("::")[-1], v[:70]))
                if b.path.endswith("::new"):
                    continue
                if not any(re.fullmatch(rx, v) for rx in ok_forms):
                    inst.violation(b.path, "flush_alloc write", "the flush credit is set to `%s`: only the rate-limited refill and debits by the bytes sent may change it" % v[:120], at=b.span_at(l))
            for l, s2 in b.assigns():
                rv = s2["rv"]
                if rv["k"] == "agg" and rv.get("adt", "").endswith("half_connection::HalfConnection"):
                    v = show(b.operand_expr(rv["ops"][rv["fields"].index("flush_alloc")]))
                    inst.site(b, l, "HalfConnection::new: flush_alloc = " + v)
                    if v not in ("cast<isize>(MAX_FRAME_SIZE)", "0"):
                        inst.violation(b.path, "initial flush_alloc", "a new connection starts with flush credit `%s` (more than one frame)" % v, at=b.span_at(l))

    ceiling_clamp(cx, "C13.d")
    # the refill interval restarts at every refill (a refill time that is not recorded on every path makes
    # each step refill for the whole time since the first one)
    from props.shared import half_connection_clock
    half_connection_clock(cx, "C13.f")
    # the one rate value that never passes the ceiling clamp is the initial one
    from props.C14 import inst_recv_set
    inst_recv_set(cx, "C13.g")
    # the ceiling is min(own max_send_rate, the peer's advertised max_receive_rate): the value stored at SYN time
    # is the rate field, not another limit
    from props.C07 import inst_config_mirror
    inst_config_mirror(cx, "C13.h")


def ceiling_clamp(cx, iid):
    R = cx.R
    with cx.instance(iid, "T2 PAIR + T4", "every write of SendRateComp.send_rate is followed before return by min(send_rate, max_send_rate); ceiling = min(own max_send_rate, peer max_receive_rate)", floor=8) as inst:
        n = 0
        for b in R.all_bodies():
            if "send_rate::SendRateComp::" not in b.path or b.path.endswith("::new"):
                continue
            ws = [(l, node) for l, node, ps in b.field_writes(r"arg1\.send_rate")]
            if not ws:
                continue
            clamps = [l for l, node in ws if node["k"] == "assign" and show(b.rvalue_expr(node["rv"])) == "Ord::min(arg1.max_send_rate,arg1.send_rate)" or
                      (node["k"] == "assign" and show(b.rvalue_expr(node["rv"])) == "Ord::min(arg1.send_rate,arg1.max_send_rate)")]
            for l, node in ws:
                if l in clamps:
                    inst.site(b, l, "clamp send_rate = min(send_rate, max_send_rate)")
                    continue
                n += 1
                cx.followed_by(inst, b, [(l, "send_rate = " + show(b.rvalue_expr(node["rv"]))[:70])], clamps, "send_rate write without ceiling clamp", "send_rate = min(send_rate, max_send_rate)")
        if n < 4:
            inst.violation("half_connection::send_rate::SendRateComp", "send_rate writes", "fewer send_rate writes found than counted by hand (anchor)")
        # constructor: initial rate below ceiling is not required by the property (ceilings >= one frame/s)
        for fn, peer in (("client::Client::handle_handshake_syn_ack", r"arg2\.max_receive_rate"), ("server::Server::handle_handshake_ack", r"[\w.@\[\]():,]*remote_max_receive_rate")):
            b = R.body(fn)
            hit = False
            for loc, s in b.assigns():
                rv = s["rv"]
                if rv["k"] == "agg" and rv.get("adt", "").endswith("half_connection::Config"):
                    hit = True
                    e = show(b.operand_expr(rv["ops"][rv["fields"].index("tx_bandwidth_limit")]))
                    inst.site(b, loc, "tx_bandwidth_limit = " + e[:90])
                    # min(saturate_u32(own max_send_rate), peer max_receive_rate): the configured value is a usize and must be
                    # saturated, not wrapped, on its way into the 32-bit rate domain (F18: 2^32 B/s became 0)
                    from props.shared import saturated_u32_of, _split_top
                    okc = False
                    mmin = re.fullmatch(r"Ord::min\((.*)\)", e)
                    if mmin:
                        ops_ = _split_top(mmin.group(1))
                        if len(ops_) == 2:
                            for own_, peer_ in ((ops_[0], ops_[1]), (ops_[1], ops_[0])):
                                if re.fullmatch(peer, peer_) and saturated_u32_of(own_) == "arg1.config.endpoint_config.max_send_rate":
                                    okc = True
                                if re.fullmatch(peer, peer_) and own_ == "cast<u32>(arg1.config.endpoint_config.max_send_rate)":
                                    inst.violation(b.path, "tx_bandwidth_limit wraps", "the configured ceiling enters the negotiated one as `%s`: a wrapping cast (2^32 B/s becomes 0); the sibling limits are saturated" % own_, at=b.span_at(loc))
                                    okc = True
                    if not okc:
                        inst.violation(b.path, "tx_bandwidth_limit", "negotiated ceiling is `%s`, expected min(own max_send_rate saturated to u32, peer max_receive_rate)" % e, at=b.span_at(loc))
            if not hit:
                inst.violation(b.path, "half_connection::Config", "Config literal not found (anchor)")
        # ... and the peer's max_receive_rate is what the peer configured
        from props.shared import advertised_limits
        advertised_limits(cx, inst, ["max_receive_rate"])
        hn = R.body("half_connection::HalfConnection::new")
        ok = any("arg1.tx_bandwidth_limit" in show(hn.call_expr(t)) for l, t in hn.calls("SendRateComp::new"))
        inst.site(hn, None, "SendRateComp::new(config.tx_bandwidth_limit)")
        if not ok:
            inst.violation(hn.path, "SendRateComp::new", "the send-rate computer is not constructed with the negotiated ceiling")
        sn = R.body("SendRateComp::new")
        ok = False
        for loc, s in sn.assigns():
            rv = s["rv"]
            if rv["k"] == "agg" and rv.get("adt", "").endswith("SendRateComp"):
                ok = show(sn.operand_expr(rv["ops"][rv["fields"].index("max_send_rate")])) == "arg1"
        if not ok:
            inst.violation(sn.path, "max_send_rate", "SendRateComp::new does not store its argument as max_send_rate")
    # the ceiling is computed from the endpoint's stored config: it must be the application's
    from props.shared import config_verbatim
    config_verbatim(cx, "C13.i")
    from props.shared import ctor_initial_state
    ctor_initial_state(cx, "C13.j")
    # the emitters' private copy of the credit is the connection's credit, deficit included
    from props.shared import emitter_wiring
    emitter_wiring(cx, "C13.k")
    # the burst allowance is rate x RTT estimate: the estimate is the 0.9 / 0.1 filter of the samples
    from props.C14 import rtt_filter_shape
    rtt_filter_shape(cx, "C13.l")
    # the bucket is refilled from SendRateComp::send_rate(): the accessor must report the clamped field, not a re-floored value
    with cx.instance("C13.m", "E2 IDENTITY", "SendRateComp::send_rate() returns the stored (clamped) rate unchanged", floor=1) as inst:
        ab = cx.R.body("SendRateComp::send_rate")
        ae = show(ab.local_expr(0))
        inst.site(ab, None, "send_rate() = " + ae[:120])
        if not re.fullmatch(r"cast<f64>\(arg1\.send_rate\)", ae):
            inst.violation(ab.path, "rate accessor", "send_rate() returns `%s`; expected the stored rate (every write of the field is clamped to the ceiling; a value computed here is not)" % ae[:200])


SELFTEST = [
    {"name": "send_rate() accessor re-floors the clamped rate (C13k-1)",
     "edits": [{"file": "src/half_connection/send_rate.rs", "old": "        self.send_rate as f64\n", "new": "        self.send_rate.max(INITIAL_TCP_WINDOW) as f64\n"}],
     "expect": ["C13.m"]},
    {"name": "F18 re-introduced: the configured ceiling narrowed with a wrapping cast",
     "edits": [{"file": "src/client/mod.rs", "old": "(self.config.endpoint_config.max_send_rate.min(u32::MAX as usize) as u32).min(frame.max_receive_rate)", "new": "(self.config.endpoint_config.max_send_rate as u32).min(frame.max_receive_rate)"}],
     "expect": ["C13.d"]},
    {"name": "refill time recorded only on the first refill",
     "edits": [{"file": "src/half_connection/mod.rs", "old": "        }\n        self.time_last_flushed = Some(now);", "new": "        } else {\n            self.time_last_flushed = Some(now);\n        }"}],
     "expect": ["C13.f"]},
    {"name": "advertise u32::MAX as max_receive_rate (client)",
     "edits": [{"file": "src/client/mod.rs", "old": "                .max_receive_rate\n                .min(u32::MAX as usize) as u32,", "new": "                .max_receive_rate\n                .max(u32::MAX as usize) as u32,"}],
     "expect": ["C13.d"]},
    {"name": "drop the flush_alloc debit after sending the sync frame",
     "edits": [{"file": "src/half_connection/mod.rs", "old": "            self.flush_alloc -= frame_bytes.len() as isize;\n            self.sync_timeout_base_ms = now_ms;", "new": "            self.sync_timeout_base_ms = now_ms;"}],
     "expect": ["C13.a"]},
    {"name": "remove the ceiling clamp from nofeedback_expired (F10 reintroduced)",
     "edits": [{"file": "src/half_connection/send_rate.rs", "old": "        self.send_rate = self.send_rate.min(self.max_send_rate);\n\n        // Compute RTO", "new": "        // Compute RTO"}],
     "expect": ["C13.d"]},
]
