"""E1 core: CFG, dominators, loops, call graph, expression normaliser, established-facts analysis.

Everything works on the JSON fact base written by the rustc_private driver (resolved callees,
field names, evaluated constants).  Local variable names never appear in any normalised form.
"""
import json
import os
import re
import sys
from collections import defaultdict, deque

sys.setrecursionlimit(10000)

# ---------------------------------------------------------------------------------------------
# names


def _strip_generics(s):
    out = []
    depth = 0
    i = 0
    while i < len(s):
        c = s[i]
        if c == "<":
            depth += 1
        elif c == ">":
            depth -= 1
        elif depth == 0:
            out.append(c)
        i += 1
    return "".join(out)


def _top_split(s, sep):
    """split s on sep at angle-bracket depth 0"""
    parts = []
    depth = 0
    cur = []
    i = 0
    while i < len(s):
        if s[i] == "<":
            depth += 1
        elif s[i] == ">" and (i == 0 or s[i - 1] != "-"):
            depth -= 1
        if depth == 0 and s.startswith(sep, i):
            parts.append("".join(cur))
            cur = []
            i += len(sep)
            continue
        cur.append(s[i])
        i += 1
    parts.append("".join(cur))
    return parts


def short_type(t):
    t = t.strip()
    while t.startswith("&"):
        t = t[1:].strip()
        if t.startswith("'"):
            t = t.split(" ", 1)[1] if " " in t else t
        if t.startswith("mut "):
            t = t[4:]
    if t.startswith("[") or t.startswith("("):
        return t
    base = _strip_generics(t)
    return base.split("::")[-1]


def short_fn(path):
    """`std::collections::VecDeque::<T, A>::front` -> `VecDeque::front`;
    `<std::cell::RefMut<'_, T> as std::ops::Deref>::deref` -> `RefMut::deref`;
    `core::num::<impl u32>::wrapping_add` -> `u32::wrapping_add`."""
    p = path
    if p.startswith("<"):
        # <T as Trait>::method
        depth = 0
        end = None
        for i, c in enumerate(p):
            if c == "<":
                depth += 1
            elif c == ">" and p[i - 1] != "-":
                depth -= 1
                if depth == 0:
                    end = i
                    break
        inner = p[1:end]
        rest = p[end + 1 :]
        parts = _top_split(inner, " as ")
        ty = short_type(parts[0])
        meth = rest.split("::")[-1]
        return ty + "::" + meth
    m = re.search(r"<impl (.*)>::([A-Za-z0-9_]+)$", p)
    if m:
        inner = m.group(1)
        if " for " in inner:
            ty = _top_split(inner, " for ")[-1]
        else:
            ty = inner
        return short_type(ty) + "::" + m.group(2)
    base = _strip_generics(p)
    segs = [s for s in base.split("::") if s]
    return "::".join(segs[-2:])


TRANSPARENT_CALLS = {
    "Deref::deref",
    "DerefMut::deref_mut",
    "Ref::deref",
    "RefMut::deref",
    "RefMut::deref_mut",
    "Rc::deref",
    "Vec::deref",
    "Vec::deref_mut",
    "Box::deref",
    "Option::as_ref",
    "Option::as_mut",
    "Vec::as_slice",
    "u8::clone",
    "u16::clone",
    "u32::clone",
    "u64::clone",
    "usize::clone",
    "bool::clone",
    "f64::clone",
    "T::into",
    "Into::into",
    "u32::from",
}

COMMUTATIVE = {"Add", "Mul", "BitAnd", "BitOr", "BitXor", "Eq", "Ne"}
COMM_CALLS = {"Ord::min", "Ord::max", "f64::max", "f64::min", "u32::wrapping_add", "u32::saturating_add", "u32::saturating_mul"}

# ---------------------------------------------------------------------------------------------
# expressions: nested tuples
#   ('arg', n) ('var', n) ('rec', n)
#   ('proj', base, (elem, ...))     elem: field name | '@Variant' | ('[]', idxexpr) | '[c<k>]' ...
#   ('const', valuestr, ty, item|None)
#   ('fnitem', path)
#   ('call', shortname, (args...))
#   ('bin', op, a, b) ('un', op, a) ('cast', ty, a)
#   ('agg', label, (ops...))
#   ('discr', e)
#   ('other', text)


_NUM_TYPES = ("u8", "u16", "u32", "u64", "u128", "usize", "i8", "i16", "i32", "i64", "i128", "isize", "f32", "f64")
_NUM_FROM = re.compile(r"(u8|u16|u32|u64|u128|usize|i8|i16|i32|i64|i128|isize|f32|f64)::from")


_BOOL_LOCAL_RX = re.compile(r"!?var\d+")
_WIDENING = set()   # cast expressions known to be unsigned widenings (value-preserving, commute with /c %c &c >>c)
_UW = {"u8": 8, "u16": 16, "u32": 32, "u64": 64, "usize": 64, "u128": 128}


def _is_widening(frm, to):
    return frm in _UW and to in _UW and _UW[frm] <= _UW[to]


def _mk_cast(frm, to, inner):
    """cast expression in canonical position: an unsigned widening cast commutes with /c, %c, &c, >>c and is moved onto
    the operand  ((x / 64) as usize  ==  (x as usize) / 64), so that both spellings normalise to the same expression"""
    if _is_widening(frm, to) and inner[0] == "bin" and inner[1] in ("Div", "Rem", "BitAnd", "Shr") and inner[3][0] == "const":
        return ("bin", inner[1], _mk_cast(frm, to, inner[2]), inner[3])
    return ("cast", to, inner)


def _small_value(e):
    """expression whose value is < 256 by construction: x % C or x & C with a small constant C"""
    if e[0] == "bin" and e[1] in ("Rem", "BitAnd"):
        for c in (e[2], e[3]) if e[1] == "BitAnd" else (e[3],):
            if c[0] == "const":
                try:
                    if 0 < int(str(c[1])) <= 256:
                        return True
                except ValueError:
                    pass
    if e[0] == "cast":
        return _small_value(e[2])
    return False


def show(e):
    k = e[0]
    if k == "arg":
        return "arg%d" % e[1]
    if k == "var":
        return "var%d" % e[1]
    if k == "rec":
        return "rec%d" % e[1]
    if k == "proj":
        s = show(e[1])
        for el in e[2]:
            if isinstance(el, tuple):
                s += "[" + show(el[1]) + "]"
            elif el.startswith("@") or el.startswith("["):
                s += el
            else:
                s += "." + el
        return s
    if k == "const":
        if e[3]:
            return e[3].split("::")[-1] if False else e[3]
        return str(e[1])
    if k == "fnitem":
        return "fn:" + e[1]
    if k == "call":
        return e[1] + "(" + ",".join(show(a) for a in e[2]) + ")"
    if k == "bin":
        a, b = show(e[2]), show(e[3])
        if e[1] in COMMUTATIVE and b < a:
            a, b = b, a
        return e[1].lower() + "(" + a + "," + b + ")"
    if k == "un":
        return e[1].lower() + "(" + show(e[2]) + ")"
    if k == "cast":
        return "cast<" + e[1] + ">(" + show(e[2]) + ")"
    if k == "agg":
        return e[1] + "{" + ",".join(show(a) for a in e[2]) + "}"
    if k == "discr":
        return "discr(" + show(e[1]) + ")"
    if k == "other":
        return "other<" + e[1] + ">"
    return repr(e)


def places_of(e, acc=None):
    """set of place keys (strings) an expression mentions: arg/var roots with their field path"""
    if acc is None:
        acc = set()
    k = e[0]
    if k in ("arg", "var"):
        acc.add(show(e))
    elif k == "proj":
        base = e[1]
        if base[0] in ("arg", "var"):
            # record the full path and keep index expressions
            path = show(base)
            for el in e[2]:
                if isinstance(el, tuple):
                    places_of(el[1], acc)
                    path += "[]"
                elif el.startswith("@") or el.startswith("["):
                    path += el
                else:
                    path += "." + el
            acc.add(path)
        else:
            places_of(base, acc)
            for el in e[2]:
                if isinstance(el, tuple):
                    places_of(el[1], acc)
    elif k == "call" or k == "agg":
        for a in e[2]:
            places_of(a, acc)
    elif k == "bin":
        places_of(e[2], acc)
        places_of(e[3], acc)
    elif k in ("un", "cast"):
        places_of(e[2], acc)
    elif k == "discr":
        places_of(e[1], acc)
    return acc


def assigned_key(pe):
    """place key written by an assignment to place expression pe: the path itself; index
    sub-expressions are read, not written"""
    if pe[0] in ("arg", "var"):
        return [show(pe)]
    if pe[0] == "proj" and pe[1][0] in ("arg", "var"):
        path = show(pe[1])
        for el in pe[2]:
            if isinstance(el, tuple):
                path += "[]"
            elif el.startswith("@") or el.startswith("["):
                path += el
            else:
                path += "." + el
        return [path]
    return []


def _norm_path(p):
    # key used for overlap tests: strip downcasts
    return re.sub(r"@[A-Za-z0-9_]+", "", p)


def places_overlap(p, q):
    """does an assignment to place p invalidate a fact that mentions place q?  Yes when q is p or
    lies inside p.  A fact that mentions a whole object (`pred(arg1, x)`, the check-then-act idiom
    `if self.can_x(id) { self.field = .. }`) is *not* invalidated by a write to one of its fields."""
    p = _norm_path(p)
    q = _norm_path(q)
    if p == q:
        return True
    return q.startswith(p + ".") or q.startswith(p + "[")


# ---------------------------------------------------------------------------------------------


class Loc:
    __slots__ = ("bb", "idx")

    def __init__(self, bb, idx):
        self.bb = bb
        self.idx = idx  # statement index; len(stmts) == terminator

    def __repr__(self):
        return "bb%d[%d]" % (self.bb, self.idx)

    def __eq__(self, o):
        return self.bb == o.bb and self.idx == o.idx

    def __hash__(self):
        return hash((self.bb, self.idx))


def sp_str(sp):
    if not sp:
        return "?"
    s = "%s:%s" % (sp.get("f"), sp.get("l"))
    return s


class Body:
    def __init__(self, fn, facts):
        self.fn = fn
        self.facts = facts
        self.path = fn["path"]
        b = fn["body"]
        self.blocks = b["blocks"]
        self.locals = b["locals"]
        self.argc = b["argc"]
        self.dbg = b["dbg"]
        self.n = len(self.blocks)
        self._build_cfg()
        self._build_defs()
        self._expr_cache = {}
        self._dom = None
        self._capture_map = None

    # -- CFG -----------------------------------------------------------------------------------
    def _build_cfg(self):
        self.succ = [[] for _ in range(self.n)]  # (target, label)
        self.pred = [[] for _ in range(self.n)]
        # locals assigned exactly once, by a literal constant (e.g. `cfg!(debug_assertions)`)
        nassign = defaultdict(int)
        cval = {}
        for blk in self.blocks:
            for s in blk["stmts"]:
                if s["k"] == "assign" and not s["pl"]["p"]:
                    nassign[s["pl"]["l"]] += 1
                    rv = s["rv"]
                    if rv["k"] == "use" and rv["op"]["k"] == "const" and "bits" in rv["op"] and "item" not in rv["op"] and "static" not in rv["op"]:
                        cval[s["pl"]["l"]] = rv["op"]["bits"]
            t = blk["term"]
            if t["k"] == "call" and not t["dest"]["p"]:
                nassign[t["dest"]["l"]] += 2
        const_local = {l: v for l, v in cval.items() if nassign[l] == 1}
        for i, blk in enumerate(self.blocks):
            t = blk["term"]
            k = t["k"]
            edges = []
            if k == "goto":
                edges.append((t["target"], ("goto",)))
            elif k == "switch":
                op = t["op"]
                if op["k"] in ("copy", "move") and not op["pl"]["p"] and op["pl"]["l"] in const_local:
                    op = {"k": "const", "bits": const_local[op["pl"]["l"]]}
                if op["k"] == "const" and "bits" in op and "item" not in op:
                    # constant condition (cfg!(debug_assertions) in `debug_assert!`): only the
                    # matching edge is feasible, so compiled-out material is never a guard
                    hit = [tgt for v, tgt in t["targets"] if v == op["bits"]]
                    if hit:
                        edges.append((hit[0], ("sw", op["bits"])))
                    else:
                        edges.append((t["otherwise"], ("sw", "otherwise")))
                else:
                    for v, tgt in t["targets"]:
                        edges.append((tgt, ("sw", v)))
                    edges.append((t["otherwise"], ("sw", "otherwise")))
            elif k in ("call", "drop", "assert"):
                if t.get("target") is not None:
                    edges.append((t["target"], ("ret",)))
                # unwind edges are not followed: a panic is not a way to reach anything
            elif k == "other":
                # e.g. Yield / InlineAsm / TailCall: none expected
                pass
            self.succ[i] = edges
            for tgt, lab in edges:
                self.pred[tgt].append((i, lab))
        # reachable (non-cleanup) blocks from entry
        seen = {0}
        dq = deque([0])
        while dq:
            x = dq.popleft()
            for y, _ in self.succ[x]:
                if y not in seen:
                    seen.add(y)
                    dq.append(y)
        self.reachable = seen

    def term(self, bb):
        return self.blocks[bb]["term"]

    def stmts(self, bb):
        return self.blocks[bb]["stmts"]

    def is_return(self, bb):
        return self.term(bb)["k"] == "return"

    def is_diverging(self, bb):
        t = self.term(bb)
        if t["k"] in ("unreachable", "resume", "terminate"):
            return True
        if t["k"] == "call" and t.get("target") is None:
            return True
        return False

    # -- definitions -----------------------------------------------------------------------------
    def _build_defs(self):
        self.defs = defaultdict(list)  # local -> [(Loc, 'assign'|'call', node)]
        self.partial = defaultdict(list)
        self.mutref = set()  # locals whose address is taken mutably (then written through?)
        for bb in range(self.n):
            if bb not in self.reachable:
                continue
            blk = self.blocks[bb]
            for i, s in enumerate(blk["stmts"]):
                if s["k"] == "assign":
                    pl = s["pl"]
                    if not pl["p"]:
                        self.defs[pl["l"]].append((Loc(bb, i), "assign", s))
                    elif pl["p"][0] != "*":
                        # a write through a reference (`(*_5).x = ..`) changes the pointee, not _5
                        self.partial[pl["l"]].append((Loc(bb, i), "assign", s))
                    rv = s["rv"]
                    if rv["k"] in ("ref", "rawptr") and rv.get("mut") and not rv["pl"]["p"]:
                        self.mutref.add(rv["pl"]["l"])
                elif s["k"] == "setdiscr" and (not s["pl"]["p"] or s["pl"]["p"][0] != "*"):
                    self.partial[s["pl"]["l"]].append((Loc(bb, i), "setdiscr", s))
            t = blk["term"]
            if t["k"] == "call":
                pl = t["dest"]
                if not pl["p"]:
                    self.defs[pl["l"]].append((Loc(bb, len(blk["stmts"])), "call", t))
                elif pl["p"][0] != "*":
                    self.partial[pl["l"]].append((Loc(bb, len(blk["stmts"])), "call", t))

    def is_single_def(self, l):
        d = self.defs.get(l, [])
        if l >= 1 and l <= self.argc:
            return False
        # a local whose address is taken mutably may be written through the reference:
        # treat it as a variable unless it is itself a reference-typed temp
        if len(d) == 1 and not self.partial.get(l):
            if l in self.mutref and not self.locals[l]["ty"].startswith("&"):
                return False
            return True
        return False

    # -- expressions -----------------------------------------------------------------------------
    def local_expr(self, l, stack=()):
        if l >= 1 and l <= self.argc and not self.defs.get(l) :
            return ("arg", l)
        if self.is_single_def(l):
            if l in stack:
                return ("rec", l)
            key = l
            if key in self._expr_cache:
                return self._expr_cache[key]
            loc, kind, node = self.defs[l][0]
            st = stack + (l,)
            if kind == "assign":
                e = self.rvalue_expr(node["rv"], st)
            else:
                e = self.call_expr(node, st)
            if not stack:
                self._expr_cache[key] = e
            return e
        return ("var", l)

    def apply_proj(self, base, projs, stack=()):
        elems = []
        for p in projs:
            if p == "*":
                continue
            if isinstance(p, str):
                elems.append("<" + p + ">")
                continue
            if "f" in p:
                elems.append(p["f"])
            elif "dc" in p:
                elems.append("@" + p["dc"])
            elif "idx" in p:
                elems.append(("[]", self.local_expr(p["idx"], stack)))
            elif "cidx" in p:
                elems.append("[c%s%s]" % ("-" if p["from_end"] else "", p["cidx"]))
            elif "sub" in p:
                elems.append("[sub%s%s]" % (p["sub"], "e" if p["from_end"] else ""))
        if not elems:
            return base
        # AddWithOverflow(a,b).0 == add(a,b)
        if base[0] == "bin" and base[1].endswith("WithOverflow") and elems[0] == "0":
            base = ("bin", base[1][: -len("WithOverflow")], base[2], base[3])
            elems = elems[1:]
            if not elems:
                return base
        # x.checked_sub(c) matched as Some(v): v == x - c (no wrap on that edge)
        if base[0] == "call" and re.fullmatch(r"(u8|u16|u32|u64|usize)::checked_(sub|add)", base[1]) and len(base[2]) == 2 and len(elems) >= 2 and elems[0] == "@Some" and elems[1] == "0":
            base = ("bin", "Sub" if base[1].endswith("sub") else "Add", base[2][0], base[2][1])
            elems = elems[2:]
            if not elems:
                return base
        # field of an aggregate literal built in this body: pick the operand
        if base[0] == "agg" and isinstance(elems[0], str) and not elems[0].startswith("@"):
            names = base[3] if len(base) > 3 else None
            if names and elems[0] in names:
                sub = base[2][names.index(elems[0])]
                return self._mk_proj(sub, elems[1:])
            if elems[0].isdigit() and int(elems[0]) < len(base[2]) and base[1] in ("tuple",):
                sub = base[2][int(elems[0])]
                return self._mk_proj(sub, elems[1:])
        return self._mk_proj(base, elems)

    def _mk_proj(self, base, elems):
        if not elems:
            return base
        # `let r = match s { A(ref mut x) => Some(x), _ => None }; if let Some(x) = r { x.f = … }`: the payload of a
        # multi-definition Option local that is Some(X) at exactly one definition (None at the others) is X
        if base[0] == "var" and len(elems) >= 2 and elems[0] == "@Some" and elems[1] == "0" and not getattr(self, "_in_optmerge", False):
            payloads, other = [], False
            self._in_optmerge = True
            try:
                for loc, kind, node in self.defs.get(base[1], []):
                    if kind != "assign":
                        other = True
                        continue
                    try:
                        de = self.rvalue_expr(node["rv"])
                    except RecursionError:
                        other = True
                        continue
                    if de[0] == "agg" and de[1] == "Some" and len(de[2]) == 1:
                        payloads.append(de[2][0])
                    elif de[0] == "agg" and de[1] == "None":
                        pass
                    else:
                        other = True
            finally:
                self._in_optmerge = False
            if not other and len(payloads) == 1 and not _mentions_var(payloads[0]):
                return self._mk_proj(payloads[0], tuple(elems[2:]))
        # slices of slices: x.split_at(m) = (x[..m], x[m..]);  x[a..][i] = x[a+i];  x[a..e][b..] = x[a+b..e]; …
        # (value identity only: the bounds obligations of the intermediate slices are separate proof obligations)
        k_be = None
        if base[0] == "call" and re.fullmatch(r"u(16|32|64)::to_be_bytes", base[1]) and len(base[2]) == 1:
            if isinstance(elems[0], tuple) and elems[0][0] == "[]" and elems[0][1][0] == "const" and str(elems[0][1][1]).isdigit():
                k_be = int(str(elems[0][1][1]))
            elif isinstance(elems[0], str) and re.fullmatch(r"\[c(\d+)\]", elems[0]):
                k_be = int(elems[0][2:-1])      # constant-index projection of an array pattern: let [hi, lo] = x.to_be_bytes()
        if k_be is not None:
            # x.to_be_bytes()[k] is byte k of x, most significant first:  (x >> 8*(n-1-k)) as u8
            nbytes = int(base[1][1:base[1].index(":")]) // 8
            k_ = k_be
            if k_ < nbytes:
                sh_ = 8 * (nbytes - 1 - k_)
                xe = base[2][0]
                be = ("cast", "u8", xe if sh_ == 0 else ("bin", "Shr", xe, ("const", str(sh_), "i32", None)))
                return self._mk_proj(be, tuple(elems[1:]))
        if base[0] == "call" and base[1] in ("[T]::split_at", "core::slice::<impl [T]>::split_at", "[T]::split_at_mut", "core::slice::<impl [T]>::split_at_mut") and len(base[2]) == 2 and elems[0] in ("0", "1"):
            x, m = base[2]
            rng = ("agg", "Range", (("const", "0", "usize", None), _plain(m)), ()) if elems[0] == "0" else ("agg", "RangeFrom", (_plain(m),), ())
            return self._mk_proj(self._mk_proj(x, (("[]", rng),)), tuple(elems[1:]))
        if base[0] == "proj" and base[2] and isinstance(base[2][-1], tuple) and base[2][-1][0] == "[]" and isinstance(elems[0], tuple) and elems[0][0] == "[]":
            outer = base[2][-1][1]
            inner = elems[0][1]
            if isinstance(outer, tuple) and outer[0] == "agg" and outer[1] in ("Range", "RangeFrom") and isinstance(inner, tuple):
                a = outer[2][0]
                e = outer[2][1] if outer[1] == "Range" else None
                comp = None
                if inner[0] == "agg" and inner[1] == "RangeFrom":
                    comp = ("agg", "Range", (_sadd(a, inner[2][0]), e), ()) if e is not None else ("agg", "RangeFrom", (_sadd(a, inner[2][0]),), ())
                elif inner[0] == "agg" and inner[1] == "Range":
                    comp = ("agg", "Range", (_sadd(a, inner[2][0]), _sadd(a, inner[2][1])), ())
                elif inner[0] == "agg" and inner[1] == "RangeTo":
                    comp = ("agg", "Range", (_plain(a), _sadd(a, inner[2][0])), ())
                elif inner[0] != "agg":
                    comp = _sadd(a, inner)
                if comp is not None:
                    parent = ("proj", base[1], tuple(base[2][:-1])) if len(base[2]) > 1 else base[1]
                    return self._mk_proj(self._mk_proj(parent, (("[]", comp),)), tuple(elems[1:]))
        # the `?` operator: Option::branch(x) is Continue(v) exactly when x is Some(v) (Result: Ok(v))
        if base[0] == "call" and base[1] in ("Option::branch", "Result::branch") and len(base[2]) == 1 and len(elems) >= 2 and elems[0] == "@Continue" and elems[1] == "0":
            inner = "@Some" if base[1] == "Option::branch" else "@Ok"
            return self._mk_proj(base[2][0], (inner, "0") + tuple(elems[2:]))
        if base[0] == "proj":
            return ("proj", base[1], tuple(base[2]) + tuple(elems))
        return ("proj", base, tuple(elems))

    def place_expr(self, pl, stack=()):
        base = self.local_expr(pl["l"], stack)
        return self.apply_proj(base, pl["p"], stack)

    def operand_expr(self, op, stack=()):
        k = op["k"]
        if k in ("copy", "move"):
            return self.place_expr(op["pl"], stack)
        if k == "const":
            if "fn" in op:
                return ("fnitem", op["fn"])
            ty = op["ty"]
            if "static" in op:
                # `&STATIC`: deref is transparent, so the leaf stands for the static's value
                sc = self.facts.consts.get(op["static"])
                val = "?"
                if sc and "bytes_hex" in sc:
                    val = str(int.from_bytes(bytes.fromhex(sc["bytes_hex"]), "little"))
                return ("const", val, ty.lstrip("&"), op["static"])
            if "float" in op:
                v = op["float"]
            elif "int" in op:
                v = op["int"]
            elif "bits" in op:
                v = op["bits"]
                if ty == "bool":
                    v = "true" if v == "1" else "false"
            else:
                v = op.get("txt", "?")
            item = op.get("item")
            if item and "promoted" in op:
                # promoted constant of this body: inline its value expression
                pf = self.facts.fns.get("%s::promoted[%s]" % (item, op["promoted"]))
                if pf is not None and len(stack) < 40:
                    pb = self.facts.body(pf["path"])
                    try:
                        return pb.local_expr(0)
                    except RecursionError:
                        pass
                item = None
            return ("const", v, ty, item)
        return ("other", op.get("txt", "?"))

    def rvalue_expr(self, rv, stack=()):
        k = rv["k"]
        if k == "use":
            return self.operand_expr(rv["op"], stack)
        if k in ("ref", "rawptr"):
            return self.place_expr(rv["pl"], stack)
        if k == "bin":
            a_, b_ = self.operand_expr(rv["a"], stack), self.operand_expr(rv["b"], stack)
            if rv["op"] in ("Shl", "Shr", "ShlUnchecked", "ShrUnchecked") and b_[0] == "cast" and _small_value(b_[2]):
                # the type of a shift amount that is known to be small (x % 64, x & 63) carries no information
                b_ = b_[2]
            if rv["op"] in ("Shl", "Shr", "ShlUnchecked", "ShrUnchecked") and b_[0] == "bin" and b_[1] in ("Rem", "BitAnd") and b_[2][0] == "cast" and b_[3][0] == "const" \
                    and b_[2][2][0] in ("arg", "var", "proj"):
                # ... nor does the type x was converted to before the reduction, for a power-of-two modulus / a mask:
                # (x as u64) % 64 == x % 64 == (x as u8) % 64
                try:
                    c_ = int(str(b_[3][1]))
                    if (b_[1] == "Rem" and c_ > 0 and c_ & (c_ - 1) == 0 and c_ <= 256) or (b_[1] == "BitAnd" and 0 <= c_ < 256):
                        b_ = ("bin", b_[1], b_[2][2], b_[3])
                except ValueError:
                    pass
            if rv["op"] in ("Add", "Sub", "Mul", "AddUnchecked", "SubUnchecked", "MulUnchecked") and a_[0] == "const" and b_[0] == "const" and not a_[3] and not b_[3] \
                    and a_[2] == b_[2] and a_[2] in _UW:
                # literal arithmetic (a constant offset handed to an inlined helper: data[offset + 1] with offset = 4)
                try:
                    x_, y_ = int(str(a_[1])), int(str(b_[1]))
                    v_ = {"A": x_ + y_, "S": x_ - y_, "M": x_ * y_}[rv["op"][0]]
                    if 0 <= v_ < 2 ** _UW[a_[2]]:
                        return ("const", str(v_), a_[2], None)
                except ValueError:
                    pass
            return ("bin", rv["op"], a_, b_)
        if k == "un":
            return ("un", rv["op"], self.operand_expr(rv["a"], stack))
        if k == "cast":
            inner = self.operand_expr(rv["op"], stack)
            ck = rv.get("ck", "")
            if ck.startswith("PointerCoercion") or ck in ("PtrToPtr", "Transmute") or ck.startswith("PointerExposeProvenance") or ck.startswith("PointerWithExposedProvenance"):
                # Box<T> deref goes through `.0.pointer` + raw pointer cast: transparent
                if inner[0] == "proj" and len(inner[2]) >= 2 and inner[2][-1] == "pointer" and inner[2][-2] == "0":
                    rest = inner[2][:-2]
                    return ("proj", inner[1], rest) if rest else inner[1]
                return inner
            return _mk_cast(rv.get("from"), rv["ty"], inner)
        if k == "discr":
            return ("discr", self.place_expr(rv["pl"], stack), rv.get("ty"))
        if k == "agg":
            ak = rv["ak"]
            ops = tuple(self.operand_expr(o, stack) for o in rv["ops"])
            if ak == "adt":
                adt = rv["adt"].split("::")[-1]
                v = rv["variant"]
                label = v if adt in ("Option", "Result") else (adt if v == adt else adt + "::" + v)
                return ("agg", label, ops, tuple(rv.get("fields", [])))
            if ak == "closure":
                return ("agg", "closure:" + rv["closure"], ops)
            return ("agg", ak, ops)
        if k == "repeat":
            return ("agg", "repeat:" + rv["n"], (self.operand_expr(rv["op"], stack),))
        return ("other", rv.get("txt", k))

    def call_expr(self, t, stack=()):
        fn = t.get("fn")
        args = tuple(self.operand_expr(a, stack) for a in t["args"])
        if fn is None:
            return ("call", "indirect", args)
        sn = self.facts.short(fn)
        decl = t.get("decl") or ""
        ga = t.get("gargs") or []
        if len(args) == 1 and len(ga) == 2 and ga[0] in _NUM_TYPES + ("bool",) and ga[1] in _NUM_TYPES + ("bool",):
            # lossless numeric conversions spelled with From / Into are `x as T`
            if decl.endswith("convert::From::from"):
                return _mk_cast(ga[1], ga[0], args[0])
            if decl.endswith("convert::Into::into"):
                return _mk_cast(ga[0], ga[1], args[0])
        if sn in TRANSPARENT_CALLS and args:
            return args[0]
        if sn.endswith("::index") or sn.endswith("::index_mut"):
            if len(args) == 2:
                return self._mk_proj(args[0], (("[]", args[1]),))
        m = _NUM_FROM.fullmatch(sn)
        if m and len(args) == 1:
            # `u64::from(x)`, `usize::from(x)`, `f64::from(x)` between numeric types are the lossless `x as T`
            aty = None
            a0 = t["args"][0]
            if a0["k"] in ("copy", "move") and not a0["pl"]["p"]:
                aty = self.locals[a0["pl"]["l"]]["ty"]
            elif a0["k"] == "const":
                aty = a0.get("ty")
            if aty in _NUM_TYPES or aty == "bool":
                return ("cast", m.group(1), args[0])
        return ("call", sn, args)

    # -- dominators / loops ------------------------------------------------------------------------
    def dominators(self):
        if self._dom is not None:
            return self._dom
        nodes = sorted(self.reachable)
        dom = {x: set(nodes) for x in nodes}
        dom[0] = {0}
        changed = True
        while changed:
            changed = False
            for x in nodes:
                if x == 0:
                    continue
                ps = [p for p, _ in self.pred[x] if p in self.reachable]
                if not ps:
                    continue
                new = set.intersection(*(dom[p] for p in ps)) | {x}
                if new != dom[x]:
                    dom[x] = new
                    changed = True
        self._dom = dom
        return dom

    def loops(self):
        """natural loops: list of dict(header, body:set, backedges:[(src)])"""
        dom = self.dominators()
        by_header = {}
        for x in sorted(self.reachable):
            for y, _ in self.succ[x]:
                if y in dom[x]:  # back edge x->y
                    body = {y, x}
                    st = [x]
                    while st:
                        z = st.pop()
                        if z == y:
                            continue
                        for p, _ in self.pred[z]:
                            if p in self.reachable and p not in body:
                                body.add(p)
                                st.append(p)
                    L = by_header.setdefault(y, {"header": y, "body": set(), "backedges": []})
                    L["body"] |= body
                    L["backedges"].append(x)
        return list(by_header.values())

    # -- sites -----------------------------------------------------------------------------------
    def calls(self, pat=None):
        """yield (Loc, term) for call terminators whose short or full callee name matches pat"""
        for bb in sorted(self.reachable):
            t = self.term(bb)
            if t["k"] != "call":
                continue
            fn = t.get("fn")
            if pat is None:
                yield Loc(bb, len(self.stmts(bb))), t
                continue
            if fn is None:
                continue
            if name_match(pat, fn, self.facts.short(fn)):
                yield Loc(bb, len(self.stmts(bb))), t

    def assigns(self):
        for bb in sorted(self.reachable):
            for i, s in enumerate(self.stmts(bb)):
                if s["k"] == "assign":
                    yield Loc(bb, i), s

    def field_writes(self, field_pat):
        """assignments (or call destinations) whose destination place expression matches regex"""
        rx = re.compile(field_pat)
        for bb in sorted(self.reachable):
            for i, s in enumerate(self.stmts(bb)):
                if s["k"] == "assign" and s["pl"]["p"]:
                    ps = show(self.place_expr(s["pl"]))
                    if rx.fullmatch(ps):
                        yield Loc(bb, i), s, ps
            t = self.term(bb)
            if t["k"] == "call" and t["dest"]["p"]:
                ps = show(self.place_expr(t["dest"]))
                if rx.fullmatch(ps):
                    yield Loc(bb, len(self.stmts(bb))), t, ps

    def node_at(self, loc):
        st = self.stmts(loc.bb)
        if loc.idx < 0:
            return {"sp": self.fn.get("sp")}
        if loc.idx < len(st):
            return st[loc.idx]
        return self.term(loc.bb)

    def span_at(self, loc):
        return sp_str(self.node_at(loc).get("sp"))

    # -- path primitives ----------------------------------------------------------------------------
    def reach_exit_avoiding(self, start, blockers, exits=None):
        """Is there a path from just after `start` to a Return (or one of `exits` locs) that passes
        through none of the blocker locations?  Returns a witness block path or None."""
        bl_by_bb = defaultdict(list)
        for b in blockers:
            bl_by_bb[b.bb].append(b.idx)
        ex_by_bb = defaultdict(list)
        if exits:
            for e in exits:
                ex_by_bb[e.bb].append(e.idx)

        def scan(bb, from_idx):
            """walk block bb from statement index from_idx; return 'blocked' | 'exit' | 'cont'"""
            evs = [(i, "b") for i in bl_by_bb.get(bb, []) if i >= from_idx]
            evs += [(i, "e") for i in ex_by_bb.get(bb, []) if i >= from_idx]
            if not exits and self.is_return(bb):
                evs.append((len(self.stmts(bb)), "e2"))
            if not evs:
                return "cont"
            evs.sort(key=lambda x: (x[0], x[1] != "b"))
            return "blocked" if evs[0][1] == "b" else "exit"

        r = scan(start.bb, start.idx + 1)
        if r == "blocked":
            return None
        if r == "exit":
            return [start.bb]
        seen = set()
        dq = deque()
        for y, _ in self.succ[start.bb]:
            dq.append((y, [start.bb, y]))
        while dq:
            x, path = dq.popleft()
            if x in seen:
                continue
            seen.add(x)
            r = scan(x, 0)
            if r == "blocked":
                continue
            if r == "exit":
                return path
            for y, _ in self.succ[x]:
                if y not in seen:
                    dq.append((y, path + [y]))
        return None

    def reach_exit_avoiding_flags(self, start_bb, blockers, fa, blocked_edges=()):
        """Like reach_exit_avoiding(Loc(start_bb, -1), blockers), but a path is followed only while it is consistent
        with the boolean locals it assigned on the way: after `v = true` the `!v` edge of a later `switch v` is not
        taken (rustc lowers `matches!`, `&&`, `||` and match guards to such flags).  Returns a witness path or None."""
        bl = defaultdict(list)
        for l in blockers:
            bl[l.bb].append(l.idx)

        def flags_after(bb, env):
            env = dict(env)
            for s in self.stmts(bb):
                if s["k"] == "assign" and not s["pl"]["p"]:
                    rv = s["rv"]
                    v = "var%d" % s["pl"]["l"]
                    if rv["k"] == "use" and rv["op"]["k"] == "const" and str(rv["op"].get("ty")) == "bool" and "bits" in rv["op"]:
                        env[v] = bool(int(rv["op"]["bits"]))
                    else:
                        env.pop(v, None)
            t = self.term(bb)
            if t["k"] == "call" and not t["dest"]["p"]:
                env.pop("var%d" % t["dest"]["l"], None)
            return env
        be = set(blocked_edges)
        seen = set()
        dq = deque([(start_bb, frozenset(), [start_bb])])
        while dq:
            x, envf, path = dq.popleft()
            if (x, envf) in seen:
                continue
            seen.add((x, envf))
            if x in bl:
                continue
            if self.is_return(x):
                return path
            env = flags_after(x, dict(envf))
            for y, lab in self.succ[x]:
                lits = fa.edge_lits.get((x, y, lab[1]), []) if lab and lab[0] == "sw" else []
                bad = bool(lab) and len(lab) > 1 and (x, y, lab[1]) in be
                for lit in lits:
                    m = _BOOL_LOCAL_RX.fullmatch(lit)
                    if m:
                        v = lit.lstrip("!")
                        if v in env and env[v] != (not lit.startswith("!")):
                            bad = True
                if not bad:
                    dq.append((y, frozenset(env.items()), path + [y]))
        return None

    def reach_exit_avoiding_edges(self, blockers, blocked_edges):
        """Is there a path from function entry to a Return that passes through no blocker location and takes no
        blocked edge (bb, succ, label)?  Returns a witness block path or None."""
        bl = {}
        for l in blockers:
            bl.setdefault(l.bb, []).append(l.idx)
        be = set(blocked_edges)
        seen = set()
        dq = deque([(0, [0])])
        while dq:
            x, path = dq.popleft()
            if x in seen:
                continue
            seen.add(x)
            if x in bl:
                continue
            if self.is_return(x):
                return path
            for y, lab in self.succ[x]:
                if (len(lab) > 1 and (x, y, lab[1]) in be) or y in seen:
                    continue
                dq.append((y, path + [y]))
        return None

    def reach_from_entry_avoiding(self, target, blockers):
        """Is there a path from function entry to `target` passing through no blocker?"""
        bl_by_bb = defaultdict(list)
        for b in blockers:
            bl_by_bb[b.bb].append(b.idx)
        seen = set()
        dq = deque([(0, [0])])
        while dq:
            x, path = dq.popleft()
            if x in seen:
                continue
            seen.add(x)
            bl = bl_by_bb.get(x, [])
            if x == target.bb:
                if not any(i < target.idx for i in bl):
                    return path
                # blocked before target inside this block; but a later visit is the same block
                continue
            if bl:
                continue
            for y, _ in self.succ[x]:
                if y not in seen:
                    dq.append((y, path + [y]))
        return None

    def path_spans(self, path):
        out = []
        for bb in path:
            out.append("bb%d@%s" % (bb, sp_str(self.term(bb).get("sp"))))
        return out


def name_match(pat, full, short):
    if pat == full or pat == short:
        return True
    if pat.startswith("re:"):
        return re.search(pat[3:], full) is not None or re.search(pat[3:], short) is not None
    # suffix match on path segments of the generic-stripped full path
    base = _strip_generics(full)
    return base == pat or base.endswith("::" + pat)


# ---------------------------------------------------------------------------------------------


# ---------------------------------------------------------------------------------------------
# inlining of helper functions that the reviewed tree did not have


def _known_fns():
    p = os.path.join(os.path.dirname(os.path.dirname(os.path.abspath(__file__))), "known_fns.json")
    try:
        return set(json.load(open(p))["fns"])
    except Exception:
        return None


def _whole_defs(body, l, nblocks):
    """assignments / call destinations that define local l as a whole, in the caller's own blocks"""
    out = []
    for blk in body["blocks"][:nblocks]:
        for st in blk["stmts"]:
            if st.get("k") == "assign" and st["pl"]["l"] == l and not st["pl"]["p"]:
                out.append(st)
        tt = blk["term"]
        if tt.get("k") == "call" and tt.get("dest") and tt["dest"]["l"] == l and not tt["dest"]["p"]:
            out.append(tt)
    return out


def _moved_owner(body, a, nblocks):
    """the caller's local (or parameter) whose value is moved, in whole, into this argument: follows the temporaries
    rustc introduces (`_t = move x; f(move _t)`); None for copies, borrows, projections and by-reference types"""
    if a.get("k") != "move" or a["pl"]["p"]:
        return None
    l = a["pl"]["l"]
    ty = body["locals"][l]["ty"] if l < len(body["locals"]) else "&"
    if ty.startswith("&") or ty.startswith("*"):
        return None
    for _ in range(4):
        ds = _whole_defs(body, l, nblocks)
        if len(ds) == 1 and ds[0].get("k") == "assign" and ds[0]["rv"]["k"] == "use" and ds[0]["rv"]["op"]["k"] == "move" and not ds[0]["rv"]["op"]["pl"]["p"]:
            l = ds[0]["rv"]["op"]["pl"]["l"]
        else:
            break
    return l


def _rename_local(node, frm, to):
    if isinstance(node, dict):
        if "p" in node and node.get("l") == frm:
            node["l"] = to
        for k, v in node.items():
            if k == "idx" and v == frm:
                node[k] = to
            else:
                _rename_local(v, frm, to)
    elif isinstance(node, list):
        for x in node:
            _rename_local(x, frm, to)


def _remap(node, lo, bo, ret_target):
    """deep copy of a callee's block list with locals shifted by lo and block ids by bo"""
    if isinstance(node, dict):
        out = {}
        for k, v in node.items():
            if k == "l" and isinstance(v, int) and ("p" in node):
                out[k] = v + lo
            elif k in ("target", "unwind", "otherwise") and isinstance(v, int):
                out[k] = v + bo
            elif k == "targets" and isinstance(v, list):
                out[k] = [[a, b + bo] for a, b in v]
            elif k == "idx" and isinstance(v, int):
                out[k] = v + lo  # index projection by local
            else:
                out[k] = _remap(v, lo, bo, ret_target)
        return out
    if isinstance(node, list):
        return [_remap(x, lo, bo, ret_target) for x in node]
    return node


def inline_unknown_helpers(fns, known, depth=3):
    """Every call, inside a function the reviewed tree had, to a crate-local function it did NOT have (a helper
    extracted by a later refactoring) is replaced by the helper's body: blocks spliced in, parameters bound by
    assignments, `return` turned into an assignment of the call's destination and a jump to its target.  On the
    reviewed tree nothing is unknown and nothing changes.  Returns the number of call sites inlined."""
    import copy
    n_inl = 0
    inlined = set()
    for path, f in list(fns.items()):
        if path not in known or not f.get("body"):
            continue
        body = f["body"]
        for _ in range(depth):
            progressed = False
            for bi in range(len(body["blocks"])):
                t = body["blocks"][bi]["term"]
                if t["k"] != "call" or not t.get("fn"):
                    continue
                callee = t["fn"]
                k = fns.get(callee)
                if k is None or callee in known or callee == path or not k.get("body") or k.get("kind") == "Closure":
                    continue
                kb = k["body"]
                if kb["argc"] != len(t["args"]):
                    continue
                lo, bo = len(body["locals"]), len(body["blocks"])
                body["locals"].extend(copy.deepcopy(kb["locals"]))
                for d in kb.get("dbg", []):
                    d2 = _remap(copy.deepcopy(d), lo, bo, None)
                    d2["arg"] = None
                    body["dbg"].append(d2)
                sp = t.get("sp")
                newblocks = _remap(copy.deepcopy(kb["blocks"]), lo, bo, None)
                for nb in newblocks:
                    tt = nb["term"]
                    if tt["k"] == "return":
                        nb["stmts"].append({"k": "assign", "pl": copy.deepcopy(t["dest"]), "rv": {"k": "use", "op": {"k": "move", "pl": {"l": lo, "p": []}}}, "sp": tt.get("sp", sp)})
                        if t.get("target") is None:
                            nb["term"] = {"k": "unreachable", "sp": tt.get("sp", sp)}
                        else:
                            nb["term"] = {"k": "goto", "target": t["target"], "sp": tt.get("sp", sp)}
                body["blocks"].extend(newblocks)
                blk = body["blocks"][bi]
                for i, a in enumerate(t["args"]):
                    owner = _moved_owner(body, a, len(body["blocks"]) - len(newblocks))
                    if owner is not None:
                        # the argument is moved in whole: the callee's parameter *is* the caller's value from here on
                        # (the caller's local is dead after the move), so the parameter is renamed to it instead of
                        # being bound by a copy - writes through the parameter then read as writes to the caller's value
                        _rename_local(newblocks, lo + 1 + i, owner)
                        continue
                    blk["stmts"].append({"k": "assign", "pl": {"l": lo + 1 + i, "p": []}, "rv": {"k": "use", "op": copy.deepcopy(a)}, "sp": sp})
                blk["term"] = {"k": "goto", "target": bo, "sp": sp}
                n_inl += 1
                inlined.add(callee)
                progressed = True
            if not progressed:
                break
    return n_inl, inlined


class Facts:
    def __init__(self, data):
        self.data = data
        self.config = data["config"]
        self.fns = {}
        dup = set()
        for f in data["fns"]:
            if f["path"] in self.fns:
                dup.add(f["path"])
            self.fns[f["path"]] = f
        self.dup_paths = dup
        self.inlined_calls = 0
        known = _known_fns()
        if known is not None and data.get("crate", "uflow") == "uflow":
            self.unknown_fns = sorted(p for p, f in self.fns.items() if p not in known and f.get("body") and f.get("kind") != "Closure" and "::tests::" not in p and "::promoted[" not in p)
            self.inlined_fns = set()
            if self.unknown_fns:
                self.inlined_calls, self.inlined_fns = inline_unknown_helpers(self.fns, known)
        else:
            self.unknown_fns = []
            self.inlined_fns = set()
        self.consts = {c["path"]: c for c in data["consts"]}
        self.adts = {a["path"]: a for a in data["adts"]}
        self.impls = data["impls"]
        self.unsafe = data["unsafe"]
        self._bodies = {}
        self._short = {}
        # short names for local fns; lengthen on collision
        cnt = defaultdict(list)
        for p in self.fns:
            cnt[short_fn(p)].append(p)
        self._local_short = {}
        for s, ps in cnt.items():
            if len(ps) == 1:
                self._local_short[ps[0]] = s
            else:
                for p in ps:
                    segs = [x for x in _strip_generics(p).split("::") if x]
                    self._local_short[p] = "::".join(segs[-3:])
        self._callgraph = None

    def short(self, fn):
        if fn in self._local_short:
            return self._local_short[fn]
        s = self._short.get(fn)
        if s is None:
            # crate-local generic instance paths (e.g. DataFrameEmitter::<'a, F>::push) map to the
            # def path without generic args
            s = short_fn(fn)
            self._short[fn] = s
        return s

    def fn(self, pat):
        """unique local function by suffix match; raises AnchorMissing"""
        if pat in self.fns:
            return self.fns[pat]
        hits = [p for p in self.fns if name_match(pat, p, self._local_short[p]) and "{closure" not in p[len(p) - 12 :]]
        hits = [h for h in hits if not h.endswith("}")] or hits
        if len(hits) == 1:
            return self.fns[hits[0]]
        if not hits:
            raise AnchorMissing("function anchor not found: " + pat)
        raise AnchorMissing("function anchor ambiguous: %s -> %s" % (pat, hits))

    def body(self, pat):
        f = self.fn(pat)
        b = self._bodies.get(f["path"])
        if b is None:
            b = Body(f, self)
            self._bodies[f["path"]] = b
        return b

    def all_bodies(self):
        """all bodies, except helper functions unknown to the reviewed tree whose code was inlined into their known
        callers (their statements are seen there, in context)"""
        for p in self.fns:
            if p in self.inlined_fns:
                continue
            yield self.body(p)

    def closures_of(self, parent_path):
        return [p for p, f in self.fns.items() if f.get("kind") == "Closure" and f.get("parent") == parent_path]

    def const_int(self, pat):
        c = self.const(pat)
        if "bits" in c:
            return int(c["bits"])
        if "bytes_hex" in c:
            return int.from_bytes(bytes.fromhex(c["bytes_hex"]), "little")
        raise AnchorMissing("constant has no scalar value: " + pat)

    def const(self, pat):
        if pat in self.consts:
            return self.consts[pat]
        hits = [p for p in self.consts if p.endswith("::" + pat)]
        if len(hits) == 1:
            return self.consts[hits[0]]
        if not hits:
            raise AnchorMissing("constant anchor not found: " + pat)
        raise AnchorMissing("constant anchor ambiguous: %s -> %s" % (pat, hits))

    def adt(self, pat):
        if pat in self.adts:
            return self.adts[pat]
        hits = [p for p in self.adts if p.endswith("::" + pat)]
        if len(hits) == 1:
            return self.adts[hits[0]]
        if not hits:
            raise AnchorMissing("type anchor not found: " + pat)
        raise AnchorMissing("type anchor ambiguous: %s -> %s" % (pat, hits))

    def variant_name(self, ty, value):
        """discriminant value -> variant name for the enum type named by the type string"""
        t = ty.strip()
        while t.startswith("&"):
            t = t[1:].strip()
            if t.startswith("mut "):
                t = t[4:]
        base = _strip_generics(t)
        last = base.split("::")[-1]
        if last == "Option":
            return {"0": "None", "1": "Some"}.get(str(value))
        if last == "Result":
            return {"0": "Ok", "1": "Err"}.get(str(value))
        if last == "Ordering":
            return {"255": "Less", "-1": "Less", "0": "Equal", "1": "Greater"}.get(str(value))
        if last == "ControlFlow":
            return {"0": "Continue", "1": "Break"}.get(str(value))
        a = self.adts.get(base)
        if a is None:
            hits = [p for p in self.adts if p.endswith("::" + last) or p == last]
            if len(hits) == 1:
                a = self.adts[hits[0]]
        if a:
            for v in a["variants"]:
                if v["discr"] == str(value):
                    return v["name"]
        return None

    def variants_of(self, ty):
        t = ty.strip()
        while t.startswith("&"):
            t = t[1:].strip()
            if t.startswith("mut "):
                t = t[4:]
        base = _strip_generics(t)
        last = base.split("::")[-1]
        if last == "Option":
            return ["None", "Some"]
        if last == "Result":
            return ["Ok", "Err"]
        if last == "Ordering":
            return ["Less", "Equal", "Greater"]
        a = self.adts.get(base)
        if a is None:
            hits = [p for p in self.adts if p.endswith("::" + last) or p == last]
            if len(hits) == 1:
                a = self.adts[hits[0]]
        if a:
            return [v["name"] for v in a["variants"]]
        return None

    # -- call graph --------------------------------------------------------------------------------
    def callgraph(self):
        if self._callgraph is not None:
            return self._callgraph
        g = defaultdict(set)
        trait_impls = defaultdict(list)  # (trait, method) -> [fn path]
        for p, f in self.fns.items():
            if f.get("trait"):
                trait_impls[(f["trait"], p.split("::")[-1])].append(p)
        for p, f in self.fns.items():
            b = self.body(p)
            for bb in b.reachable:
                t = b.term(bb)
                if t["k"] == "call" and t.get("fn"):
                    callee = t["fn"]
                    if t.get("unresolved"):
                        decl = t.get("decl", callee)
                        tr = t.get("trait")
                        if tr:
                            for q in trait_impls.get((tr, decl.split("::")[-1]), []):
                                g[p].add(q)
                        g[p].add(callee)
                    else:
                        tgt = self.local_fn_of(callee)
                        g[p].add(tgt or callee)
                for s in b.stmts(bb):
                    if s["k"] == "assign" and s["rv"]["k"] == "agg" and s["rv"].get("ak") == "closure":
                        g[p].add(s["rv"]["closure"])
            # function items passed as values
        self._callgraph = g
        return g

    def local_fn_of(self, callee):
        if callee in self.fns:
            return callee
        base = _strip_generics(callee)
        if base in self.fns:
            return base
        return None

    def reachable_from(self, roots):
        g = self.callgraph()
        seen = set()
        st = list(roots)
        while st:
            x = st.pop()
            if x in seen:
                continue
            seen.add(x)
            for y in g.get(x, ()):
                if y not in seen:
                    st.append(y)
        return seen


class AnchorMissing(Exception):
    pass


# ---------------------------------------------------------------------------------------------
# established facts


def lit_neg(l):
    if l.startswith("lt("):
        a, b = _split2(l[3:-1])
        return "le(%s,%s)" % (b, a)
    if l.startswith("le("):
        a, b = _split2(l[3:-1])
        return "lt(%s,%s)" % (b, a)
    if l.startswith("eq("):
        return "ne(" + l[3:]
    if l.startswith("ne("):
        return "eq(" + l[3:]
    if l.startswith("!"):
        return l[1:]
    return "!" + l


def _split2(s):
    depth = 0
    for i, c in enumerate(s):
        if c in "([{<":
            depth += 1
        elif c in ")]}>":
            depth -= 1
        elif c == "," and depth == 0:
            return s[:i], s[i + 1 :]
    raise ValueError("cannot split " + s)


def _is_zero(e):
    return e[0] == "const" and str(e[1]) in ("0",) and not e[3]


def _unsigned(ty):
    return ty in ("u8", "u16", "u32", "u64", "u128", "usize")


def _plain(e):
    """drop the item name of an integer constant (FRAME_CRC_SIZE and the literal 4 are the same index)"""
    if isinstance(e, tuple) and e and e[0] == "const" and len(e) == 4 and e[3] and str(e[1]).lstrip("-").isdigit():
        return ("const", e[1], e[2], None)
    if isinstance(e, tuple) and e and e[0] == "bin" and e[1] in ("Add", "Sub"):
        return ("bin", e[1], _plain(e[2]), _plain(e[3]))
    return e


def _cint(e):
    return int(e[1]) if isinstance(e, tuple) and e and e[0] == "const" and str(e[1]).isdigit() else None


def _sadd(a, b):
    """a + b on index expressions with the obvious simplifications (0 + x, constants, (x - c) + d)"""
    a, b = _plain(a), _plain(b)
    ca, cb = _cint(a), _cint(b)
    if ca is not None and cb is not None:
        return ("const", str(ca + cb), "usize", None)
    if ca == 0:
        return b
    if cb == 0:
        return a
    for x, c in ((a, cb), (b, ca)):
        if c is not None and isinstance(x, tuple) and x[0] == "bin" and x[1] == "Sub" and _cint(x[3]) is not None:
            d = _cint(x[3])
            if c < d:
                return ("bin", "Sub", x[2], ("const", str(d - c), "usize", None))
            if c == d:
                return x[2]
            return ("bin", "Add", x[2], ("const", str(c - d), "usize", None))
    return ("bin", "Add", a, b)


def _mentions_var(e):
    if isinstance(e, tuple):
        if len(e) == 2 and e[0] in ("var", "rec"):
            return True
        return any(_mentions_var(c) for c in e)
    return False


_CALL_RX = re.compile(r"::\w+(<[^>()]*>)?\(|\bindirect\(")


def b_mk_proj(base, elems):
    if base[0] == "proj":
        return ("proj", base[1], tuple(base[2]) + tuple(elems))
    return ("proj", base, tuple(elems))


class FactsAnalysis:
    """forward must-analysis over one body: at each block entry a set of alternative fact-sets"""

    MAX_ALTS = 16

    def __init__(self, body, kill_on_mut_calls=False, kill_fields=True):
        self.b = body
        self.kill_on_mut_calls = kill_on_mut_calls
        # kill_fields=False gives the pure "this was checked before, on these operands" reading:
        # only re-assigned local variables invalidate a fact, writes to fields do not (used where a
        # sink legitimately sits *after* the state update that the guard authorised)
        self.kill_fields = kill_fields
        self.lit_places = {}
        self.lit_expr = {}  # comparison literal -> (op, lhs expr, rhs expr) as printed (operands may be swapped for eq/ne)
        self.edge_lits = {}
        self._compute_edge_lits()
        # multi-definition locals that occur in some comparison literal: their defining assignments are tracked as
        # value bindings `v:=EXPR` so that `let id = match st { A(s) => s.x, B(s) => s.x }; if f != id {…}` is read,
        # on the path through arm A, as a comparison with A's field
        self.compared_vars = set()
        for lits in self.edge_lits.values():
            for l in lits:
                for m in re.finditer(r"\bvar(\d+)\b", l):
                    self.compared_vars.add(int(m.group(1)))
        self._solve()

    # literal construction ---------------------------------------------------------------------
    def bool_lits(self, e, truth, ty=None):
        """literals (conjunction) established when boolean expression e has the given truth"""
        k = e[0]
        if k == "un" and e[1] == "Not":
            return self.bool_lits(e[2], not truth)
        if k == "bin" and e[1] in ("Lt", "Le", "Gt", "Ge", "Eq", "Ne"):
            op = e[1]
            a, b = e[2], e[3]
            if op == "Gt":
                op, a, b = "Lt", b, a
            elif op == "Ge":
                op, a, b = "Le", b, a
            if not truth:
                if op == "Lt":
                    op, a, b = "Le", b, a
                elif op == "Le":
                    op, a, b = "Lt", b, a
                elif op == "Eq":
                    op = "Ne"
                elif op == "Ne":
                    op = "Eq"
            # unsigned idioms: 0 < x == x != 0 ; x <= 0 == x == 0
            # (only for unsigned operands: the constant carries the comparison's type)
            if op == "Lt" and _is_zero(a) and _unsigned(a[2]):
                op, a, b = "Ne", b, a
            elif op == "Le" and _is_zero(b) and _unsigned(b[2]):
                op = "Eq"
            sa, sb = show(a), show(b)
            if op in ("Eq", "Ne") and sb < sa:
                sa, sb = sb, sa
            l = "%s(%s,%s)" % (op.lower(), sa, sb)
            self.lit_places[l] = places_of(a) | places_of(b)
            self.lit_expr[l] = (op.lower(), a, b)
            return [l]
        if k == "call":
            name = e[1]
            if name == "Option::is_some":
                l = "is(%s,Some)" % show(e[2][0])
                l = l if truth else "is(%s,None)" % show(e[2][0])
                self.lit_places[l] = places_of(e[2][0])
                return [l]
            if truth and name in ("Option::map_or", "Option::is_some_and") and e[2] and e[2][-1][0] == "agg" and str(e[2][-1][1]).startswith("closure:") \
                    and (name == "Option::is_some_and" or (len(e[2]) == 3 and e[2][1][0] == "const" and str(e[2][1][1]) == "false")):
                # opt.map_or(false, |v| pred(v)) is true  =>  opt is Some(v) and pred(v) holds
                opt, clo = e[2][0], e[2][-1]
                l1 = "is(%s,Some)" % show(opt)
                self.lit_places[l1] = places_of(opt)
                out = [l1]
                try:
                    cb = self.b.facts.body(clo[1][len("closure:"):])
                    ce = cb.local_expr(0)
                    payload = b_mk_proj(opt, ("@Some", "0"))

                    def sub(x):
                        if isinstance(x, tuple):
                            if x == ("arg", 2):
                                return payload
                            if len(x) == 3 and x[0] == "proj" and x[1] == ("arg", 1) and x[2] and str(x[2][0]).isdigit() and int(x[2][0]) < len(clo[2]):
                                cap = clo[2][int(x[2][0])]
                                return b_mk_proj(cap, tuple(x[2][1:])) if len(x[2]) > 1 else cap
                            return tuple(sub(c) for c in x)
                        return x
                    if cb.argc == 2 and not _mentions_var(ce):
                        out += self.bool_lits(sub(ce), True)
                except Exception:
                    pass
                return out
            if name in ("HashMap::contains_key", "BTreeMap::contains_key") and len(e[2]) == 2:
                # m.contains_key(k)  <=>  m.get(k).is_some()
                g = "%s::get(%s,%s)" % (name.split("::")[0], show(e[2][0]), show(e[2][1]))
                l = "is(%s,%s)" % (g, "Some" if truth else "None")
                self.lit_places[l] = places_of(e[2][0]) | places_of(e[2][1])
                return [l]
            if name in ("Result::is_ok", "Result::is_err"):
                yes, no = ("Ok", "Err") if name == "Result::is_ok" else ("Err", "Ok")
                l = "is(%s,%s)" % (show(e[2][0]), yes if truth else no)
                self.lit_places[l] = places_of(e[2][0])
                return [l]
            if name == "Option::is_none":
                l = "is(%s,None)" % show(e[2][0]) if truth else "is(%s,Some)" % show(e[2][0])
                self.lit_places[l] = places_of(e[2][0])
                return [l]
            if name in ("VecDeque::is_empty", "Vec::is_empty", "[T]::is_empty", "BinaryHeap::is_empty"):
                ln = name.split("::")[0] + "::len(%s)" % show(e[2][0])
                l = ("eq(%s,0)" if truth else "ne(%s,0)") % ln
                # canonical operand order for eq/ne
                a, b2 = ln, "0"
                if b2 < a:
                    l = ("eq(0,%s)" if truth else "ne(0,%s)") % ln
                self.lit_places[l] = places_of(e[2][0])
                return [l]
            if name.endswith("::eq") and len(e[2]) == 2 and truth:
                # `opt == Some(x)` establishes both that opt is Some and that its payload equals x
                for o, sm in ((e[2][0], e[2][1]), (e[2][1], e[2][0])):
                    if sm[0] == "agg" and sm[1] == "Some" and len(sm[2]) == 1 and o[0] != "agg":
                        payload = b_mk_proj(o, ("@Some", "0"))
                        l1 = "is(%s,Some)" % show(o)
                        self.lit_places[l1] = places_of(o)
                        sa, sb = show(payload), show(sm[2][0])
                        if sb < sa:
                            sa, sb = sb, sa
                        l2 = "eq(%s,%s)" % (sa, sb)
                        self.lit_places[l2] = places_of(o) | places_of(sm[2][0])
                        self.lit_expr[l2] = ("eq", payload, sm[2][0])
                        return [l1, l2]
            if name.endswith("::eq") and len(e[2]) == 2:
                sa, sb = show(e[2][0]), show(e[2][1])
                if sb < sa:
                    sa, sb = sb, sa
                l = ("eq(%s,%s)" if truth else "ne(%s,%s)") % (sa, sb)
                self.lit_places[l] = places_of(e[2][0]) | places_of(e[2][1])
                return [l]
            if name.endswith("::ne") and len(e[2]) == 2:
                sa, sb = show(e[2][0]), show(e[2][1])
                if sb < sa:
                    sa, sb = sb, sa
                l = ("ne(%s,%s)" if truth else "eq(%s,%s)") % (sa, sb)
                self.lit_places[l] = places_of(e[2][0]) | places_of(e[2][1])
                return [l]
        if k == "const":
            return []
        s = show(e)
        l = s if truth else "!" + s
        self.lit_places[l] = places_of(e)
        return [l]

    def _compute_edge_lits(self):
        b = self.b
        for bb in b.reachable:
            t = b.term(bb)
            if t["k"] != "switch":
                continue
            e = b.operand_expr(t["op"])
            ty = t["ty"]
            vals = [v for v, _ in t["targets"]]
            for tgt, lab in b.succ[bb]:
                v = lab[1]
                lits = []
                if e[0] == "discr" and e[1][0] == "call" and e[1][1] in ("Option::branch", "Result::branch") and len(e[1][2]) == 1:
                    inner = e[1][2][0]
                    yes, no = ("Some", "None") if e[1][1] == "Option::branch" else ("Ok", "Err")
                    # ControlFlow: Continue = 0, Break = 1
                    if v == "otherwise":
                        tgt_name = None
                        if vals == ["0"]:
                            tgt_name = no
                        elif vals == ["1"]:
                            tgt_name = yes
                    else:
                        tgt_name = yes if v == "0" else (no if v == "1" else None)
                    if tgt_name:
                        l = "is(%s,%s)" % (show(inner), tgt_name)
                        self.lit_places[l] = places_of(inner)
                        lits.append(l)
                elif e[0] == "discr":
                    pe = e[1]
                    pty = e[2] if len(e) > 2 else None
                    names = b.facts.variants_of(pty) if pty else None
                    if v != "otherwise":
                        nm = b.facts.variant_name(pty, v) if pty else None
                        l = "is(%s,%s)" % (show(pe), nm or ("#" + v))
                        self.lit_places[l] = places_of(pe)
                        lits.append(l)
                        # x.checked_sub(c) is Some  <=>  c <= x   (for c == 1: x != 0);   None  <=>  x < c
                        if pe[0] == "call" and re.fullmatch(r"(u8|u16|u32|u64|usize)::checked_sub", pe[1]) and len(pe[2]) == 2 and nm in ("Some", "None"):
                            x_, c_ = pe[2]
                            one = c_[0] == "const" and str(c_[1]) == "1"
                            zero = ("const", "0", c_[2] if len(c_) > 2 else "usize", None)
                            if nm == "Some":
                                lits += self.bool_lits(("bin", "Lt", zero, x_) if one else ("bin", "Le", c_, x_), True)
                            else:
                                lits += self.bool_lits(("bin", "Le", x_, zero) if one else ("bin", "Lt", x_, c_), True)
                    else:
                        listed = [b.facts.variant_name(pty, x) if pty else None for x in vals]
                        if names and all(listed):
                            rest = [n for n in names if n not in listed]
                            if len(rest) == 1:
                                l = "is(%s,%s)" % (show(pe), rest[0])
                                self.lit_places[l] = places_of(pe)
                                lits.append(l)
                                if pe[0] == "call" and re.fullmatch(r"(u8|u16|u32|u64|usize)::checked_sub", pe[1]) and len(pe[2]) == 2 and rest[0] in ("Some", "None"):
                                    x_, c_ = pe[2]
                                    one = c_[0] == "const" and str(c_[1]) == "1"
                                    zero = ("const", "0", c_[2] if len(c_) > 2 else "usize", None)
                                    if rest[0] == "Some":
                                        lits += self.bool_lits(("bin", "Lt", zero, x_) if one else ("bin", "Le", c_, x_), True)
                                    else:
                                        lits += self.bool_lits(("bin", "Le", x_, zero) if one else ("bin", "Lt", x_, c_), True)
                            else:
                                for n in listed:
                                    l = "!is(%s,%s)" % (show(pe), n)
                                    self.lit_places[l] = places_of(pe)
                                    lits.append(l)
                        else:
                            for x in vals:
                                l = "!is(%s,#%s)" % (show(pe), x)
                                self.lit_places[l] = places_of(pe)
                                lits.append(l)
                elif ty == "bool":
                    if v == "otherwise":
                        truth = not ("1" in vals) if vals == ["1"] else True
                        if vals == ["0"]:
                            truth = True
                        elif vals == ["1"]:
                            truth = False
                    else:
                        truth = v == "1"
                    lits = self.bool_lits(e, truth)
                else:
                    s = show(e)
                    if v != "otherwise":
                        a, c = s, str(v)
                        if c < a:
                            a, c = c, a
                        l = "eq(%s,%s)" % (a, c)
                        self.lit_places[l] = places_of(e)
                        lits.append(l)
                    else:
                        for x in vals:
                            a, c = s, str(x)
                            if c < a:
                                a, c = c, a
                            l = "ne(%s,%s)" % (a, c)
                            self.lit_places[l] = places_of(e)
                            lits.append(l)
                self.edge_lits[(bb, tgt, v)] = lits

    # kill ------------------------------------------------------------------------------------------
    def _block_kills(self, bb):
        """list of place keys written in block bb (statements and call destination)"""
        b = self.b
        ks = []
        for s in b.stmts(bb):
            if s["k"] in ("assign", "setdiscr"):
                pl = s["pl"]
                pe = b.place_expr(pl) if pl["p"] else None
                if pl["p"]:
                    ks.extend(assigned_key(pe))
                else:
                    if not b.is_single_def(pl["l"]):
                        ks.append("var%d" % pl["l"] if not (1 <= pl["l"] <= b.argc) else "arg%d" % pl["l"])
        t = b.term(bb)
        if t["k"] == "call":
            pl = t["dest"]
            if pl["p"]:
                ks.extend(assigned_key(b.place_expr(pl)))
            elif not b.is_single_def(pl["l"]):
                ks.append("var%d" % pl["l"])
            if self.kill_on_mut_calls:
                for a in t["args"]:
                    if a["k"] in ("copy", "move"):
                        lty = b.locals[a["pl"]["l"]]["ty"]
                        if lty.startswith("&mut") or lty.startswith("&'") and " mut " in lty.split(" ")[0:2] + [""]:
                            ae = b.operand_expr(a)
                            ks.extend(places_of(ae))
        return ks

    def _tracked_bool(self, n):
        """bool locals whose assignments are turned into facts: user variables (named in the debug info) and
        temporaries that are assigned a non-constant at least once (the `&&`/`||` flags).  Compiler-generated drop
        flags (unnamed, only ever assigned constants, initialised in the entry block) are noise and are left out."""
        cache = self.__dict__.setdefault("_tracked_cache", {})
        if n not in cache:
            b = self.b
            named = any((not d["pl"].get("p")) and d["pl"].get("l") == n for d in (b.dbg or []) if isinstance(d.get("pl"), dict))
            nonconst = False
            in_entry = False
            for loc, kind, node in b.defs.get(n, []):
                if kind != "assign" or node["rv"]["k"] != "use" or node["rv"]["op"]["k"] != "const":
                    nonconst = True
                if loc.bb == 0:
                    in_entry = True
            # a drop flag is initialised in the entry block; a constant-only temporary that is not (the result of
            # `matches!(..)` or of a `match` with boolean arms) is a value the program computes
            cache[n] = named or nonconst or not in_entry
        return cache[n]

    def _block_gens(self, bb, upto=None):
        """facts generated by the statements of block bb about multi-definition bool locals:
        `v = true/false` gives the literal v / !v; `v = <comparison>` gives the binding `v<=>LIT`, which the
        edges of a later `switch v` turn into LIT / not LIT.  (This is how rustc lowers `let ok = a == b && c == d;
        if !ok { return }`: one path assigns the last comparison, all others assign `false`.)"""
        b = self.b
        gens = {}
        for i, s in enumerate(b.stmts(bb)):
            if upto is not None and i >= upto:
                break
            if s["k"] != "assign":
                continue
            pl = s["pl"]
            if pl["p"]:
                # a write to some place: drop bindings whose literal mentions it
                ks = assigned_key(b.place_expr(pl))
                for v in list(gens):
                    for l in gens[v]:
                        if any(places_overlap(k, p2) for k in ks for p2 in self.lit_places.get(l, ())):
                            gens.pop(v, None)
                            break
                continue
            n = pl["l"]
            if not b.is_single_def(n) and not (1 <= n <= b.argc) and b.locals[n]["ty"] != "bool" and n in getattr(self, "compared_vars", ()):
                name = "var%d" % n
                try:
                    e = b.rvalue_expr(s["rv"])
                except RecursionError:
                    gens.pop(name, None)
                    continue
                if e[0] == "agg" and e[1] in ("Some", "None", "Ok", "Err"):
                    # `v = Some(..)` / `v = None`: the variant of the local is known on this path
                    bl = "is(%s,%s)" % (name, e[1])
                    self.lit_places[bl] = {name}
                    gens[name] = [bl]
                elif e[0] in ("proj", "arg", "const", "cast") and not _mentions_var(e):
                    bl = "%s:=%s" % (name, show(e))
                    self.lit_places[bl] = places_of(e) | {name}
                    gens[name] = [bl]
                else:
                    gens.pop(name, None)
                continue
            if b.is_single_def(n) or b.locals[n]["ty"] != "bool" or (1 <= n <= b.argc):
                continue
            if not self._tracked_bool(n):
                continue
            name = "var%d" % n
            try:
                e = b.rvalue_expr(s["rv"])
            except RecursionError:
                gens.pop(name, None)
                continue
            if e[0] == "const" and str(e[1]) in ("true", "false"):
                l = name if str(e[1]) == "true" else "!" + name
                self.lit_places[l] = {name}
                gens[name] = [l]
            else:
                lits = self.bool_lits(e, True)
                if len(lits) == 1 and lits[0] != name and not lits[0].startswith("!"):
                    bl = "%s<=>%s" % (name, lits[0])
                    self.lit_places[bl] = set(self.lit_places.get(lits[0], ())) | {name}
                    gens[name] = [bl]
                else:
                    gens.pop(name, None)
        out = []
        for v in gens:
            out.extend(gens[v])
        return out

    def _may_be_stale(self, place, bb):
        """kill_fields=False keeps facts across writes to fields ("was checked before"): such a fact about `place`
        may be stale in block bb if some write to the place can reach bb"""
        if self.kill_fields:
            return False
        key = place
        cache = self.__dict__.setdefault("_stale_cache", {})
        if key not in cache:
            b = self.b
            writers = [x for x in b.reachable if any(places_overlap(k, place) for k in self._block_kills(x))]
            seen = set()
            st = list(writers)
            while st:
                x = st.pop()
                for y, _ in b.succ[x]:
                    if y not in seen:
                        seen.add(y)
                        st.append(y)
            cache[key] = seen | set(writers)
        return bb in cache[key]

    def _refine(self, alt, bb=None):
        """apply bindings and drop contradictory alternatives: returns the refined alternative or None"""
        alt = set(alt)
        changed = True
        while changed:
            changed = False
            for l in list(alt):
                if "<=>" in l:
                    v, lit = l.split("<=>", 1)
                    if v in alt and lit not in alt:
                        alt.add(lit)
                        changed = True
                    elif ("!" + v) in alt:
                        ng = lit_neg(lit)
                        if ng not in alt:
                            alt.add(ng)
                            changed = True
        variants = {}
        for l in alt:
            if "<=>" in l or ":=" in l:
                continue
            if l.startswith("is(") and l.endswith(")"):
                # a place has one variant at a time
                try:
                    pl_, vn = _split2(l[3:-1])
                except ValueError:
                    pl_, vn = None, None
                # only for plain places: a "place" that is a call result (`is(it.next(),Some)`) can be a stale
                # fact about an earlier evaluation of the same call (loops), which is not a contradiction
                if pl_ is not None and "(" not in pl_ and not (bb is not None and self._may_be_stale(pl_, bb)):
                    if variants.setdefault(pl_, vn) != vn:
                        return None
            # complementary literals contradict only if they cannot be facts about two different evaluations of
            # the same call expression (loops, or a predicate of `self` re-evaluated after `self` changed)
            if _CALL_RX.search(l):
                continue
            if l.startswith("!") and l[1:] in alt:
                return None
            if l.startswith("eq(") and ("ne(" + l[3:]) in alt:
                return None
        return frozenset(alt)

    def _apply_kills(self, alts, kills):
        if not self.kill_fields:
            kills = [k for k in kills if re.fullmatch(r"(var|arg)\d+", k)]
        if not kills:
            return alts
        out = set()
        for alt in alts:
            keep = []
            for l in alt:
                pls = self.lit_places.get(l, ())
                if any(places_overlap(k, p) for k in kills for p in pls):
                    continue
                keep.append(l)
            out.add(frozenset(keep))
        return self._reduce(out)

    def _reduce(self, alts):
        alts = set(alts)
        if len(alts) > 1:
            lst = sorted(alts, key=len)
            keep = []
            for a in lst:
                if any(k <= a for k in keep):
                    continue
                keep.append(a)
            alts = set(keep)
        if len(alts) > self.MAX_ALTS:
            # widening: keep one alternative per valuation of the tracked boolean locals (the flag a `matches!` or an
            # `&&` was lowered to stays correlated with what was established where it was set), intersect inside
            groups = defaultdict(list)
            for a in alts:
                groups[frozenset(l for l in a if _BOOL_LOCAL_RX.fullmatch(l))].append(a)
            if 1 < len(groups) <= self.MAX_ALTS:
                alts = {frozenset.intersection(*g) for g in groups.values()}
            else:
                alts = {frozenset.intersection(*alts)}
        return alts

    def _solve(self):
        b = self.b
        self.in_state = {}
        self.kills = {bb: self._block_kills(bb) for bb in b.reachable}
        self.gens = {bb: self._block_gens(bb) for bb in b.reachable}
        self.in_state[0] = {frozenset()}
        work = deque([0])
        inq = {0}
        iters = 0
        while work:
            x = work.popleft()
            inq.discard(x)
            iters += 1
            if iters > 20000:
                raise RuntimeError("facts analysis did not converge in " + b.path)
            out = self._apply_kills(self.in_state[x], self.kills[x])
            if self.gens[x]:
                out = {frozenset(alt | set(self.gens[x])) for alt in out}
            for y, lab in b.succ[x]:
                e_l = self.edge_lits.get((x, y, lab[1]), []) if lab[0] == "sw" else []
                new = set()
                for alt in out:
                    if e_l:
                        r = self._refine(alt | set(e_l), x)
                        if r is not None:
                            new.add(r)
                    else:
                        new.add(alt)
                if not new and out:
                    # every alternative contradicts this edge: the edge is infeasible
                    continue
                old = self.in_state.get(y)
                if old is None:
                    merged = self._reduce(new)
                else:
                    merged = self._reduce(old | new)
                if old is None or merged != old:
                    # monotone: only ever weaken
                    if old is not None and self._weaker_or_equal(old, merged) and old != merged:
                        pass
                    self.in_state[y] = merged
                    if y not in inq:
                        work.append(y)
                        inq.add(y)

    @staticmethod
    def _weaker_or_equal(a, b2):
        return True

    def at_loop_entry(self, L):
        """alternatives holding on the edges that enter loop L from outside"""
        b = self.b
        out = set()
        for p, lab in b.pred[L["header"]]:
            if p in L["body"] or p not in b.reachable:
                continue
            st = self.in_state.get(p)
            if st is None:
                continue
            st = self._apply_kills(st, self.kills[p])
            if self.gens.get(p):
                st = {frozenset(alt | set(self.gens[p])) for alt in st}
            e_l = self.edge_lits.get((p, L["header"], lab[1]), []) if lab[0] == "sw" else []
            for alt in st:
                if e_l:
                    r = self._refine(alt | set(e_l), p)
                    if r is not None:
                        out.add(r)
                else:
                    out.add(alt)
        return self._reduce(out) if out else None

    def at(self, loc):
        """alternatives holding just before location loc (block-entry state; kills by earlier
        statements in the same block are applied conservatively for the whole block prefix)"""
        st = self.in_state.get(loc.bb)
        if st is None:
            return None  # unreachable
        b = self.b
        # kills from statements before idx in this block
        ks = []
        for i, s in enumerate(b.stmts(loc.bb)):
            if i >= loc.idx:
                break
            if s["k"] in ("assign", "setdiscr"):
                pl = s["pl"]
                if pl["p"]:
                    ks.extend(assigned_key(b.place_expr(pl)))
                elif not b.is_single_def(pl["l"]):
                    ks.append("var%d" % pl["l"])
        st = self._apply_kills(st, ks)
        g = self._block_gens(loc.bb, upto=max(loc.idx, 0))
        if g:
            st = {frozenset(alt | set(g)) for alt in st}
        return st


# implication closure ------------------------------------------------------------------------------


def _canon_cmp(l):
    """re-sort the operands of eq/ne after a substitution"""
    if l.startswith("eq(") or l.startswith("ne("):
        try:
            a, b = _split2(l[3:-1])
        except ValueError:
            return l
        if b < a:
            a, b = b, a
        return "%s(%s,%s)" % (l[:2], a, b)
    return l


def closure(alt, consts=None):
    out = set(alt)
    binds = [l.split(":=", 1) for l in alt if ":=" in l and "<=>" not in l]
    if binds:
        for l in list(out):
            if ":=" in l or "<=>" in l:
                continue
            for v, ex in binds:
                if re.search(r"\b%s\b" % v, l):
                    out.add(_canon_cmp(re.sub(r"\b%s\b" % v, lambda m: ex, l)))
    for l in list(out):
        if l.startswith("lt("):
            a, b = _split2(l[3:-1])
            out.add("le(%s,%s)" % (a, b))
            x, y = (a, b) if a <= b else (b, a)
            out.add("ne(%s,%s)" % (x, y))
        elif l.startswith("eq("):
            a, b = _split2(l[3:-1])
            out.add("le(%s,%s)" % (a, b))
            out.add("le(%s,%s)" % (b, a))
    return out


def alt_satisfies(alt, conj):
    """conj: list of regex strings (fullmatch) that must each match some literal in closure(alt)"""
    cl = closure(alt)
    for pat in conj:
        rx = re.compile(pat)
        if not any(rx.fullmatch(l) for l in cl):
            return False
    return True


def dnf_holds(alts, dnf):
    """every alternative satisfies some conjunction of the DNF"""
    if alts is None:
        return True, None  # unreachable sink
    for alt in alts:
        if not any(alt_satisfies(alt, conj) for conj in dnf):
            return False, alt
    return True, None
