"""C12 — transmission behaviour matches the send mode (DESIGN.md §4 C12)."""
import re
from rules import call_sites, call_locs, write_sites, rv_sites
from mirlib import show, Loc

SCOPE = ("Decides the mechanisms that make transmission follow the send mode, on every path of the "
         "emitting functions: the mode->resend table, the stale-TimeSensitive drop guard, the resend-flag "
         "guards at both resend-queue insertions, the acknowledged/alive guard before a retransmission, and "
         "that a fragment leaves the pending queue exactly when it was pushed (purge edges pop the same queue). "
         "Not decided: counts of transmissions over histories.")

EMIT = "half_connection::HalfConnection::emit_data_frames"


def mode_table(cx, inst_id="C12.a"):
    """T8: SendMode -> resend flag in PacketSender::emit_packet"""
    with cx.instance(inst_id, "T8 TABLE", "SendMode -> resend is {TimeSensitive:false, Unreliable:false, Persistent:true, Reliable:true}", floor=4) as inst:
        b = cx.R.body("PacketSender::emit_packet")
        want = {"TimeSensitive": "false", "Unreliable": "false", "Persistent": "true", "Reliable": "true"}
        # find the switch on the popped entry's mode that assigns the resend local
        found = {}
        for bb in sorted(b.reachable):
            t = b.term(bb)
            if t["k"] != "switch":
                continue
            e = b.operand_expr(t["op"])
            if e[0] != "discr" or not show(e[1]).endswith(".mode") or "pop_front" not in show(e[1]):
                continue
            names = cx.R.variants_of(e[2])
            for tgt, lab in b.succ[bb]:
                v = lab[1]
                vn = cx.R.variant_name(e[2], v) if v != "otherwise" else None
                # follow straight-line code from tgt and collect bool constant assignments to a var
                cur = tgt
                seen = set()
                val = None
                while cur not in seen:
                    seen.add(cur)
                    for s in b.stmts(cur):
                        if s["k"] == "assign" and not s["pl"]["p"] and s["rv"]["k"] == "use":
                            ce = b.operand_expr(s["rv"]["op"])
                            if ce[0] == "const" and ce[2] == "bool" and b.locals[s["pl"]["l"]]["ty"] == "bool":
                                if not _is_drop_flag(b, s["pl"]["l"]):
                                    val = ce[1]
                    nx = b.succ[cur]
                    if len(nx) != 1 or b.term(cur)["k"] not in ("goto",):
                        break
                    cur = nx[0][0]
                if vn:
                    found[vn] = val
                else:
                    listed = [cx.R.variant_name(e[2], x) for x, _ in t["targets"]]
                    for n in names or []:
                        if n not in listed:
                            found[n] = val
        for k, v in want.items():
            inst.site(b, None, "mode %s -> resend=%s" % (k, found.get(k)))
            if found.get(k) != v:
                inst.violation(b.path, "resend[%s]" % k, "send mode %s maps to resend=%s, the property requires %s" % (k, found.get(k), v))


def _is_drop_flag(b, l):
    # drop flags are bool locals only ever assigned constants and never read by user code; the
    # resend local is read (moved into a tuple). Distinguish: a drop flag is used only in switches.
    for loc, s in b.assigns():
        rv = s["rv"]
        if rv["k"] == "agg":
            for o in rv["ops"]:
                if o["k"] in ("copy", "move") and o["pl"]["l"] == l:
                    return False
        if rv["k"] == "use" and rv["op"]["k"] in ("copy", "move") and rv["op"]["pl"]["l"] == l:
            return False
    return True


def run(cx):
    R = cx.R
    mode_table(cx)

    drop_guard(cx, "C12.b")
    rest_of_c12(cx)
    # "retransmitted until acknowledged" needs the resend deadlines to come due: the connection's clock
    # must reach the state flush() acts on
    from props.shared import half_connection_clock
    half_connection_clock(cx, "C12.g")
    # "not transmitted again once acknowledged / retransmitted until acknowledged" reads the per-fragment ack
    # flags: setter and tester must address the same bit
    from props.C04 import inst_fragment_flags
    inst_fragment_flags(cx, "C12.h")
    # the resend queue is examined head-first and the scan stops at the first entry that is not yet due
    from props.shared import heap_order
    heap_order(cx, "C12.i", ["resend"])
    # "retransmitted until acknowledged": a resend comes due a bounded time after each transmission (capped back-off)
    from props.shared import resend_schedule
    resend_schedule(cx, "C12.q")
    from props.shared import resend_ref_in_own_frame
    resend_ref_in_own_frame(cx, "C12.j")
    from props.shared import resend_refs_untouched
    resend_refs_untouched(cx, "C12.r")
    # the frame log keeps the whole list it is given
    from props.shared import ctor_initial_state
    ctor_initial_state(cx, "C12.s")
    # a flushing disconnect keeps stepping only while is_send_pending(): it must cover the resend queue, or sent-but-unacknowledged
    # reliable fragments stop being retransmitted when the application asks for a graceful close
    from props.shared import send_pending_covers_queues
    send_pending_covers_queues(cx, "C12.t")
    # "not transmitted again once the receiver has reported moving past the packet" compares window bases, which
    # are circular ids
    from props.idarith import id_arith_discipline
    id_arith_discipline(cx, "C12.k")
    from props.C11 import ack_frame_applies_both
    ack_frame_applies_both(cx, "C12.l")
    from props.C15 import group_width
    group_width(cx, "C12.m")
    # a frame forgotten too early makes its genuine acknowledgement an ack for an unknown frame: the fragment is resent
    # although it was acknowledged
    from props.shared import forget_shape
    forget_shape(cx, "C12.n")
    # a resync offered while fragments are still unsent lets the receiver skip a Reliable packet that is then never sent
    from props.C02 import inst_resync_guard
    inst_resync_guard(cx, "C12.o")
    from props.C11 import ack_advance_exact
    ack_advance_exact(cx, "C12.p")


def drop_guard(cx, iid):
    R = cx.R
    with cx.instance(iid, "T1 GUARD + T7", "stale drop only for TimeSensitive with flush_id != current; step bumps flush_id; send stamps it", floor=4) as inst:
        b = R.body("PacketSender::emit_packet")
        q = r"VecDeque::front\(arg1\.packet_send_queue\)"
        # the pop inside the drop loop = pop_front whose result is dropped, not unwrapped
        loops = b.loops()
        pops = []
        for loc, lab in call_sites(b, "VecDeque::pop_front", r"arg1\.packet_send_queue"):
            if any(loc.bb in L["body"] for L in loops):
                pops.append((loc, lab))
        cx.guard(inst, b, pops, [[r"is\(%s@Some\.0\.mode,TimeSensitive\)" % q, r"ne\(%s@Some\.0\.flush_id,arg2\)" % q]],
                 construct="pop_front(packet_send_queue) in drop loop",
                 why="only a TimeSensitive packet stamped with an older flush id may be discarded")
        hs = R.body("HalfConnection::step")
        ws = [(loc, ps) for loc, node, ps in hs.field_writes(r"arg1\.flush_id")]
        for loc, ps in ws:
            node = hs.node_at(loc)
            e = show(hs.rvalue_expr(node["rv"]))
            inst.site(hs, loc, "flush_id = " + e)
            if e != "u32::wrapping_add(arg1.flush_id,1)":
                inst.violation(hs.path, "write flush_id", "flush_id is advanced by `%s`, expected wrapping_add(flush_id,1)" % e, at=hs.span_at(loc))
        if ws:
            cx.followed_by(inst, hs, [(Loc(0, -1), "entry of step()")], [l for l, _ in ws], "flush_id bump", "write of flush_id")
        else:
            inst.violation(hs.path, "write flush_id", "step() never advances flush_id: TimeSensitive packets would never become stale")
        sn = R.body("HalfConnection::send")
        es = call_sites(sn, "PacketSender::enqueue_packet")
        for loc, lab in es:
            t = sn.node_at(loc)
            a = show(sn.operand_expr(t["args"][4]))
            inst.site(sn, loc, "enqueue_packet(.., flush_id=%s)" % a)
            if a != "arg1.flush_id":
                inst.violation(sn.path, "enqueue_packet flush_id", "packet stamped with `%s`, expected the connection's current flush_id" % a, at=sn.span_at(loc))



def rest_of_c12(cx):
    R = cx.R
    # C12.c resend flag guards -------------------------------------------------------------------------
    with cx.instance("C12.c", "T1 GUARD", "resend_queue.push in the pending loop requires entry.resend; resend_refs.push requires the resend argument", floor=3) as inst:
        b = R.body(EMIT)
        sinks = []
        for loc, lab in call_sites(b, "BinaryHeap::push", r"arg1\.resend_queue"):
            if "VecDeque::pop_front(arg1.pending_queue)" in show(b.call_expr(b.node_at(loc))):
                sinks.append((loc, "resend_queue.push(fragment popped from pending_queue)"))
        cx.guard(inst, b, sinks, [[r"Option::unwrap\(VecDeque::pop_front\(arg1\.pending_queue\)\)\.resend"]],
                 construct="resend_queue.push in pending loop", why="Unreliable/TimeSensitive fragments must never be queued for retransmission")
        p = R.body("DataFrameEmitter::push")
        s2 = call_sites(p, "Vec::push", r"FragmentRef::new\(arg2,arg3\)")
        cx.guard(inst, p, s2, [[r"arg4"]], construct="resend_refs.push", why="only resend-flagged fragments are tracked for acknowledgement")

    # C12.d retransmission guard ------------------------------------------------------------------------
    with cx.instance("C12.d", "T1 GUARD", "a retransmission requires the packet to be alive and the fragment unacknowledged", floor=1) as inst:
        b = R.body(EMIT)
        pk = r"BinaryHeap::peek\(arg1\.resend_queue\)@Some\.0\.fragment_ref"
        sinks = call_sites(b, "DataFrameEmitter::push", r"BinaryHeap::peek\(arg1\.resend_queue\)")
        cx.guard(inst, b, sinks, [[r"is\(Weak::upgrade\(%s\.packet\),Some\)" % pk,
                                   r"!PendingPacket::fragment_acknowledged\(RefCell::borrow\(Weak::upgrade\(%s\.packet\)@Some\.0\),%s\.fragment_id\)" % (pk, pk)]],
                 construct="DataFrameEmitter::push in resend loop", why="an acknowledged or skipped fragment must not be transmitted again")
        for loc, lab in sinks:
            fl = show(b.operand_expr(b.node_at(loc)["args"][3]))
            if fl != "true":
                inst.violation(b.path, "resend push flag", "a retransmission is pushed with resend=%s: its frame would not track the fragment, so the ack could never mark it" % fl, at=b.span_at(loc))
        sinks2 = call_sites(b, "DataFrameEmitter::push", r"VecDeque::front\(arg1\.pending_queue\)")
        for loc, lab in sinks2:
            fl = show(b.operand_expr(b.node_at(loc)["args"][3]))
            if fl != "VecDeque::front(arg1.pending_queue)@Some.0.resend":
                inst.violation(b.path, "first-send push flag", "a first transmission is pushed with resend=%s instead of the entry's own flag" % fl, at=b.span_at(loc))
        fr = r"VecDeque::front\(arg1\.pending_queue\)@Some\.0\.fragment_ref"
        cx.guard(inst, b, sinks2, [[r"is\(Weak::upgrade\(%s\.packet\),Some\)" % fr,
                                    r"!PendingPacket::fragment_acknowledged\(RefCell::borrow\(Weak::upgrade\(%s\.packet\)@Some\.0\),%s\.fragment_id\)" % (fr, fr)]],
                 construct="DataFrameEmitter::push in pending loop")

    # C12.e pending-queue discipline ------------------------------------------------------------------------
    pending_discipline(cx, "C12.e")
    # "retransmitted until acknowledged": shared with C02.d
    from props.C02 import inst_resend_pairing
    inst_resend_pairing(cx, "C12.f")


def pending_discipline(cx, iid):
    """T2: in the pending loop every cycle path pops pending_queue (the queue the loop condition
    tests) and no cycle path pops another queue; every Ok edge of push is followed by pop_front."""
    R = cx.R
    with cx.instance(iid, "T2 PAIR", "a fragment leaves the pending queue exactly when it was pushed; purge edges pop the same queue", floor=2) as inst:
        b = R.body(EMIT)
        hdr = None
        for L in b.loops():
            t = b.term(L["header"])
            if t["k"] == "call" and R.short(t.get("fn") or "") == "VecDeque::front" and "arg1.pending_queue" in show(b.call_expr(t)):
                hdr = L
        if hdr is None:
            inst.violation(b.path, "pending loop", "no loop headed by pending_queue.front() found (anchor)")
            return
        body = hdr["body"]
        inst.site(b, Loc(hdr["header"], len(b.stmts(hdr["header"]))), "loop while let Some(_) = pending_queue.front()")
        pops_same = [l for l in call_locs(b, "VecDeque::pop_front", r"arg1\.pending_queue") if l.bb in body]
        # (1) every cycle path (header -> ... -> back edge) passes a pop of the same queue
        w = cycle_avoiding(b, hdr, pops_same)
        if w is not None:
            inst.violation(b.path, "cycle without pending_queue.pop_front()",
                           "the loop `while let Some(_) = pending_queue.front()` has a cycle path that never pops pending_queue: "
                           "the condition cannot change and the loop does not terminate",
                           at=b.span_at(Loc(hdr["header"], 0)), detail={"offending_cycle": b.path_spans(w)[:30]})
        # (2) no pop of a different queue inside the loop body
        for loc, t in b.calls("BinaryHeap::pop"):
            if loc.bb in body:
                inst.site(b, loc, "pop of another queue inside the pending loop")
                inst.violation(b.path, "BinaryHeap::pop(resend_queue) in pending loop",
                               "a purge edge of the pending loop pops resend_queue instead of pending_queue (discards a live resend entry)",
                               at=b.span_at(loc))
        # (3) Ok edge of push is followed by pop_front
        for loc, lab in call_sites(b, "DataFrameEmitter::push", r"VecDeque::front\(arg1\.pending_queue\)"):
            inst.site(b, loc, "DataFrameEmitter::push(front of pending_queue)")


def cycle_avoiding(b, L, blockers):
    """is there a path header -> ... -> header inside loop L avoiding all blocker locs? returns path"""
    from collections import deque
    bl = {x.bb for x in blockers}
    h = L["header"]
    dq = deque([(y, [h, y]) for y, _ in b.succ[h] if y in L["body"]])
    seen = set()
    while dq:
        x, path = dq.popleft()
        if x == h:
            return path
        if x in seen or x in bl:
            continue
        seen.add(x)
        for y, _ in b.succ[x]:
            if y in L["body"]:
                dq.append((y, path + [y]))
    return None


SELFTEST = [
    {"name": "push every sent fragment onto the resend queue regardless of entry.resend",
     "edits": [{"file": "src/half_connection/mod.rs", "old": "if entry.resend {", "new": "if entry.resend || true {"}],
     "expect": ["C12.c"]},
    {"name": "Unreliable marked for resend",
     "edits": [{"file": "src/half_connection/packet_sender.rs", "old": "                SendMode::Unreliable => false,", "new": "                SendMode::Unreliable => true,"}],
     "expect": ["C12.a"]},
    {"name": "resend back-off exponent no longer capped",
     "edits": [{"file": "src/half_connection/mod.rs", "old": "let new_send_count = (entry.send_count + 1).min(MAX_SEND_COUNT);", "new": "let new_send_count = entry.send_count + 1;"}],
     "expect": ["C12.q"]},
]
