#!/usr/bin/env python3
"""Records, per rule instance, the number of sites matched on the current (reviewed) /repo tree into
/verif/floors.json.  Run by hand after reviewing a change of the rules; never at check time."""
import json, os, subprocess, glob
VERIF = os.path.dirname(os.path.dirname(os.path.abspath(__file__)))
floors = {}
for f in sorted(glob.glob(os.path.join(VERIF, "props", "C*.py"))):
    pid = os.path.basename(f)[:-3]
    subprocess.run([os.path.join(VERIF, "check"), pid, "quick"], cwd=VERIF, stdout=subprocess.DEVNULL)
    ev = json.load(open(os.path.join(VERIF, "evidence", pid + ".json")))
    for s in ev["coverage"]["samples"]:
        floors[s["instance"]] = s["sites_matched"]
json.dump({"_comment": "sites matched per instance on the reviewed tree; written by tools/update_floors.py, read by engine/rules.py", "floors": floors}, open(os.path.join(VERIF, "floors.json"), "w"), indent=1, sort_keys=True)
print(len(floors), "instances")

# the reviewed tree's function list: later-added helper functions are inlined into their known callers (engine/mirlib.py)
import sys
sys.path.insert(0, os.path.join(VERIF, "engine"))
from extract import extract  # noqa: E402
fns = set()
for cfg in ("R", "D"):
    d, _ = extract("/repo", cfg)
    fns |= {f["path"] for f in d["fns"]}
json.dump({"_comment": "function def-paths of the reviewed tree (configs R and D); crate-local functions NOT in this list are treated as helpers extracted later and are inlined into their known callers before the rules run (engine/mirlib.py inline_unknown_helpers); written by tools/update_floors.py", "fns": sorted(fns)}, open(os.path.join(VERIF, "known_fns.json"), "w"), indent=0)
print(len(fns), "known functions")
