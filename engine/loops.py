"""T5 LOOP: variant classifier for natural loops (DESIGN.md §4 C03.L, Appendix B)."""
import re
from collections import deque

from mirlib import Loc, show, sp_str

ITER_OK = re.compile(
    r"^(<(std::iter::Rev<|std::iter::Skip<)*("
    r"std::ops::Range<|std::ops::RangeInclusive<|std::slice::Iter<|std::slice::IterMut<|"
    r"std::vec::IntoIter<|std::collections::vec_deque::Iter<)"
    r"|std::iter::range::<impl std::iter::Iterator for std::ops::Range(Inclusive)?<(u8|u16|u32|u64|usize|i8|i16|i32|i64|isize)>>::next$)"
)

_FINITE_BASE = ("std::ops::Range<", "std::ops::RangeInclusive<", "std::slice::Iter<", "std::slice::IterMut<", "std::vec::IntoIter<",
                "std::collections::vec_deque::Iter<", "std::collections::vec_deque::IterMut<", "std::collections::vec_deque::IntoIter<",
                "std::option::IntoIter<", "std::option::Iter<", "std::slice::Chunks<", "std::slice::ChunksExact<", "std::slice::Windows<",
                "std::collections::hash_map::Iter<", "std::collections::hash_map::Values<", "std::collections::hash_map::Keys<")
_ADAPT1 = ("std::iter::Rev<", "std::iter::Skip<", "std::iter::Enumerate<", "std::iter::Take<", "std::iter::Map<", "std::iter::Filter<",
           "std::iter::TakeWhile<", "std::iter::SkipWhile<", "std::iter::StepBy<", "std::iter::Peekable<", "std::iter::Cloned<",
           "std::iter::Copied<", "std::iter::FilterMap<", "std::iter::Inspect<")
_ADAPT2 = ("std::iter::Zip<", "std::iter::Chain<")


def _generic_args(t):
    """top-level generic arguments of `path<a, b, ...>`"""
    i = t.index("<")
    depth, cur, out = 0, "", []
    for ch in t[i + 1:]:
        if ch == "<":
            depth += 1
        elif ch == ">":
            if depth == 0:
                break
            depth -= 1
        if ch == "," and depth == 0:
            out.append(cur.strip())
            cur = ""
        else:
            cur += ch
    if cur.strip():
        out.append(cur.strip())
    return [a for a in out if not a.startswith("'")]


def finite_iter_type(t):
    """is the iterator type finite by construction: a finite std source, possibly under adaptors that cannot add elements"""
    t = t.strip()
    if any(t.startswith(x) for x in _FINITE_BASE):
        return True
    if any(t.startswith(x) for x in _ADAPT1):
        a = _generic_args(t)
        return bool(a) and finite_iter_type(a[0])
    if any(t.startswith(x) for x in _ADAPT2):
        a = _generic_args(t)
        return len(a) >= 2 and finite_iter_type(a[0]) and finite_iter_type(a[1])
    return False


def iter_ok(inst):
    if ITER_OK.match(inst):
        return True
    m = re.fullmatch(r"<(.*) as std::iter::Iterator>::next", inst)
    return bool(m) and finite_iter_type(m.group(1))


PEEK_POP = {
    "VecDeque::front": "VecDeque::pop_front",
    "BinaryHeap::peek": "BinaryHeap::pop",
    "FrameAckQueue::peek": "FrameAckQueue::pop",
}
PUSHES = ("VecDeque::push_back", "VecDeque::push_front", "BinaryHeap::push", "Vec::push", "VecDeque::insert")


def norm_vars(s):
    return re.sub(r"var\d+", "var", s)


def first_decision(b, L):
    """follow single-successor blocks from the header; return (bb, calls_seen, switch_term|None)"""
    cur = L["header"]
    calls = []
    seen = set()
    while cur not in seen:
        seen.add(cur)
        t = b.term(cur)
        if t["k"] == "call" and t.get("fn"):
            calls.append((cur, t))
        if t["k"] == "switch":
            return cur, calls, t
        nx = [y for y, _ in b.succ[cur]]
        if len(nx) != 1 or nx[0] not in L["body"]:
            return cur, calls, None
        cur = nx[0]
    return cur, calls, None


def cycle_avoiding(b, L, blocker_bbs):
    """a path header -> ... -> header staying inside L that avoids all blocker blocks, or None"""
    h = L["header"]
    if h in blocker_bbs:
        return None
    dq = deque([(y, [h, y]) for y, _ in b.succ[h] if y in L["body"]])
    seen = set()
    while dq:
        x, path = dq.popleft()
        if x == h:
            return path
        if x in seen or x in blocker_bbs:
            continue
        seen.add(x)
        for y, _ in b.succ[x]:
            if y in L["body"]:
                dq.append((y, path + [y]))
    return None


def loop_entry_edges(b, L):
    return [(p, lab) for p, lab in b.pred[L["header"]] if p not in L["body"] and p in b.reachable]


def writes_in_loop(b, L, place_str):
    out = []
    for bb in L["body"]:
        for i, s in enumerate(b.stmts(bb)):
            if s["k"] == "assign":
                d = show(b.place_expr(s["pl"])) if s["pl"]["p"] else ("var%d" % s["pl"]["l"] if not b.is_single_def(s["pl"]["l"]) else None)
                if d == place_str:
                    out.append((Loc(bb, i), s))
        t = b.term(bb)
        if t["k"] == "call":
            d = t["dest"]
            ds = show(b.place_expr(d)) if d["p"] else ("var%d" % d["l"] if not b.is_single_def(d["l"]) else None)
            if ds == place_str:
                out.append((Loc(bb, len(b.stmts(bb))), t))
    return out


class LoopInfo:
    def __init__(self, b, L):
        self.b = b
        self.L = L
        self.cls = None
        self.ok = False
        self.why = ""
        self.desc = ""
        self.detail = {}


def _general_drain(b, L, fa, info):
    """A loop in which every cycle through the header pops queue q, nothing in the loop pushes to q, and every pop
    site is reached only after q was seen non-empty in that iteration (is(peek/front(q), Some) holds there, or the
    popped value itself is unwrapped/tested) terminates: q shrinks on every iteration and an empty q cannot
    complete a cycle.  Covers `while let Some(x) = q.peek() { …; q.pop() }` however the emptiness test is spelled
    (`loop { let due = match q.peek() {…}; if !due { break } … }`)."""
    from mirlib import dnf_holds
    F = b.facts
    pops_by_q = {}
    for loc, t in b.calls():
        if loc.bb not in L["body"] or not t.get("fn") or not t["args"]:
            continue
        sn = F.short(t["fn"])
        if sn in PEEK_POP.values():
            pops_by_q.setdefault((sn, show(b.operand_expr(t["args"][0]))), []).append(loc)
    for (pop, q), locs in sorted(pops_by_q.items()):
        if cycle_avoiding(b, L, {l.bb for l in locs}) is not None:
            continue
        pushes = []
        for bb in L["body"]:
            t = b.term(bb)
            if t["k"] == "call" and t.get("fn") and F.short(t["fn"]) in PUSHES and show(b.operand_expr(t["args"][0])) == q:
                pushes.append(Loc(bb, len(b.stmts(bb))))
        peeks = [k for k, v in PEEK_POP.items() if v == pop]
        ok_all = True
        for l in locs:
            lits = [[r"is\(%s\(%s\),Some\)" % (re.escape(pk), re.escape(q))] for pk in peeks]
            g, _ = dnf_holds(fa.at(l), lits)
            if not g:
                ok_all = False
        if not ok_all:
            continue
        info.cls = "drain"
        info.desc = "loop popping %s(%s) after a non-emptiness test" % (pop, q)
        info.detail["queue"] = q
        info.detail["pops_in_loop"] = len(locs)
        info.detail["pushes_in_loop"] = [b.span_at(p_) for p_ in pushes]
        info.pushes = pushes
        info.ok = not pushes
        if pushes:
            info.why = "the loop also pushes to %s (needs a reviewed table entry)" % q
        return True
    return False


def classify(b, L, bitwidth, fa):
    """returns LoopInfo; cls in iterator|drain|counter|downcounter|unknown"""
    F = b.facts
    info = LoopInfo(b, L)
    dbb, calls, sw = first_decision(b, L)
    info.at = sp_str(b.term(L["header"]).get("sp"))
    if sw is None:
        # `loop { ... }`: describe by the first call
        info.desc = "loop{" + (F.short(calls[0][1]["fn"]) if calls else "") + "}"
        info.cls = "unknown"
        _general_drain(b, L, fa, info)
        return info
    e = b.operand_expr(sw["op"])
    info.desc = norm_vars(show(e))
    # 1. iterator ---------------------------------------------------------------------------------
    if e[0] == "discr" and e[1][0] == "call" and e[1][1].endswith("::next") and calls:
        cbb, ct = calls[-1]
        inst = ct.get("inst", "")
        info.cls = "iterator"
        info.desc = "for _ in " + re.sub(r"<'[a-z_]+, ", "<", inst)[:80]
        if not iter_ok(inst):
            info.why = "iterator type not in the finite-by-construction list: " + inst
            return info
        itv = ct["args"][0]
        # the iterator variable must not be re-created inside the loop: chase `&mut *&mut it`
        tgt = itv["pl"]["l"] if itv["k"] in ("copy", "move") else None
        hops = 0
        while tgt is not None and b.is_single_def(tgt) and hops < 8:
            loc, kind, node = b.defs[tgt][0]
            if kind == "assign" and node["rv"]["k"] == "ref" and all(p == "*" for p in node["rv"]["pl"]["p"]):
                tgt = node["rv"]["pl"]["l"]
            elif kind == "assign" and node["rv"]["k"] == "use" and node["rv"]["op"]["k"] in ("copy", "move") and all(p == "*" for p in node["rv"]["op"]["pl"]["p"]):
                tgt = node["rv"]["op"]["pl"]["l"]
            else:
                break
            hops += 1
        if tgt is None:
            info.why = "iterator operand is not a local"
            return info
        for loc, kind, node in b.defs.get(tgt, []):
            if loc.bb in L["body"]:
                info.why = "iterator is re-assigned inside the loop"
                return info
        info.ok = True
        return info
    # 2. drain ---------------------------------------------------------------------------------------
    if e[0] == "discr" and e[1][0] == "call" and e[1][1] in PEEK_POP:
        q = show(e[1][2][0])
        info.cls = "drain"
        info.desc = "while let Some(_) = %s(%s)" % (e[1][1], q)
        pop = PEEK_POP[e[1][1]]
        pops = {loc.bb for loc, t in b.calls(pop) if loc.bb in L["body"] and show(b.operand_expr(t["args"][0])) == q}
        w = cycle_avoiding(b, L, pops)
        info.detail["queue"] = q
        info.detail["pops_in_loop"] = len(pops)
        if w is not None:
            info.why = "a cycle path never pops %s: the loop condition cannot change" % q
            info.detail["offending_cycle"] = b.path_spans(w)[:24]
            return info
        pushes = []
        for bb in L["body"]:
            t = b.term(bb)
            if t["k"] == "call" and t.get("fn") and F.short(t["fn"]) in PUSHES and show(b.operand_expr(t["args"][0])) == q:
                pushes.append(Loc(bb, len(b.stmts(bb))))
        info.detail["pushes_in_loop"] = [b.span_at(p) for p in pushes]
        info.pushes = pushes
        info.ok = not pushes
        if pushes:
            info.why = "the loop also pushes to %s (needs a reviewed table entry)" % q
        return info
    # 3. counter ---------------------------------------------------------------------------------------
    if e[0] == "bin" and e[1] == "Ne":
        info.cls = "counter"
        # locate the MIR operands of the comparison
        cmp_stmt = None
        if sw["op"]["k"] in ("copy", "move") and not sw["op"]["pl"]["p"]:
            l = sw["op"]["pl"]["l"]
            if b.is_single_def(l):
                loc, kind, node = b.defs[l][0]
                if kind == "assign" and node["rv"]["k"] == "bin":
                    cmp_stmt = node["rv"]
        sides = [(e[2], cmp_stmt["a"] if cmp_stmt else None), (e[3], cmp_stmt["b"] if cmp_stmt else None)]
        for (ce, cop), (be, bop) in (sides, sides[::-1]):
            cs = show(ce)
            steps = []
            for loc, node in writes_in_loop(b, L, cs):
                if node["k"] == "assign":
                    rv = show(b.rvalue_expr(node["rv"]))
                elif node["k"] == "call":
                    rv = show(b.call_expr(node))
                else:
                    continue
                m = re.fullmatch(r"(packet_id::add|u32::wrapping_add)\(%s,1\)" % re.escape(cs), rv)
                steps.append((loc, rv, m.group(1) if m else None))
            if not steps:
                continue
            info.detail["counter"] = norm_vars(cs)
            info.detail["bound"] = norm_vars(show(be))
            if any(s[2] is None for s in steps):
                info.why = "counter is also written by something other than +1: " + "; ".join(s[1] for s in steps if s[2] is None)[:200]
                return info
            stepfn = steps[0][2]
            info.detail["step"] = stepfn
            w = cycle_avoiding(b, L, {s[0].bb for s in steps})
            if w is not None:
                info.why = "a cycle path does not advance the counter"
                info.detail["offending_cycle"] = b.path_spans(w)[:24]
                return info
            bs = show(be)
            if writes_in_loop(b, L, bs):
                info.why = "the bound %s is written inside the loop" % bs
                return info
            # domain of the bound
            if stepfn == "packet_id::add":
                cw = bitwidth.loc_width(("ret", "packet_id::add"), 32)
                bw = bitwidth.operand(b, bop, ()) if bop is not None else 64
                info.detail["bound_bits"] = bw
                info.detail["counter_domain_bits"] = cw
                if bw > cw:
                    # a validity test established on every path into the loop also does
                    alts = fa.in_state.get(L["header"])
                    ent = loop_entry_edges(b, L)
                    ok_fact = False
                    if ent:
                        ok_fact = True
                        pat = re.compile(r"packet_id::is_valid\(%s\)" % re.escape(bs))
                        pat2 = re.compile(r"(lt\(%s,(packet_id::SPAN|1048576)\)|le\(%s,(packet_id::MASK|1048575)\))" % (re.escape(bs), re.escape(bs)))
                        for p, lab in ent:
                            st = fa.in_state.get(p)
                            if st is None:
                                continue
                            for alt in st:
                                if not any(pat.fullmatch(x) or pat2.fullmatch(x) for x in alt):
                                    ok_fact = False
                    if not ok_fact:
                        info.why = ("the bound `%s` can carry %d significant bits but the counter only takes %d-bit values "
                                    "(it is stepped by packet_id::add): for a bound outside the id space the loop never terminates; "
                                    "no packet_id::is_valid(bound) test dominates the loop" % (norm_vars(bs), bw, cw))
                        return info
                    info.detail["domain_by"] = "is_valid guard"
                else:
                    info.detail["domain_by"] = "bit-width analysis"
            else:
                info.detail["domain_by"] = "full-range u32 counter (terminates within the id space; span bound is a linked guard)"
            info.ok = True
            return info
        info.why = "no +1 step of either comparison operand found inside the loop"
        return info
    # 4. down-counter -----------------------------------------------------------------------------------
    # `while n > 0 { .. n -= 1 }`, also spelled `loop { if n == 0 { break } .. n -= 1 }`
    if e[0] == "bin" and ((e[1] in ("Gt", "Ne") and show(e[3]) == "0") or (e[1] in ("Eq", "Ne") and show(e[2]) == "0") or (e[1] == "Eq" and show(e[3]) == "0") or (e[1] == "Lt" and show(e[2]) == "0")):
        cs = show(e[2]) if show(e[3]) == "0" else show(e[3])
        ws = writes_in_loop(b, L, cs)
        decs = [loc for loc, node in ws if node["k"] == "assign" and show(b.rvalue_expr(node["rv"])) == "sub(%s,1)" % cs]
        if decs and len(decs) == len(ws):
            info.cls = "downcounter"
            info.detail["counter"] = cs
            w = cycle_avoiding(b, L, {d.bb for d in decs})
            if w is None:
                info.ok = True
            else:
                info.why = "a cycle path does not decrement " + cs
                info.detail["offending_cycle"] = b.path_spans(w)[:24]
            return info
    info.cls = "unknown"
    _general_drain(b, L, fa, info)
    return info
