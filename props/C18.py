"""C18 — unverified addresses cannot use the server as an amplifier (DESIGN.md §4 C18)."""
import re
from collections import deque
from mirlib import show, Loc, dnf_holds
from rules import call_sites, call_locs, agg_sites

SCOPE = ("Decides, exhaustively over the enumerated send sites of the server: the only transmissions towards an "
         "address whose state is absent or Pending are one reply per SYN in handle_handshake_syn (at most one send "
         "on any path, none for an address that already has an entry) and the SYN-ACK resend of the handshake "
         "timer, which is guarded by a decrementing retry count; every other send requires an Active, Closing or "
         "Closed connection; a SYN is accepted only at exactly the padded size; and the byte budget computed from "
         "the source's own constants and writer literals satisfies A*(1+n) < S and E < S (SYN-ACK length A, error "
         "length E, SYN length S, n retries), stated as an inequality so that retuning that keeps the budget is "
         "not an alarm. Not decided: bytes on a real socket.")

SYN = "server::Server::handle_handshake_syn"


def literal_len(R, fn):
    """length of the byte-array literal a fixed-layout writer boxes"""
    b = R.body(fn)
    for loc, t in b.calls("Box::new"):
        e = b.operand_expr(t["args"][0])
        if e[0] == "agg" and e[1] == "array":
            return len(e[2])
        if e[0] == "agg" and e[1].startswith("repeat:"):
            return int(e[1].split(":")[1])
    return None


def run(cx):
    R = cx.R
    with cx.instance("C18.a", "T3 WHO-MAY + T1", "sends towards an absent/Pending address are exactly: one reply per SYN and the guarded SYN-ACK resend; all other sends need Active/Closing/Closed", floor=8) as inst:
        st = r"[\w:.@\[\](),]*state"
        n_pre = 0
        for b in R.all_bodies():
            if not b.path.startswith("server::"):
                continue
            fa = cx.fa(b, kill_fields=False)
            for loc, lab in call_sites(b, "UdpSocket::send_to"):
                alts = fa.at(loc)
                if b.path == SYN:
                    n_pre += 1
                    inst.site(b, loc, "pre-handshake reply in handle_handshake_syn")
                    continue
                verified, _ = dnf_holds(alts, [[r"is\(%s,Active\)" % st], [r"is\(%s,Closing\)" % st], [r"is\(%s,Closed\)" % st]])
                pend, _ = dnf_holds(alts, [[r"is\(%s,Pending\)" % st]])
                if verified:
                    inst.site(b, loc, "send to a verified address")
                elif pend and b.path == "server::Server::handle_event":
                    n_pre += 1
                    inst.site(b, loc, "SYN-ACK resend (Pending)")
                    cx.guard(inst, b, [(loc, "SYN-ACK resend")], [[r"ne\(0,arg2\.count\)"]], construct="unbounded SYN-ACK resend",
                             why="retransmissions to an unverified address must be bounded by the retry count")
                    decs = [l for l, node, ps in b.field_writes(r"arg2\.count") if show(b.rvalue_expr(node["rv"])) == "sub(arg2.count,1)"]
                    cx.followed_by(inst, b, [(loc, "SYN-ACK resend")], decs, "resend without count decrement", "event.count -= 1")
                    t = b.node_at(loc)
                    if "reply_bytes" not in show(b.call_expr(t)):
                        inst.violation(b.path, "resend payload", "the Pending-state resend does not transmit the stored SYN-ACK bytes", at=b.span_at(loc))
                else:
                    inst.site(b, loc, "send in unknown state")
                    inst.violation(b.path, "send_to without verified state", "a datagram is sent to an address whose connection state is not known to be Active/Closing/Closed (amplification towards an unverified address)", at=b.span_at(loc))
        # the frame sink used by flush is reached only under Active
        fl = R.body("server::Server::flush_active_clients")
        cx.guard(inst, fl, call_sites(fl, "HalfConnection::flush"), [[r"is\(%s,Active\)" % st]], construct="flush outside Active")
        # at most one send on any path of handle_handshake_syn, none for a known address
        b = R.body(SYN)
        sends = call_locs(b, "UdpSocket::send_to")
        for s in sends:
            seen = set()
            dq = deque([y for y, _ in b.succ[s.bb]])
            while dq:
                x = dq.popleft()
                if x in seen:
                    continue
                seen.add(x)
                if any(o.bb == x for o in sends):
                    inst.violation(b.path, "two sends on one path", "handle_handshake_syn can transmit more than one datagram for a single SYN", at=b.span_at(s))
                    break
                for y, _ in b.succ[x]:
                    dq.append(y)
        cx.guard(inst, b, [(l, "reply") for l in sends], [[r"is\(HashMap::get\(arg1\.clients,arg2\),None\)"]], construct="reply to a repeated SYN",
                 why="a repeated SYN for a known address must not trigger another transmission")
        if n_pre < 3:
            inst.violation("<server>", "pre-handshake sends", "fewer pre-handshake send sites than counted by hand (anchor)")
    with cx.instance("C18.b", "T1x EXACT-GUARD", "a SYN is parsed only at exactly HANDSHAKE_SYN_FRAME_PAYLOAD_SIZE bytes", floor=1) as inst:
        b = R.body("frame::serial::read_handshake_syn_payload")
        somes = [(loc, "return Some(SYN)") for loc, s in b.assigns() if not s["pl"]["p"] and s["pl"]["l"] == 0 and s["rv"]["k"] == "agg" and s["rv"].get("variant") == "Some"]
        if not somes:
            inst.violation(b.path, "Some return", "read_handshake_syn_payload has no Some return (anchor)")
        cx.guard(inst, b, somes, [[r"eq\(\[T\]::len\(arg1\),frame::serial::HANDSHAKE_SYN_FRAME_PAYLOAD_SIZE\)"]], construct="undersized SYN accepted",
                 why="an undersized connection request must be ignored, or the reply would exceed what was received")
    with cx.instance("C18.c", "T9 CONST (budget inequality)", "A*(1+n) < S and E < S over the source's constants and writer literals", floor=3) as inst:
        S = literal_len(R, "frame::serial::write_handshake_syn")
        A = literal_len(R, "frame::serial::write_handshake_syn_ack")
        E = literal_len(R, "frame::serial::write_handshake_error")
        n = R.const_int("server::HANDSHAKE_RESEND_COUNT")
        ov = R.const_int("frame::serial::FRAME_OVERHEAD")
        Sr = R.const_int("frame::serial::HANDSHAKE_SYN_FRAME_PAYLOAD_SIZE") + ov
        inst.site("<const>", None, "S(writer)=%s S(reader)=%d A=%s E=%s n=%d" % (S, Sr, A, E, n))
        if None in (S, A, E):
            inst.violation("frame::serial", "writer literals", "could not read the handshake writers' byte-array literals (anchor)")
        else:
            inst.site("<const>", None, "A*(1+n) = %d < S = %d" % (A * (1 + n), min(S, Sr)))
            inst.site("<const>", None, "E = %d < S = %d" % (E, min(S, Sr)))
            if not A * (1 + n) < min(S, Sr):
                inst.violation("server::HANDSHAKE_RESEND_COUNT", "SYN-ACK budget", "the server may send %d x %d = %d bytes of SYN-ACK to an unverified address that sent %d bytes" % (1 + n, A, A * (1 + n), min(S, Sr)))
            if not E < min(S, Sr):
                inst.violation("frame::serial::write_handshake_error", "error budget", "an error reply of %d bytes is not smaller than the %d-byte request" % (E, min(S, Sr)))
        # n is really the number of resends: the SYN-ACK timer is armed with HANDSHAKE_RESEND_COUNT and every resend
        # towards a Pending address is guarded by count > 0 and followed by count -= 1 before the timer is re-queued
        hs = R.body("server::Server::handle_handshake_syn")
        armed = 0
        for loc, t in hs.calls("event_queue::Event::new"):
            args = [show(a) for a in hs.call_expr(t)[2]]
            if "ResendHandshakeSynAck" in args[1]:
                armed += 1
                inst.site(hs, loc, "Event::new(_, ResendHandshakeSynAck, _, %s)" % args[3])
                if args[3] != "server::HANDSHAKE_RESEND_COUNT":
                    inst.violation(hs.path, "SYN-ACK resend budget", "the SYN-ACK resend timer is armed with `%s` resends, not the constant the budget is computed from" % args[3][:120], at=hs.span_at(loc))
        if armed != 1:
            inst.violation(hs.path, "SYN-ACK timer", "expected exactly one ResendHandshakeSynAck timer per accepted SYN, found %d" % armed)
        he = R.body("server::Server::handle_event")
        fah = cx.fa(he)
        decs = [l for l, node, ps in he.field_writes(r"arg2\.count") if node["k"] == "assign" and show(he.rvalue_expr(node["rv"])) == "sub(arg2.count,1)"]
        other = [l for l, node, ps in he.field_writes(r"arg2\.count") if l not in decs]
        for l in other:
            inst.violation(he.path, "event.count write", "the retry counter is written by something other than `count -= 1`", at=he.span_at(l))
        pend_sends = [(loc, lab) for loc, lab in call_sites(he, "UdpSocket::send_to") if dnf_holds(fah.at(loc), [[r"is\(.*\.state,Pending\)"]])[0]]
        for loc, lab in pend_sends:
            inst.site(he, loc, "SYN-ACK resend")
        cx.guard(inst, he, pend_sends, [[r"ne\(0,arg2\.count\)"]], construct="SYN-ACK resend without budget")
        cx.followed_by(inst, he, pend_sends, decs, "SYN-ACK resend not counted", "event.count -= 1")
        if S is not None and A is not None:
            if A != R.const_int("frame::serial::HANDSHAKE_SYN_ACK_FRAME_PAYLOAD_SIZE") + ov:
                inst.violation("frame::serial::write_handshake_syn_ack", "SYN-ACK length", "writer literal length %d differs from the reader's expected size" % A)

    from props.shared import syn_constructed_once
    syn_constructed_once(cx, "C18.d")

SELFTEST = [
    {"name": "raise HANDSHAKE_RESEND_COUNT to 100 at the server",
     "edits": [{"file": "src/server/mod.rs", "old": "static HANDSHAKE_RESEND_COUNT: u8 = 10;", "new": "static HANDSHAKE_RESEND_COUNT: u8 = 100;"}],
     "expect": ["C18.c"]},
    {"name": "accept undersized SYN payloads",
     "edits": [{"file": "src/frame/serial/mod.rs", "old": "    if data.len() != HANDSHAKE_SYN_FRAME_PAYLOAD_SIZE {\n        return None;\n    }", "new": "    if data.len() < 18 {\n        return None;\n    }", "count": 1}],
     "expect": ["C18.b"]},
    {"name": "benign: retune HANDSHAKE_RESEND_COUNT to 8 (budget still holds)",
     "edits": [{"file": "src/server/mod.rs", "old": "static HANDSHAKE_RESEND_COUNT: u8 = 10;", "new": "static HANDSHAKE_RESEND_COUNT: u8 = 8;"}],
     "expect": []},
]
