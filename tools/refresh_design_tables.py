#!/usr/bin/env python3
"""re-generates the seeded tables between the <!-- seeded-table-X --> markers of DESIGN.md"""
import os, re, subprocess
VERIF = os.path.dirname(os.path.dirname(os.path.abspath(__file__)))
p = os.path.join(VERIF, "DESIGN.md")
s = open(p).read()
for tag, rx in (("b", r"C\d+b-\d"), ("c", r"C\d+c-\d"), ("d", r"C\d+d-\d"), ("e", r"C\d+e-\d"), ("f", r"C\d+f-\d"), ("g", r"C\d+g-\d"), ("h", r"C\d+h-\d"), ("i", r"C\d+i-\d"), ("j", r"C\d+j-\d")):
    a, b = "<!-- seeded-table-%s -->" % tag, "<!-- /seeded-table-%s -->" % tag
    if a in s and b in s:
        tbl = subprocess.run(["python3", os.path.join(VERIF, "tools", "seeded_table.py"), rx], stdout=subprocess.PIPE, text=True).stdout
        s = s[: s.index(a) + len(a)] + "\n" + tbl + s[s.index(b):]
open(p, "w").write(s)
