"""C17 — server enforces its connection limits (DESIGN.md §4 C17)."""
import re
from mirlib import show, Loc, dnf_holds
from rules import call_sites, call_locs, agg_sites

SCOPE = ("Decides that the two capacity guards dominate the two growth sites on every path: `clients.insert` only "
         "under clients.len() < max_total_connections (and active < max_active), `active_clients.push` only under "
         "active_clients.len() < max_active_connections in the promoting body; that the refusing edge answers "
         "ServerFull; that every write of the Fin state to a mapped client is paired with clients.remove, and that "
         "step() prunes active_clients by is_active. Not decided: counts over histories.")

SYN = "server::Server::handle_handshake_syn"
ACK = "server::Server::handle_handshake_ack"


def run(cx):
    R = cx.R
    with cx.instance("C17.a", "T1 GUARD", "clients.insert requires clients.len() < max_total_connections; SYN accepted only under active < max_active too", floor=1) as inst:
        b = R.body(SYN)
        sinks = call_sites(b, "HashMap::insert", r"arg1\.clients")
        cx.guard(inst, b, sinks, [[r"lt\(HashMap::len\(arg1\.clients\),arg1\.config\.max_total_connections\)"]],
                 construct="clients.insert without total-capacity guard",
                 why="the table of tracked connections can grow past max_total_connections")
        cx.guard(inst, b, sinks, [[r"lt\(Vec::len\(arg1\.active_clients\),arg1\.config\.max_active_connections\)"]],
                 construct="clients.insert without active-capacity guard",
                 why="a handshake is admitted although the active limit is already reached")
        # who-may-insert
        for ob in R.all_bodies():
            if ob.path != b.path and call_sites(ob, "HashMap::insert", r"\.clients"):
                inst.violation(ob.path, "HashMap::insert(clients)", "clients map grows outside handle_handshake_syn")
    with cx.instance("C17.a.refuse", "T1 GUARD + T8", "the capacity-refusing edge replies ServerFull and returns before any insert", floor=1) as inst:
        b = R.body(SYN)
        sf = [(loc, lab) for loc, lab in agg_sites(b, r"HandshakeErrorFrame") if "ServerFull" in show(b.rvalue_expr(b.node_at(loc)["rv"]))]
        cx.guard(inst, b, sf, [[r"le\(arg1\.config\.max_total_connections,HashMap::len\(arg1\.clients\)\)"],
                               [r"le\(arg1\.config\.max_active_connections,Vec::len\(arg1\.active_clients\)\)"]],
                 construct="ServerFull reply", why="ServerFull must be sent exactly when a limit is reached")
        ins = call_locs(b, "HashMap::insert", r"arg1\.clients")
        for loc, lab in sf:
            # from the ServerFull reply no insert is reachable
            w = b.reach_exit_avoiding(loc, [])
            from collections import deque
            seen = set(); dq = deque([loc.bb]); hit = False
            while dq:
                x = dq.popleft()
                if x in seen: continue
                seen.add(x)
                if any(i.bb == x for i in ins) and x != loc.bb: hit = True
                for y, _ in b.succ[x]: dq.append(y)
            if hit:
                inst.violation(b.path, "insert after ServerFull", "a refused SYN still reaches clients.insert", at=b.span_at(loc))
    with cx.instance("C17.b", "T1 GUARD", "active_clients.push requires active_clients.len() < max_active_connections in the promoting body", floor=1) as inst:
        b = R.body(ACK)
        sinks = call_sites(b, "Vec::push", r"arg1\.active_clients")
        cx.guard(inst, b, sinks, [[r"lt\(Vec::len\(arg1\.active_clients\),arg1\.config\.max_active_connections\)"]],
                 construct="Vec::push(active_clients)",
                 why="promotion to Active is not bounded by max_active_connections: SYNs admitted while below the limit can all be promoted later")
        for ob in R.all_bodies():
            if ob.path != b.path and call_sites(ob, "Vec::push", r"\.active_clients"):
                inst.violation(ob.path, "Vec::push(active_clients)", "active_clients grows outside handle_handshake_ack")
    with cx.instance("C17.c", "T2 PAIR", "every write of State::Fin to a mapped client is followed by clients.remove; step() prunes active_clients by is_active", floor=5) as inst:
        n = 0
        for ob in R.all_bodies():
            if not ob.path.startswith("server::Server::"):
                continue
            fins = []
            for loc, s in ob.assigns():
                if s["pl"]["p"] and show(ob.place_expr(s["pl"])).endswith(".state") and show(ob.rvalue_expr(s["rv"])).startswith("State::Fin"):
                    fins.append((loc, "state = Fin"))
            if fins:
                n += len(fins)
                cx.followed_by(inst, ob, fins, call_locs(ob, "HashMap::remove", r"arg1\.clients"), "state = Fin without clients.remove", "clients.remove(address)")
        # a RemoteClient cannot take itself out of the server's address map: outside the server nothing may make a
        # server-side client terminal (its slot would never be released)
        for ob in R.all_bodies():
            if not ob.path.startswith("server::remote_client::"):
                continue
            for loc, s2 in ob.assigns():
                if s2["pl"]["p"] and show(ob.place_expr(s2["pl"])).endswith(".state") and show(ob.rvalue_expr(s2["rv"])).startswith("State::Fin"):
                    inst.violation(ob.path, "state = Fin outside the server", "%s makes a server-side client terminal without the server removing it from its address map: the slot is never released" % ob.path.split("::")[-1], at=ob.span_at(loc))
        st = R.body("server::Server::step")
        ret = call_sites(st, "Vec::retain", r"arg1\.active_clients")
        for loc, lab in ret:
            inst.site(st, loc, "active_clients.retain(is_active)")
        if not ret:
            inst.violation(st.path, "active_clients.retain", "step() no longer prunes active_clients")
        else:
            cl = R.closures_of(st.path)
            ok = any(call_sites(R.body(c), "RemoteClient::is_active") for c in cl)
            if not ok:
                # is_active written out in the closure: true exactly when the client's state is Active
                from rules import return_alts
                from mirlib import alt_satisfies
                for c in cl:
                    cb = R.body(c)
                    tr, fl = return_alts(cx, cb, True), return_alts(cx, cb, False)
                    if tr and fl and all(alt_satisfies(a, [r"is\(.*\.state,Active\)"]) for _, a in tr) and all(alt_satisfies(a, [r"!is\(.*\.state,Active\)"]) or any(re.fullmatch(r"is\(.*\.state,(Pending|Closing|Closed|Fin)\)", x) for x in a) for _, a in fl):
                        ok = True
            if not ok:
                inst.violation(st.path, "retain predicate", "active_clients is not pruned by RemoteClient::is_active")
            cx.followed_by(inst, st, [(Loc(0, -1), "entry of step()")], [l for l, _ in ret], "step without prune", "active_clients.retain")
        ia = R.body("RemoteClient::is_active")
        ok = False
        for loc, s in ia.assigns():
            pass
        fa = cx.fa(ia)
        for loc, s in ia.assigns():
            if not s["pl"]["p"] and s["pl"]["l"] == 0 and show(ia.rvalue_expr(s["rv"])) == "true":
                inst.site(ia, loc, "is_active -> true")
                from mirlib import dnf_holds
                good, _ = dnf_holds(fa.at(loc), [[r"is\(arg1\.state,Active\)"]])
                ok = good
        if not ok:
            inst.violation(ia.path, "is_active", "RemoteClient::is_active returns true in a state other than Active")


def is_active_exact(cx, iid):
    """T7: RemoteClient::is_active is `state is Active`: it prunes active_clients in step() (a Closing connection must not
    keep an active slot) and is the application's way to ask whether an address has completed the handshake."""
    R = cx.R
    with cx.instance(iid, "T7 SHAPE", "RemoteClient::is_active returns true exactly in state Active", floor=1) as inst:
        ia = R.body("RemoteClient::is_active")
        fa = cx.fa(ia)
        from mirlib import dnf_holds
        seen = set()
        for loc, s in ia.assigns():
            if not s["pl"]["p"] and s["pl"]["l"] == 0:
                v = show(ia.rvalue_expr(s["rv"]))
                inst.site(ia, loc, "is_active -> " + v)
                act, _ = dnf_holds(fa.at(loc), [[r"is\(arg1\.state,Active\)"]])
                nact, _ = dnf_holds(fa.at(loc), [[r"!is\(arg1\.state,Active\)"], [r"is\(arg1\.state,(Pending|Closing|Closed|Fin)\)"]])
                seen.add(v)
                if v == "true" and not act:
                    inst.violation(ia.path, "is_active", "RemoteClient::is_active returns true in a state other than Active", at=ia.span_at(loc))
                elif v == "false" and not nact:
                    inst.violation(ia.path, "is_active", "RemoteClient::is_active can return false for an Active client", at=ia.span_at(loc))
                elif v not in ("true", "false"):
                    if v not in ("is(arg1.state,Active)",):
                        inst.violation(ia.path, "is_active", "RemoteClient::is_active is `%s`" % v[:80], at=ia.span_at(loc))
        if not seen:
            inst.violation(ia.path, "is_active", "no result of is_active found (anchor)")


def promotion_pairing(cx, iid):
    """T2: a promoted connection is serviced and counted: in handle_handshake_ack every write of State::Active is followed
    on all paths by the push into active_clients (a connection that is Active but not in the list is never flushed, stepped,
    timed out or counted, and keeps its slot for ever) and by the Connect event."""
    R = cx.R
    with cx.instance(iid, "T2 PAIR", "handle_handshake_ack: state = Active is followed on every path by active_clients.push and by Connect", floor=1) as inst:
        b = R.body("server::Server::handle_handshake_ack")
        acts = []
        for loc, s in b.assigns():
            if s["pl"]["p"] and show(b.place_expr(s["pl"])).endswith(".state") and show(b.rvalue_expr(s["rv"])).startswith("State::Active"):
                acts.append((loc, "state = Active"))
        if not acts:
            inst.violation(b.path, "state = Active", "promotion to Active not found in handle_handshake_ack (anchor)")
            return
        from rules import event_pushes
        cx.followed_by(inst, b, acts, call_locs(b, "Vec::push", r"arg1\.active_clients"), "promotion without entering the active list", "active_clients.push")
        cx.followed_by(inst, b, acts, [l for l, _ in event_pushes(b, r"Connect")], "promotion without Connect", "events_out.push(Connect)")

def timers_scheduled(cx, iid):
    """capacity returns: every entry into a state that only a timer can end (Pending, Closing,
    Closed) schedules that state's timer event, and the timer's expiry leads to Fin + removal"""
    R = cx.R
    with cx.instance(iid, "T2 PAIR", "every transition to Pending/Closing/Closed schedules that state's timer event (so the entry is eventually forgotten)", floor=4) as inst:
        kinds = {"Closed": ("ClosedTimeout", "server::CLOSED_TIMEOUT_MS"), "Closing": ("ResendDisconnect", "server::DISCONNECT_RESEND_INTERVAL_MS")}
        n = 0
        for b in R.all_bodies():
            if not b.path.startswith("server::Server::"):
                continue
            for loc, s2 in b.assigns():
                if not s2["pl"]["p"]:
                    continue
                ps = show(b.place_expr(s2["pl"]))
                v = show(b.rvalue_expr(s2["rv"]))
                m = re.match(r"State::(Closed|Closing)\b", v)
                if not ps.endswith(".state") or not m:
                    continue
                n += 1
                kind, itv = kinds[m.group(1)]
                pushes = [l for l, t in b.calls("BinaryHeap::push") if re.search(r"arg1\.client_events,Event::new\(.*EventType::%s\{\},add\((arg\d+,%s|%s,arg\d+)\)," % (kind, re.escape(itv), re.escape(itv)), show(b.call_expr(t)))]
                cx.followed_by(inst, b, [(loc, "state = " + m.group(1))], pushes, "state %s entered without its timer" % m.group(1), "client_events.push(%s at now + %s)" % (kind, itv.split("::")[-1]))
        syn = R.body("server::Server::handle_handshake_syn")
        ins = call_sites(syn, "HashMap::insert", r"arg1\.clients")
        pushes = [l for l, t in syn.calls("BinaryHeap::push") if "EventType::ResendHandshakeSynAck{}" in show(syn.call_expr(t))]
        # the entry and its timer are created together, in either order: every path through the insert has passed, or will
        # pass, the push of the handshake timer
        for iloc, ilab in ins:
            before = syn.reach_from_entry_avoiding(iloc, pushes) is None if pushes else False
            after = syn.reach_exit_avoiding(iloc, pushes) is None if pushes else False
            inst.site(syn, iloc, "clients.insert with handshake timer %s" % ("before" if before else "after" if after else "missing"))
            if not (before or after):
                inst.violation(syn.path, "pending client without handshake timer", "`%s` can be executed on a path that neither has scheduled nor will schedule the ResendHandshakeSynAck timer" % ilab[:60], at=syn.span_at(iloc))
        if n < 2:
            inst.violation("server::Server", "transitions to Closing/Closed", "no transition to Closing and to Closed found in the server (anchor)")
        # expiry of each timer forgets the client: handle_event writes Fin in all three arms
        he = R.body("server::Server::handle_event")
        fa = cx.fa(he, kill_fields=False)
        arms = set()
        for loc, s2 in he.assigns():
            if s2["pl"]["p"] and show(he.place_expr(s2["pl"])).endswith(".state") and show(he.rvalue_expr(s2["rv"])).startswith("State::Fin"):
                for arm, kind in (("Pending", "ResendHandshakeSynAck"), ("Closing", "ResendDisconnect"), ("Closed", "ClosedTimeout")):
                    g, _ = dnf_holds(fa.at(loc), [[r"is\(.*\.state,%s\)" % arm, r"eq\((EventType::%s\{\},arg2\.kind|arg2\.kind,EventType::%s\{\})\)" % (kind, kind)]])
                    if g:
                        arms.add(arm)
                        inst.site(he, loc, "timer expiry in %s -> Fin" % arm)
        # a retry that was sent is followed by re-queueing its timer (otherwise the chain stops and the entry lingers)
        resends = [(l, "resend") for l, lab in call_sites(he, "UdpSocket::send_to")]
        requeue = [l for l, t in he.calls("BinaryHeap::push") if show(he.call_expr(t)) == "BinaryHeap::push(arg1.client_events,arg2)"]
        for l in requeue:
            inst.site(he, l, "timer re-queued")
        cx.followed_by(inst, he, resends, requeue, "retry sent without re-queueing its timer", "client_events.push(event)")
        # every timer taken off the queue is handled
        hes = R.body("server::Server::handle_events")
        pops = [(l, "pop") for l, t in hes.calls("BinaryHeap::pop") if show(hes.operand_expr(t["args"][0])) == "arg1.client_events"]
        handles = [l for l, t in hes.calls("Server::handle_event") if "BinaryHeap::pop(arg1.client_events)" in show(hes.call_expr(t))]
        cx.followed_by(inst, hes, pops, handles, "timer popped but not handled", "handle_event(popped event)")
        # ... on every path of the exhausted-budget branch (not only when error reporting is enabled)
        fa2 = cx.fa(he)
        fins = [l for l, s2 in he.assigns() if s2["pl"]["p"] and show(he.place_expr(s2["pl"])).endswith(".state") and show(he.rvalue_expr(s2["rv"])).startswith("State::Fin")]
        rems = call_locs(he, "HashMap::remove", r"arg1\.clients")
        for (bb, y, lab), lits in fa2.edge_lits.items():
            if any(re.fullmatch(r"eq\(0,arg2\.count\)", x) for x in lits):
                alts = fa2.at(Loc(y, 0)) or []
                arm = None
                for a_ in ("Pending", "Closing"):
                    if alts and all(any(re.fullmatch(r"is\(.*\.state,%s\)" % a_, x) for x in alt) for alt in alts):
                        arm = a_
                if arm:
                    inst.site(he, Loc(y, 0), "retry budget exhausted in %s" % arm)
                    for what, blk in (("state = Fin", fins), ("clients.remove", rems)):
                        w = he.reach_exit_avoiding(Loc(y, -1), blk)
                        if w is not None:
                            inst.violation(he.path, "expiry without " + what, "when the %s retry budget is exhausted the handler can return without `%s`: the entry is never forgotten (its nonce stays valid and its slot stays taken)" % (arm, what), detail={"offending_path": he.path_spans(w)[:12]})
        if arms != {"Pending", "Closing", "Closed"}:
            inst.violation(he.path, "timer expiry -> Fin", "not every timer expiry forgets its client (found Fin in arms %s)" % sorted(arms))


_run_core = run


def run(cx):
    _run_core(cx)
    timers_scheduled(cx, "C17.d")
    # what the limits count: an entry removed from the map while not terminal stays in active_clients but is no
    # longer counted by clients.len()
    from props.shared import removal_implies_fin
    removal_implies_fin(cx, "C17.e")
    from props.shared import heap_order
    heap_order(cx, "C17.f", ["event"])
    # capacity comes back when connections end by timeout: the timers run on a clock that does not restart
    from props.shared import clock_exact
    clock_exact(cx, "C17.k")
    # ... and a dead peer's deadline is now + active_timeout at every refresh (a deadline that accumulates keeps the slot)
    from props.C10 import deadline_rule
    deadline_rule(cx, "C17.l")
    from props.shared import active_timeout_sweep
    active_timeout_sweep(cx, "C17.g")
    from props.shared import config_verbatim
    config_verbatim(cx, "C17.h")
    promotion_pairing(cx, "C17.i")
    is_active_exact(cx, "C17.j")


SELFTEST = [
    {"name": "weaken the capacity predicate back to a conjunction",
     "edits": [{"file": "src/server/mod.rs", "old": "            || self.active_clients.len() >= self.config.max_active_connections", "new": "            && self.active_clients.len() >= self.config.max_active_connections"}],
     "expect": ["C17.a"]},
    {"name": "forget clients.remove when a closed connection times out",
     "edits": [{"file": "src/server/mod.rs", "old": "                    client.state = remote_client::State::Fin;\n                    self.clients.remove(&client.address);\n                }\n            }\n            _ => (),", "new": "                    client.state = remote_client::State::Fin;\n                }\n            }\n            _ => (),"}],
     "expect": ["C17.c"]},
]
