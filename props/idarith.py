"""Sequence-id discipline (shared by C01, C02, C05, C11): packet ids live in a 20-bit circular space and frame
ids in a 32-bit one, so two ids may only be compared for (in)equality; "is before", "is within the window" and
"how far apart" must go through the modular difference (packet_id::sub / u32::wrapping_sub) and stepping through
packet_id::add / u32::wrapping_add.  A raw `<`, `+` or `-` on an id gives the same answers as the modular form
until a window straddles the wrap-around, which no test's id range (fixed small nonces) reaches.

The analysis is a small unit/"kind" inference over the normalised MIR expressions:
    id     a value of an id-typed field, an id-typed parameter/return (interprocedural fixpoint over the
           crate's call sites), packet_id::add / wrapping_add of an id, `id & packet_id::MASK`, a local all of
           whose definitions are ids
    other  everything else (in particular packet_id::sub / wrapping_sub results — distances — and `id & mask`
           slot indices)
and the rule: no Lt/Le/Gt/Ge/Add/Sub/Mul (nor Ord::cmp/min/max/partial_cmp) has an id as a direct operand.
"""
import re

from mirlib import show

# frozen table of id-typed fields (owner ADT, field) — enumerated from the crate's type definitions and
# confirmed by reading; a u32 / Option<u32> field with one of these names on any *other* type is reported
ID_FIELDS = {
    ("frame::AckFrame", "frame_window_base_id"), ("frame::AckFrame", "packet_window_base_id"), ("frame::AckGroup", "base_id"),
    ("frame::DataFrame", "sequence_id"), ("frame::Datagram", "sequence_id"), ("frame::DatagramRef", "sequence_id"),
    ("frame::SyncFrame", "next_frame_id"), ("frame::SyncFrame", "next_packet_id"),
    ("half_connection::Config", "tx_frame_base_id"), ("half_connection::Config", "rx_frame_base_id"),
    ("half_connection::Config", "tx_packet_base_id"), ("half_connection::Config", "rx_packet_base_id"),
    ("half_connection::emit::AckFrameEmitter", "frame_window_base_id"), ("half_connection::emit::AckFrameEmitter", "packet_window_base_id"),
    ("half_connection::frame_ack_queue::ReceiveWindow", "base_id"),
    ("half_connection::frame_queue::FrameLog", "next_id"), ("half_connection::frame_queue::FrameLog", "base_id"),
    ("half_connection::frame_queue::TransferWindow", "base_id"),
    ("half_connection::packet_receiver::Channel", "base_id"),
    ("half_connection::packet_receiver::PacketReceiver", "base_id"), ("half_connection::packet_receiver::PacketReceiver", "end_id"),
    ("half_connection::packet_receiver::assembly_window::Packet", "sequence_id"),
    ("half_connection::packet_sender::Channel", "parent_id"),
    ("half_connection::packet_sender::PacketSender", "base_id"), ("half_connection::packet_sender::PacketSender", "next_id"),
    ("half_connection::packet_sender::PacketSender", "window_parent_id"),
    ("half_connection::pending_packet::PendingPacket", "sequence_id"),
    ("half_connection::reorder_buffer::ReorderBuffer", "base_id"), ("half_connection::reorder_buffer::ReorderBuffer", "frames"),
}
ID_NAMES = {f for _, f in ID_FIELDS}
ORDER_OPS = {"Lt", "Le", "Gt", "Ge"}
ARITH_OPS = {"Add", "Sub", "Mul", "AddWithOverflow", "SubWithOverflow", "MulWithOverflow", "AddUnchecked", "SubUnchecked", "Div", "Rem", "Shl", "Shr"}
ID_STEP = {"packet_id::add", "u32::wrapping_add"}
ORDER_CALLS = {"Ord::cmp", "Ord::min", "Ord::max", "PartialOrd::partial_cmp", "PartialOrd::lt", "PartialOrd::le", "PartialOrd::gt", "PartialOrd::ge", "u32::saturating_sub", "u32::checked_sub", "u32::abs_diff"}
SCOPE_PREFIX = ("half_connection::",)
PID_MODULES = ("half_connection::packet_sender::", "half_connection::packet_receiver::", "half_connection::pending_packet::")
FID_MODULES = ("half_connection::frame_queue::", "half_connection::frame_ack_queue::", "half_connection::reorder_buffer::")
# bodies that define the modular operations themselves
EXEMPT = {"half_connection::packet_id::add", "half_connection::packet_id::sub", "half_connection::packet_id::is_valid"}


class IdKinds:
    def __init__(self, R):
        self.R = R
        self.id_params = set()   # (fn path, arg index)
        self.id_returns = set()  # fn path
        self._var_cache = {}
        self.bodies = [b for b in R.all_bodies() if b.path.startswith(SCOPE_PREFIX) and "::tests::" not in b.path]
        self._fix()

    def _field_is_id(self, elems):
        # last named field, skipping `@Some` / `.0` of an Option and indexing into `frames`
        es = [e for e in elems]
        while es and (isinstance(es[-1], tuple) or (isinstance(es[-1], str) and (es[-1].startswith("@") or es[-1].startswith("[")))):
            es.pop()
        if es and es[-1] == "0" and len(es) >= 2 and isinstance(es[-2], str) and es[-2].startswith("@Some"):
            es = es[:-2]
        return bool(es) and isinstance(es[-1], str) and es[-1] in ID_NAMES

    def kind(self, b, e, depth=0):
        if not isinstance(e, tuple) or depth > 30:
            return None
        k = e[0]
        if k == "proj":
            if self._field_is_id(e[2]):
                return "id"
            return None
        if k == "arg":
            return "id" if (b.path, e[1]) in self.id_params else None
        if k == "var":
            key = (b.path, e[1])
            if key in self._var_cache:
                return self._var_cache[key]
            self._var_cache[key] = None  # cut recursion: a self-referential step does not decide
            ks = []
            for loc, kind, node in b.defs.get(e[1], []):
                ex = b.rvalue_expr(node["rv"]) if kind == "assign" else b.call_expr(node)
                if ex == e:
                    continue
                ks.append(self.kind(b, ex, depth + 1))
            real = [x for x in ks if x is not None]
            r = "id" if real and all(x == "id" for x in real) and len(real) * 2 >= len(ks) else None
            self._var_cache[key] = r
            return r
        if k == "call":
            if e[1] in ID_STEP:
                return "id" if any(self.kind(b, a, depth + 1) == "id" for a in e[2]) else None
            full = self._callee_path(e[1])
            if full in self.id_returns:
                return "id"
            if e[1] in ("Option::unwrap", "Option::unwrap_or", "Option::expect") and e[2]:
                return self.kind(b, e[2][0], depth + 1)
            return None
        if k == "bin" and e[1] == "BitAnd":
            for x, y in ((e[2], e[3]), (e[3], e[2])):
                if y[0] == "const" and y[3] and str(y[3]).endswith("packet_id::MASK") and self.kind(b, x, depth + 1) == "id":
                    return "id"
            return None
        if k == "agg" and e[1] == "Some" and e[2]:
            return self.kind(b, e[2][0], depth + 1)
        return None

    def _callee_path(self, short):
        if short not in self._short_cache:
            hits = [p for p in self.R.fns if self.R.short(p) == short or p == short]
            self._short_cache[short] = hits[0] if len(hits) == 1 else None
        return self._short_cache[short]

    _short_cache = {}

    def _fix(self):
        self._short_cache = {}
        for _ in range(8):
            changed = False
            self._var_cache = {}
            for b in self.bodies:
                # returns
                if b.path not in self.id_returns and b.path not in EXEMPT:
                    ks = []
                    for loc, kind, node in b.defs.get(0, []):
                        ex = b.rvalue_expr(node["rv"]) if kind == "assign" else b.call_expr(node)
                        ks.append(self.kind(b, ex))
                    if ks and all(x == "id" for x in ks):
                        self.id_returns.add(b.path)
                        changed = True
                # parameters, from call sites
                for loc, t in b.calls():
                    fn = t.get("fn")
                    if not fn:
                        continue
                    tgt = self.R.local_fn_of(fn) if hasattr(self.R, "local_fn_of") else None
                    if not tgt:
                        continue
                    tp = tgt if isinstance(tgt, str) else tgt.get("path")
                    if tp in EXEMPT or not tp or not tp.startswith(SCOPE_PREFIX):
                        continue
                    for i, a in enumerate(t["args"]):
                        if (tp, i + 1) not in self.id_params and self.kind(b, b.operand_expr(a)) == "id":
                            self.id_params.add((tp, i + 1))
                            changed = True
            if not changed:
                break
        self._var_cache = {}


def _walk(e, fn):
    if isinstance(e, tuple):
        fn(e)
        for c in e:
            if isinstance(c, tuple):
                _walk(c, fn)


def id_arith_discipline(cx, iid, which=None):
    R = cx.R
    with cx.instance(iid, "T10 KIND (sequence ids)", "sequence ids are compared only with ==/!= and combined only through packet_id::add/sub or wrapping_add/wrapping_sub; id-typed fields are the frozen table", floor=25, exact_floor=False) as inst:
        # the table is complete: every u32 / Option<u32> field carrying one of the id names is listed
        seen = set()
        for a in R.data["adts"]:
            for v in a["variants"]:
                for f in v["fields"]:
                    if f["name"] in ID_NAMES and "u32" in f["ty"] and (a["path"].startswith("half_connection::") or a["path"].startswith("frame::")):
                        seen.add((a["path"], f["name"]))
        for x in sorted(seen - ID_FIELDS):
            inst.violation(x[0], "field " + x[1], "%s.%s looks like a sequence id but is not in the reviewed id table" % x)
        inst.site("<types>", None, "%d id-typed fields" % len(seen & ID_FIELDS))
        for x in sorted(ID_FIELDS - seen):
            if True:
                inst.violation(x[0], "field " + x[1], "%s.%s of the reviewed id table no longer exists (anchor): re-review the table" % x)
        ik = IdKinds(R)
        inst.note("id-typed parameters: %d, id-returning functions: %d" % (len(ik.id_params), len(ik.id_returns)))
        nsites = 0
        for b in ik.bodies:
            if b.path in EXEMPT:
                continue
            seen_here = set()

            def visit(e, b=b):
                nonlocal nsites
                bad = None
                if e[0] == "bin" and (e[1] in ORDER_OPS or e[1] in ARITH_OPS):
                    for x in (e[2], e[3]):
                        if ik.kind(b, x) == "id":
                            bad = ("ordered comparison" if e[1] in ORDER_OPS else "plain arithmetic") + " `%s` on a sequence id" % e[1].lower()
                elif e[0] == "call" and e[1] in ORDER_CALLS:
                    if any(ik.kind(b, x) == "id" for x in e[2]):
                        bad = "`%s` on a sequence id" % e[1]
                elif e[0] == "cast" and ik.kind(b, e[2]) == "id" and e[1] not in ("u32",):
                    bad = None  # widening casts are looked through by the comparison check below
                if e[0] in ("bin",) and e[1] in ("Eq", "Ne") and (ik.kind(b, e[2]) == "id" or ik.kind(b, e[3]) == "id"):
                    s = show(e)
                    if s not in seen_here:
                        seen_here.add(s)
                        nsites += 1
                if bad:
                    s = show(e)
                    if s in seen_here:
                        return
                    seen_here.add(s)
                    inst.violation(b.path, re.sub(r"var\d+", "var", s)[:120], "%s: `%s` — ids are circular, use packet_id::sub / wrapping_sub for order and distance" % (bad, s[:160]))

            for bb in sorted(b.reachable):
                for st in b.stmts(bb):
                    if st["k"] == "assign":
                        try:
                            ex = b.rvalue_expr(st["rv"])
                        except RecursionError:
                            continue
                        # only this statement's own operator: operands are leaves or single-def expansions
                        if ex[0] in ("bin", "cast"):
                            visit(ex)
                t = b.term(bb)
                if t["k"] == "call" and t.get("fn"):
                    ex = b.call_expr(t)
                    if ex[0] == "call":
                        visit(ex)
                        # two id spaces: packet ids are 20-bit (packet_id::add/sub), frame ids 32-bit (wrapping_add/sub);
                        # the modules that handle only one of them must not use the other space's arithmetic
                        if ex[1] in ("u32::wrapping_sub", "u32::wrapping_add") and b.path.startswith(PID_MODULES) and any(ik.kind(b, x) == "id" for x in ex[2]):
                            s0 = show(ex)
                            if s0 not in seen_here:
                                seen_here.add(s0)
                                inst.violation(b.path, re.sub(r"var\d+", "var", s0)[:120], "32-bit modular arithmetic on a 20-bit packet id: `%s` — use packet_id::add / packet_id::sub (the difference of two packet ids across the 2^20 wrap is off by 2^32 - 2^20)" % s0[:140])
                        if ex[1] in ("packet_id::sub", "packet_id::add") and b.path.startswith(FID_MODULES) and any(ik.kind(b, x) == "id" for x in ex[2]):
                            s0 = show(ex)
                            if s0 not in seen_here:
                                seen_here.add(s0)
                                inst.violation(b.path, re.sub(r"var\d+", "var", s0)[:120], "20-bit packet-id arithmetic on a 32-bit frame id: `%s`" % s0[:140])
                        if ex[1] in ("packet_id::sub", "u32::wrapping_sub", "packet_id::add", "u32::wrapping_add") and any(ik.kind(b, x) == "id" for x in ex[2]):
                            s = show(ex)
                            if s not in seen_here:
                                seen_here.add(s)
                                inst.site(b, None, "modular: " + re.sub(r"var\d+", "var", s)[:100])
        inst.site("<all>", None, "id (in)equality tests: %d" % nsites)
