"""C04 — fragmentation and reassembly are exact for every packet size (DESIGN.md §4 C04)."""
import re
from mirlib import show, Loc, dnf_holds
from rules import call_sites, call_locs, rx_comm, acnf
from bits import array_literal_at

SCOPE = ("Decides that the two ends share offsets, strides and limits on every path: the size constants agree with "
         "the writers' literal header lengths so that a full fragment plus headers fits MAX_FRAME_SIZE and "
         "MAX_PACKET_SIZE = MAX_FRAGMENT_SIZE * 2^16; a datagram is added to a frame only if the resulting size "
         "stays within MAX_FRAME_SIZE (both emitters); the fragment count is ceil(len/M) (+1 for the empty packet), "
         "the sender slices [i*M .. (i+1)*M] (last: [i*M ..]) and the receiver copies to [i*M .. i*M+len] over the same "
         "constant item, and finalize returns exactly total_size bytes; a fragment is copied and counted only the "
         "first time its bit is seen; a later fragment is written only if channel, both parent leads and the last "
         "fragment id equal the first one's; fragment ids and sizes are validated before use. Not decided: "
         "byte-for-byte equality over all arrival permutations (a round trip over runtime data).")

S = "frame::serial::"
FB = "half_connection::packet_receiver::assembly_window::fragment_buffer::FragmentBuffer::"


def inst_fragment_flags(cx, iid):
    R = cx.R
    with cx.instance(iid, "T7 SHAPE + T4 SIBLING", "the reassembled length is the sum of the fragment lengths written; per-fragment flag words address bit (i mod 64) of word (i div 64) at both flag users", floor=6) as inst:
        fw = R.body(FB + "write")
        for l, node, ps in fw.field_writes(r"arg1\.(total_size|fragments_remaining)"):
            v = show(fw.rvalue_expr(node["rv"]))
            inst.site(fw, l, "%s = %s" % (ps, v))
            want = {"arg1.total_size": ("add([T]::len(arg3),arg1.total_size)", "add(arg1.total_size,[T]::len(arg3))"), "arg1.fragments_remaining": ("sub(arg1.fragments_remaining,1)",)}[ps]
            if v not in want:
                inst.violation(fw.path, "update of " + ps.split(".")[-1], "FragmentBuffer::write sets %s = `%s`, expected %s" % (ps.split(".")[-1], v, want[0]), at=fw.span_at(l))
        fnb = R.body(FB + "new")
        for l, st in fnb.assigns():
            rv = st["rv"]
            if rv["k"] == "agg" and rv.get("adt", "").endswith("FragmentBuffer"):
                f = {n: show(fnb.operand_expr(o)) for n, o in zip(rv["fields"], rv["ops"])}
                inst.site(fnb, l, "FragmentBuffer{total_size: %s, fragments_remaining: %s, num_fragments: %s}" % (f.get("total_size"), f.get("fragments_remaining"), f.get("num_fragments")))
                if (f.get("total_size"), f.get("fragments_remaining"), f.get("num_fragments")) != ("0", "arg1", "arg1"):
                    inst.violation(fnb.path, "initial counters", "a new reassembly buffer starts with total_size=%s fragments_remaining=%s num_fragments=%s" % (f.get("total_size"), f.get("fragments_remaining"), f.get("num_fragments")), at=fnb.span_at(l))
        fin = R.body(FB + "is_finished")
        e = show(fin.local_expr(0))
        inst.site(fin, None, "is_finished = " + e)
        if e not in ("eq(0,arg1.fragments_remaining)", "eq(arg1.fragments_remaining,0)"):
            inst.violation(fin.path, "is_finished", "is_finished is `%s`" % e)
        # bit addressing: receiver bitfield and sender ack flags
        bits = {}
        for l, node, ps in fw.field_writes(r"arg1\.fragment_bitfields\[.*\]"):
            bits["FragmentBuffer::write"] = (ps, show(fw.rvalue_expr(node["rv"])))
        want_rx = ("arg1.fragment_bitfields[div(arg2,64)]", "bitor(arg1.fragment_bitfields[div(arg2,64)],shl(1,rem(arg2,64)))")
        inst.site(fw, None, "receiver flag update: %s" % (bits.get("FragmentBuffer::write"),))
        if bits.get("FragmentBuffer::write") not in (want_rx, (want_rx[0], "bitor(shl(1,rem(arg2,64)),arg1.fragment_bitfields[div(arg2,64)])")):
            inst.violation(fw.path, "fragment bit addressing", "fragment bit is recorded as %s" % (bits.get("FragmentBuffer::write"),))
        pa = R.body("PendingPacket::acknowledge_fragment")
        pq = R.body("PendingPacket::fragment_acknowledged")
        setv = [(ps, show(pa.rvalue_expr(node["rv"]))) for l, node, ps in pa.field_writes(r"arg1\.ack_flags\[.*\]")]
        word = "arg1.ack_flags[div(cast<usize>(arg2),64)]"  # canonical position of a widening cast: on the operand
        bit = "shl(1,rem(arg2,64))"  # the normaliser drops the type of a small shift amount
        inst.site(pa, None, "sender ack flag set: %s" % setv)
        if setv not in ([(word, "bitor(%s,%s)" % (word, bit))], [(word, "bitor(%s,%s)" % (bit, word))]):
            inst.violation(pa.path, "ack flag addressing (set)", "acknowledge_fragment records %s; expected word i/64, bit i%%64" % setv)
        q = show(pq.local_expr(0))
        inst.site(pq, None, "sender ack flag test: " + q)
        if q not in ("ne(0,bitand(%s,%s))" % (word, bit), "ne(0,bitand(%s,%s))" % (bit, word), "ne(bitand(%s,%s),0)" % (word, bit)):
            inst.violation(pq.path, "ack flag addressing (test)", "fragment_acknowledged tests `%s`; expected the same word i/64, bit i%%64 as acknowledge_fragment" % q)


def inst_sizes(cx, iid):
    R = cx.R
    with cx.instance(iid, "T7 SHAPE + T4 SIBLING", "fragment count, sender slices and receiver copy offsets use one stride constant; finalize returns total_size bytes", floor=6) as inst:
        pn = R.body("PendingPacket::new")
        lf = None
        for loc, s in pn.assigns():
            rv = s["rv"]
            if rv["k"] == "agg" and rv.get("adt", "").endswith("PendingPacket"):
                lf = pn.operand_expr(rv["ops"][rv["fields"].index("last_fragment_id")])
        from rules import strip_result_cast
        lf = strip_result_cast(lf) if lf else lf  # the field is a u16: the final conversion is the field's type
        got = acnf(lf) if lf else None
        M = R.const_int("MAX_FRAGMENT_SIZE")
        inst.site(pn, None, "last_fragment_id = " + str(got))
        want = "(-1 + 1*1/(%d)*(-1 + %d + [T]::len(arg1)) + eq(0,[T]::len(arg1)))" % (M, M)
        from rules import poly_str as _ps
        okc = got is not None and _ps(lf) == "-1 + eq(0,[T]::len(arg1)) + idiv(%d + [T]::len(arg1),%d)" % (M - 1, M)
        if not okc and lf is not None:
            # the same count with the empty packet as an explicit case: if len == 0 { 1 } else { ceil(len / M) }
            from rules import case_values as _cv
            cases = _cv(cx, pn, lf)
            seen_c = set()
            okc = len(cases) == 2
            for alts, ce in cases:
                ps_ = _ps(ce)
                empty, _ = dnf_holds(alts, [[r"eq\(0,\[T\]::len\(arg1\)\)"]])
                nonempty, _ = dnf_holds(alts, [[r"ne\(0,\[T\]::len\(arg1\)\)"]])
                if empty and ps_ == "0":
                    seen_c.add("empty")
                elif nonempty and ps_ == "-1 + idiv(%d + [T]::len(arg1),%d)" % (M - 1, M):
                    seen_c.add("nonempty")
                else:
                    okc = False
            okc = okc and seen_c == {"empty", "nonempty"}
        if not okc and lf is not None:
            # max(ceil(len / M), 1) - 1: the ceiling is 0 exactly for the empty packet, so max(.., 1) is the same count
            if re.fullmatch(r"sub\(Ord::max\((?:1,div\(sub\(add\((?:MAX_FRAGMENT_SIZE,\[T\]::len\(arg1\)|\[T\]::len\(arg1\),MAX_FRAGMENT_SIZE)\),1\),MAX_FRAGMENT_SIZE\)|div\(sub\(add\((?:MAX_FRAGMENT_SIZE,\[T\]::len\(arg1\)|\[T\]::len\(arg1\),MAX_FRAGMENT_SIZE)\),1\),MAX_FRAGMENT_SIZE\),1)\),1\)", show(lf)):
                okc = True
        if not okc:
            inst.violation(pn.path, "fragment count", "last_fragment_id is `%s`, expected ceil(len / MAX_FRAGMENT_SIZE) + (len == 0) - 1" % (show(lf) if lf else None))
        dg = R.body("PendingPacket::datagram")
        fa = cx.fa(dg)
        # the slice a fragment is cut from, compared as polynomials (i*M .. (i+1)*M  ==  b .. b + M with b = i*M)
        from rules import poly_str, case_values
        forms = {}
        LEN = "[T]::len(arg1.data)"
        for loc, kind, node in [(l, k, n) for v in dg.defs.values() for (l, k, n) in v]:
            if kind != "assign":
                continue
            ex = dg.rvalue_expr(node["rv"])
            if not show(ex).startswith("arg1.data[Range"):
                continue
            rng = ex[2][-1][1]  # the index element of the projection: an aggregate Range / RangeFrom
            # one slice whose end is chosen by an `if` (b .. if last { len } else { b + M }) is case-split over the
            # definitions of the end; `b .. len` is `b ..`
            for alts, rcase in case_values(cx, dg, rng):
                at = [frozenset(a) | frozenset(x) for a in (fa.at(loc) or [frozenset()]) for x in alts]
                last, _ = dnf_holds(at, [[r"eq\(arg1\.last_fragment_id,arg2\)"]])
                kind_, ops = rcase[1], [poly_str(o) for o in rcase[2]]
                if kind_ == "Range" and len(ops) == 2 and ops[1] == LEN:
                    kind_, ops = "RangeFrom", ops[:1]
                forms["last" if last else "inner"] = (kind_, ops)
        inst.site(dg, None, "sender slices: %s" % forms)
        Mv = R.const_int("MAX_FRAGMENT_SIZE")
        if forms.get("last") != ("RangeFrom", ["%d*arg2" % Mv]):
            inst.violation(dg.path, "last fragment slice", "last fragment is `%s`, expected data[i*M ..]" % (forms.get("last"),))
        if forms.get("inner") != ("Range", ["%d*arg2" % Mv, "%d + %d*arg2" % (Mv, Mv)]):
            inst.violation(dg.path, "inner fragment slice", "inner fragment is `%s`, expected data[i*M .. (i+1)*M]" % (forms.get("inner"),))
        fw = R.body(FB + "write")
        cps = call_sites(fw, "[T]::copy_from_slice")
        for loc, lab in cps:
            e = show(fw.call_expr(fw.node_at(loc)))
            inst.site(fw, loc, "receiver copy: " + e[:110])
            ce = fw.call_expr(fw.node_at(loc))
            okc = False
            try:
                dst, srcv = ce[2][0], ce[2][1]
                rng = dst[2][-1][1]
                okc = (show(srcv) == "arg3" and show(("proj", dst[1], tuple(dst[2][:-1]))) == "arg1.buffer" and rng[1] == "Range"
                       and [poly_str(o) for o in rng[2]] == ["%d*arg2" % Mv, "[T]::len(arg3) + %d*arg2" % Mv])
            except Exception:
                okc = False
            if not okc:
                inst.violation(fw.path, "copy destination", "fragment is copied with `%s`, expected buffer[i*M .. i*M + len] <- data" % e[:160], at=fw.span_at(loc))
        if len(cps) != 1:
            inst.violation(fw.path, "copy_from_slice", "expected exactly one copy in FragmentBuffer::write")
        fn = R.body(FB + "new")
        txt = " ".join(show(fn.call_expr(t)) for l, t in fn.calls("vec::from_elem"))
        inst.site(fn, None, "buffer allocation: " + txt[:100])
        if "vec::from_elem(0,mul(MAX_FRAGMENT_SIZE,arg1))" not in txt:
            inst.violation(fn.path, "buffer size", "reassembly buffer is not num_fragments * MAX_FRAGMENT_SIZE bytes")
        ff = R.body(FB + "finalize")
        tr = [show(ff.call_expr(t)) for l, t in ff.calls("Vec::truncate")]
        inst.site(ff, None, "finalize: " + " ".join(tr))
        ret = [show(ff.call_expr(t)) for l, t in ff.calls("Vec::into_boxed_slice")]
        if len(tr) != 1 or not re.fullmatch(r"Vec::truncate\((var\d+),arg1\.total_size\)", tr[0]) or len(ret) != 1:
            inst.violation(ff.path, "finalize", "finalize does not return exactly the first total_size bytes of the buffer: %s" % tr)
        else:
            # ... on every path: a truncation that is skipped for some sizes delivers the packet with the buffer's padding
            tl = [l for l, t in ff.calls("Vec::truncate")]
            rl = [l for l, t in ff.calls("Vec::into_boxed_slice")]
            if ff.reach_exit_avoiding(Loc(0, -1), tl) is not None:
                inst.violation(ff.path, "finalize truncation skipped", "finalize can return the reassembly buffer without truncating it to total_size: the packet is delivered with trailing padding")
            else:
                cx.preceded_by(inst, ff, [(rl[0], "into_boxed_slice")], tl, "buffer boxed before truncation", "Vec::truncate(data, total_size)")
        ta = R.body("AssemblyWindow::try_add")
        n_ae = 0
        for loc, t in ta.calls("ActiveEntry::new"):
            n_ae += 1
            a = show(ta.operand_expr(t["args"][5]))
            lf2 = show(ta.operand_expr(t["args"][4]))
            inst.site(ta, loc, "ActiveEntry::new(.., last=%s, num_fragments=%s)" % (lf2, a))
            if a != "add(1,cast<usize>(arg3.fragment_id_last))" or lf2 != "arg3.fragment_id_last":
                inst.violation(ta.path, "num_fragments", "reassembly entry created for `%s` fragments (last id `%s`), expected fragment_id_last + 1" % (a, lf2), at=ta.span_at(loc))
        ae = R.body("assembly_window::ActiveEntry::new")
        fbn = [show(ae.call_expr(t)) for l, t in ae.calls("FragmentBuffer::new")]
        if n_ae != 1 or fbn != ["FragmentBuffer::new(arg6)"]:
            inst.violation(ae.path, "FragmentBuffer::new", "the reassembly buffer is not sized from the entry's fragment count: %s" % fbn)
        for loc, t in ta.calls("FragmentBuffer::write"):
            a = show(ta.operand_expr(t["args"][1]))
            if a != "cast<usize>(arg3.fragment_id)":
                inst.violation(ta.path, "write index", "fragment written at index `%s`" % a, at=ta.span_at(loc))


def run(cx):
    R = cx.R
    with cx.instance("C04.a", "T9 CONST", "size constants agree with the writers' literal header lengths; a full fragment fits a frame; MAX_PACKET_SIZE = M * 2^16", floor=6) as inst:
        c = lambda n: R.const_int(n)
        mfs, mtu, udp = c("MAX_FRAME_SIZE"), c("INTERNET_MTU"), c("UDP_HEADER_SIZE")
        inst.site("<const>", None, "MAX_FRAME_SIZE=%d INTERNET_MTU=%d UDP_HEADER_SIZE=%d" % (mfs, mtu, udp))
        if mfs != mtu - udp:
            inst.violation("MAX_FRAME_SIZE", "MAX_FRAME_SIZE", "MAX_FRAME_SIZE %d != INTERNET_MTU - UDP_HEADER_SIZE = %d" % (mfs, mtu - udp))
        if mfs > 1472:
            inst.violation("MAX_FRAME_SIZE", "MAX_FRAME_SIZE > 1472", "emitted UDP payloads may exceed 1472 bytes (MAX_FRAME_SIZE = %d)" % mfs)
        nb = R.body("frame::serial::build::DataFrameBuilder::new")
        hl = array_literal_at(nb, 3)
        hlen = len(hl[0][1]) if hl else None
        dfo = c(S + "DATA_FRAME_OVERHEAD")
        crc = c(S + "FRAME_CRC_SIZE")
        inst.site(nb, None, "data frame header literal %s bytes + CRC %d == DATA_FRAME_OVERHEAD %d" % (hlen, crc, dfo))
        if hlen is None or hlen + crc != dfo:
            inst.violation(S + "DATA_FRAME_OVERHEAD", "DATA_FRAME_OVERHEAD", "DATA_FRAME_OVERHEAD %d != header literal %s + CRC %d" % (dfo, hlen, crc))
        ab = R.body("frame::serial::build::DataFrameBuilder::add")
        lens = sorted(len(e) for _, e in array_literal_at(ab, 4))
        mdo = c(S + "MAX_DATAGRAM_OVERHEAD")
        inst.site(ab, None, "datagram header literals %s, MAX_DATAGRAM_OVERHEAD %d" % (lens, mdo))
        if not lens or max(lens) != mdo:
            inst.violation(S + "MAX_DATAGRAM_OVERHEAD", "MAX_DATAGRAM_OVERHEAD", "MAX_DATAGRAM_OVERHEAD %d != largest datagram header literal %s" % (mdo, lens))
        for nm, want in (("DATAGRAM_HEADER_SIZE_MICRO", 0), ("DATAGRAM_HEADER_SIZE_SMALL", 1), ("DATAGRAM_HEADER_SIZE_LARGE", 2)):
            if len(lens) == 3 and c(S + nm) != lens[want]:
                inst.violation(S + nm, nm, "%s = %d but the writer's header literal has %d bytes" % (nm, c(S + nm), lens[want]))
        M = c("MAX_FRAGMENT_SIZE")
        inst.site("<const>", None, "DATA_FRAME_OVERHEAD %d + MAX_DATAGRAM_OVERHEAD %d + MAX_FRAGMENT_SIZE %d <= MAX_FRAME_SIZE %d" % (dfo, mdo, M, mfs))
        if dfo + mdo + M > mfs:
            inst.violation("MAX_FRAGMENT_SIZE", "fragment fits frame", "a full fragment with headers (%d) exceeds MAX_FRAME_SIZE %d" % (dfo + mdo + M, mfs))
        mf = c(S + "MAX_FRAGMENTS")
        inst.site("<const>", None, "MAX_FRAGMENTS=%d MAX_PACKET_SIZE=%d" % (mf, c("MAX_PACKET_SIZE")))
        if mf != 1 << 16:
            inst.violation(S + "MAX_FRAGMENTS", "MAX_FRAGMENTS", "MAX_FRAGMENTS %d != 2^16 (range of the u16 fragment ids)" % mf)
        if c("MAX_PACKET_SIZE") != M * mf:
            inst.violation("MAX_PACKET_SIZE", "MAX_PACKET_SIZE", "MAX_PACKET_SIZE != MAX_FRAGMENT_SIZE * MAX_FRAGMENTS")
        ec = R.body("EndpointConfig::is_valid")
        from rules import return_alts
        from mirlib import alt_satisfies
        tr = return_alts(cx, ec, True)
        ok = tr and all(alt_satisfies(a, [r"le\(arg1\.max_packet_size,MAX_PACKET_SIZE\)"]) for _, a in tr)
        inst.site(ec, None, "EndpointConfig::is_valid requires max_packet_size <= MAX_PACKET_SIZE: %s" % bool(ok))
        if not ok:
            inst.violation(ec.path, "max_packet_size bound", "a configuration with max_packet_size > MAX_PACKET_SIZE is accepted (fragment ids would overflow u16)")
    with cx.instance("C04.b", "T1 GUARD", "a datagram/ack group is added to an in-progress frame only if the frame stays within MAX_FRAME_SIZE", floor=2) as inst:
        dp = R.body("DataFrameEmitter::push")
        cx.guard(inst, dp, call_sites(dp, "DataFrameBuilder::add", r"arg1\.in_progress_frame"),
                 [[r"le\(add\(DataFrameBuilder::encoded_size\(PendingPacket::datagram\(.*\)\),DataFrameBuilder::size\(arg1\.in_progress_frame@Some\.0\.fbuilder\)\),MAX_FRAME_SIZE\)"]],
                 construct="data frame may exceed MAX_FRAME_SIZE", why="an emitted UDP payload would exceed the MTU budget")
        ap = R.body("AckFrameEmitter::push")
        cx.guard(inst, ap, call_sites(ap, "AckFrameBuilder::add", r"arg1\.in_progress_frame"),
                 [[r"le\(add\(AckFrameBuilder::encoded_size\(arg2\),AckFrameBuilder::size\(arg1\.in_progress_frame@Some\.0\)\),MAX_FRAME_SIZE\)"]],
                 construct="ack frame may exceed MAX_FRAME_SIZE")
        for fn, buf in (("frame::serial::build::DataFrameBuilder::size", "arg1.buffer"), ("frame::serial::build::AckFrameBuilder::size", "arg1.buffer")):
            b = R.body(fn)
            e = show(b.local_expr(0))
            inst.site(b, None, "%s = %s" % (fn.split("::")[-2] + "::size", e))
            if not re.fullmatch(rx_comm("add", r"Vec::len\(arg1\.buffer\)", r"frame::serial::FRAME_CRC_SIZE"), e):
                inst.violation(b.path, "size()", "size() is `%s`, expected buffer.len() + FRAME_CRC_SIZE" % e)
        ae = R.body("frame::serial::build::AckFrameBuilder::encoded_size")
        if show(ae.local_expr(0)) != "frame::serial::ACK_GROUP_SIZE":
            inst.violation(ae.path, "encoded_size", "AckFrameBuilder::encoded_size is `%s`" % show(ae.local_expr(0)))
    inst_sizes(cx, "C04.c")
    with cx.instance("C04.d", "T1 GUARD", "first write of a fragment wins; later fragments must agree with the first on channel, parent leads and last fragment id", floor=4) as inst:
        fw = R.body(FB + "write")
        bit = r"eq\(0,bitand\(arg1\.fragment_bitfields\[div\(arg2,64\)\],shl\(1,rem\(arg2,64\)\)\)\)"
        sinks = call_sites(fw, "[T]::copy_from_slice") + [(l, "write " + ps) for l, node, ps in fw.field_writes(r"arg1\.(fragments_remaining|total_size)")]
        cx.guard(inst, fw, sinks, [[bit]], construct="fragment applied twice", why="a repeated fragment would be counted (and copied) again", checked_before=True)
        sets = [l for l, node, ps in fw.field_writes(r"arg1\.fragment_bitfields\[.*\]") if show(fw.rvalue_expr(node["rv"])).startswith("bitor(")]
        cx.preceded_by(inst, fw, call_sites(fw, "[T]::copy_from_slice"), sets, "copy without marking the fragment seen", "fragment_bitfields[i] |= bit")
        ta = R.body("AssemblyWindow::try_add")
        ws = [(l, lab) for l, lab in call_sites(ta, "FragmentBuffer::write") if "@Active" in lab or "arg1.window[arg2]" in show(ta.call_expr(ta.node_at(l)))]
        act = r"arg1\.window\[arg2\]@Active\.0"
        eqs = []
        for f, g in (("channel_id", "channel_id"), ("window_parent_lead", "window_parent_lead"), ("channel_parent_lead", "channel_parent_lead"), ("fragment_id_last", "last_fragment_id")):
            eqs.append(r"(?:eq\(%s\.%s,arg3\.%s\)|eq\(arg3\.%s,%s\.%s\))" % (act, g, f, f, act, g))
        cx.guard(inst, ta, ws, [eqs], construct="inconsistent fragment accepted", why="a fragment whose header disagrees with the first one seen must not change the packet")
        if not ws:
            inst.violation(ta.path, "Active-arm write", "the Active-arm FragmentBuffer::write was not found (anchor)")
    inst_fragment_flags(cx, "C04.f")
    # a multi-fragment packet whose rounded allocation is charged but only its payload length refunded shrinks the
    # sender's budget until the next packet of that size is never emitted; and a Reliable multi-fragment packet that
    # the receive window steps over while it is incomplete is never reassembled
    from props.C06 import inst_sender_alloc_pair
    inst_sender_alloc_pair(cx, "C04.s")
    from props.C02 import inst_delivery_guards
    inst_delivery_guards(cx, "C04.t")
    from props.shared import send_pending_covers_queues
    send_pending_covers_queues(cx, "C04.u")
    with cx.instance("C04.e", "T1 GUARD", "fragment ids and sizes are validated before reassembly (datagram_is_valid clauses, try_add under it)", floor=3) as inst:
        from props.C03 import check_validators
        inst.site("<shared>", None, "C03.V.datagram")
        inst.site("<shared>", None, "C03.V.try_add")
        inst.site("<shared>", None, "see instances below")
    from props.C03 import check_validators
    check_validators(cx, "C04.e")
    # reassembly is exact only if a slot's stale fragments never survive the window advance, and every
    # fragment id of a packet is enumerated by the sender (inclusive range: 65536 fragments do not overflow)
    with cx.instance("C04.i", "T1x EXACT-GUARD", "send() refuses (panics) only for len > max_packet_size or channel >= CHANNEL_COUNT: a packet of exactly max_packet_size bytes is accepted", floor=4) as inst:
        for fn, mps in (("client::Client::send", r"arg1\.config\.endpoint_config\.max_packet_size"), ("server::remote_client::RemoteClient::send", r"arg1\.max_packet_size")):
            sb = R.body(fn)
            fa = cx.fa(sb)
            n = 0
            for l, t in sb.calls("re:panic"):
                n += 1
                inst.site(sb, l, "panic site in send()")
                g, bad = dnf_holds(fa.at(l), [[r"lt\(%s,\[T\]::len\(arg2\)\)" % mps], [r"le\(CHANNEL_COUNT,arg3\)"]])
                if not g:
                    inst.violation(sb.path, "send() refusal", "send() panics on a path where neither len > max_packet_size nor channel >= CHANNEL_COUNT is established", at=sb.span_at(l), detail={"facts_on_offending_path": sorted(bad)[:6] if bad else []})
            if n != 2:
                inst.violation(sb.path, "send() refusals", "expected the two documented refusals in send(), found %d panic sites" % n)
    from props.C02 import inst_resync_guard, inst_emit_guards
    inst_resync_guard(cx, "C04.j")
    # no emitted UDP payload exceeds 1472 bytes only if the size accounted for a datagram is the size written
    # (header class predicates of encoded_size and add agree); a fragmented packet arrives only if the sender
    # admits it against the same fragment-rounded size the receiver reserves
    from bits import check_headers
    check_headers(cx, "C04.k", "C04.l")
    inst_emit_guards(cx, "C04.m")
    from props.shared import window_walks
    window_walks(cx, "C04.g")
    from props.C05 import fragment_enumeration
    with cx.instance("C04.h", "T5 LOOP + T7", "the sender queues fragment ids 0..=last_fragment_id of each packet, ascending", floor=1) as inst:
        fragment_enumeration(cx, inst)
    # a packet of up to max_packet_size arrives only if the sender's admission limit is the receiver's reservation
    # for it, rounded to whole fragments the same way on both sides
    from props.C06 import inst_sibling_accounting
    inst_sibling_accounting(cx, "C04.n")
    # a fragment whose id lies one window ahead maps to the slot of the packet at the window base and is merged into it;
    # a slot that is not re-opened when the window passes it swallows the fragments of the packet that uses it next
    from props.C01 import inst_handle_datagram
    inst_handle_datagram(cx, "C04.o")
    from props.C06 import inst_release
    inst_release(cx, "C04.p")
    from props.C07 import inst_config_mirror
    inst_config_mirror(cx, "C04.q")
    from props.C01 import inst_id_arith
    inst_id_arith(cx, "C04.r")


SELFTEST = [
    {"name": "send() refuses a packet of exactly max_packet_size (server side)",
     "edits": [{"file": "src/server/remote_client.rs", "old": "assert!(data.len() <= self.max_packet_size,", "new": "assert!(data.len() < self.max_packet_size,"}],
     "expect": ["C04.i"]},
    {"name": "fragment ids enumerated with an exclusive u16 range (overflows at 65536 fragments)",
     "edits": [{"file": "src/half_connection/mod.rs", "old": "                    for i in 0 ..= last_fragment_id {", "new": "                    for i in 0 .. last_fragment_id + 1 {"}],
     "expect": ["C04.h"]},
    {"name": "allow potential_frame_size > MAX_FRAME_SIZE + 10",
     "edits": [{"file": "src/half_connection/emit.rs", "old": "potential_frame_size > MAX_FRAME_SIZE ||", "new": "potential_frame_size > MAX_FRAME_SIZE + 10 ||"}],
     "expect": ["C04.b"]},
    {"name": "receiver copies with a different stride",
     "edits": [{"file": "src/half_connection/packet_receiver/assembly_window/fragment_buffer.rs", "old": "let begin_idx = idx * MAX_FRAGMENT_SIZE;", "new": "let begin_idx = idx * (MAX_FRAGMENT_SIZE - 1);"}],
     "expect": ["C04.c"]},
    {"name": "drop the fragment_id_last consistency test",
     "edits": [{"file": "src/half_connection/packet_receiver/assembly_window/mod.rs", "old": "                if datagram.fragment_id_last != entry.last_fragment_id {\n                    return None;\n                }\n", "new": ""}],
     "expect": ["C04.d"]},
]
