//! Tiny positive examples for zero-expected rules: every construct below MUST be matched by the
//! corresponding rule on every run, which shows the matcher itself is alive (DESIGN.md §1.3).
//! This crate is never linked into anything; it is only parsed by the fact extractor.
#![allow(dead_code)]

use std::cell::RefCell;
use std::rc::Rc;

pub fn leak_forget(v: Vec<u8>) {
    std::mem::forget(v);
}

pub fn from_raw(b: Box<[u8]>) -> Box<[u8]> {
    let mut b = b;
    let p = b.as_mut_ptr();
    let n = b.len();
    std::mem::forget(b);
    unsafe { Box::from_raw(std::slice::from_raw_parts_mut(p, n)) }
}

pub fn leak_box(b: Box<u32>) -> &'static mut u32 {
    Box::leak(b)
}

pub fn into_raw(b: Box<u32>) -> *mut u32 {
    Box::into_raw(b)
}

pub fn rc_into_raw(r: Rc<u32>) -> *const u32 {
    Rc::into_raw(r)
}

pub fn manually(v: Vec<u8>) -> std::mem::ManuallyDrop<Vec<u8>> {
    std::mem::ManuallyDrop::new(v)
}

pub fn set_len(v: &mut Vec<u8>) {
    unsafe { v.set_len(0) }
}

pub struct Node {
    pub next: Option<Rc<RefCell<Node>>>,
}

pub static mut COUNTER: u32 = 0;

pub struct Shared {
    cell: Rc<RefCell<u32>>,
}
unsafe impl Send for Shared {}
impl Shared {
    pub fn get(&self) -> u32 {
        *self.cell.borrow()
    }
    pub fn handle(&self) -> Rc<RefCell<u32>> {
        Rc::clone(&self.cell)
    }
}

// an escape hatch passed as a function value: never the callee of a call in this body
pub fn leak_forget_each(v: Vec<Vec<u8>>) {
    v.into_iter().for_each(std::mem::forget);
}
