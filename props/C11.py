"""C11 — no loss pattern stalls a connection permanently (DESIGN.md §4 C11)."""
import re
from mirlib import show, Loc, dnf_holds
from rules import call_sites, call_locs

SCOPE = ("The liveness statement itself (all blackout lengths, rate recovery) is NOT decided: it is a property of "
         "unbounded histories and is not applicable to static analysis. Decided are five necessary mechanisms "
         "whose absence provably stalls a connection: a sync frame always schedules a reply and forwards both "
         "optional ids to the two resynchronisers; a scheduled reply produces an ack frame even when no groups are "
         "queued and is cleared only by an actual send; the ack frame carries the receiver's current frame and "
         "packet window bases; an ack frame always advances the transfer window and acknowledges the packet "
         "window; the sender offers its next frame id whenever frames are outstanding, and a data frame resets the "
         "sync timer.")

HC = "half_connection::HalfConnection::"


def run(cx):
    sync_reply_mechanism(cx, "C11.a", "C11.b")
    rest(cx)
    window_limited_still_syncs(cx, "C11.f")
    resync_acceptance(cx, "C11.g")
    # no loss pattern stalls a connection: the retransmission back-off is capped, so a fragment lost many times in a
    # row is offered again a bounded time after frames flow again
    from props.shared import resend_schedule
    resend_schedule(cx, "C11.w")
    # the reply to a sync frame is the only thing that can reopen a sender's windows after a whole window was lost: it
    # must carry the receiver's frame-window base and packet-window base in the places the sender reads them from
    from props.shared import emitter_wiring
    emitter_wiring(cx, "C11.x")
    # a window that admits one packet too many overwrites the slot of the oldest unacknowledged packet: it is never
    # resent, the receiver waits for it for ever and refuses the resync that points past it
    from props.C02 import inst_emit_guards
    inst_emit_guards(cx, "C11.y")
    from props.shared import ack_queue_discipline
    ack_queue_discipline(cx, "C11.z")
    # "or pinned at its minimum rate": the application's ceiling is clamped onto the rate, never the rate onto the ceiling
    from props.C13 import ceiling_clamp
    ceiling_clamp(cx, "C11.A")
    # acknowledgements that arrive later than the forgetting horizon produce no feedback: the horizon is 4 RTT
    from props.shared import forget_shape
    forget_shape(cx, "C11.B")
    from props.shared import ack_processing_presence, dispatch_table
    ack_processing_presence(cx, "C11.h")
    dispatch_table(cx, "C11.i", only={"DataFrame", "SyncFrame", "AckFrame"})
    from props.shared import sync_refusal_exact
    sync_refusal_exact(cx, "C11.j")
    from props.idarith import id_arith_discipline
    id_arith_discipline(cx, "C11.k")
    from props.shared import half_connection_clock
    half_connection_clock(cx, "C11.l")
    ack_advance_exact(cx, "C11.m")
    # the packet resynchronisation id must be offered whenever nothing awaits (re)sending — a stricter test (for
    # instance one that also waits for the application's send queue to drain) leaves a window that is full of
    # lost unreliable packets closed for ever
    from props.C02 import inst_resync_guard
    inst_resync_guard(cx, "C11.n")
    from props.shared import window_walks
    window_walks(cx, "C11.o")
    from props.shared import loss_rate_shape
    loss_rate_shape(cx, "C11.p")
    sync_timer_writers(cx, "C11.q")
    from props.shared import packet_ack_exact
    packet_ack_exact(cx, "C11.r")
    from props.shared import frame_forward_exact
    frame_forward_exact(cx, "C11.t")
    from props.shared import half_connection_accept_exact
    half_connection_accept_exact(cx, "C11.u")
    from props.C02 import inst_readiness_siblings
    inst_readiness_siblings(cx, "C11.v")
    # a lost fragment that counts as acknowledged is never resent; the resync that follows skips the Reliable packet
    from props.C04 import inst_fragment_flags
    inst_fragment_flags(cx, "C11.s")


def sync_timer_writers(cx, iid):
    """the sync timer measures how long *this side has been silent*: it restarts only when a frame has just been
    handed to the sink (data callback, sync emitter).  A restart anywhere else - for instance on reception -
    postpones the resynchronising sync frame for as long as the peer keeps talking, and a window full of lost
    frames never reopens."""
    R = cx.R
    with cx.instance(iid, "T9 WHO-MAY-WRITE + T2 order", "sync_timeout_base_ms is written only by the constructor and right after a frame was handed to the sink (emit_sync_frame, the data-frame callback)", floor=3) as inst:
        allowed = {HC + "new": "ctor", HC + "emit_sync_frame": "send", HC + "emit_data_frames::{closure#0}": "send", HC + "emit_data_frames": "lend"}
        parent = R.body(HC + "emit_data_frames")
        cbp = HC + "emit_data_frames::{closure#0}"
        cap = None
        for loc, st in parent.assigns():
            if st["rv"]["k"] == "agg" and st["rv"].get("ak") == "closure" and st["rv"]["closure"].endswith("emit_data_frames::{closure#0}"):
                ops = [show(parent.operand_expr(o)) for o in st["rv"]["ops"]]
                if "arg1.sync_timeout_base_ms" in ops:
                    cap = ops.index("arg1.sync_timeout_base_ms")
        for b in R.all_bodies():
            if "half_connection::HalfConnection::" not in b.path:
                continue
            is_cb = b.path.endswith("emit_data_frames::{closure#0}")
            ws = []
            if is_cb and cap is not None:
                ws = [(l, "captured") for l, n, ps in b.field_writes(r"arg1\.%d" % cap)]
            ws += [(l, "field") for l, n, ps in b.field_writes(r"arg1\.sync_timeout_base_ms")]
            # a mutable borrow of the field hands the right to write it to whoever receives the reference
            for loc, st in b.assigns():
                rv = st["rv"]
                if rv["k"] == "ref" and rv.get("mut") and show(b.place_expr(rv["pl"])) == "arg1.sync_timeout_base_ms":
                    ws.append((loc, "&mut"))
            for l, how in ws:
                short = b.path.split("half_connection::", 1)[-1]
                inst.site(b, l, "%s of sync_timeout_base_ms in %s" % (how, short))
                kind = None
                for k, v in allowed.items():
                    if b.path.endswith(k.split("half_connection::", 1)[-1]):
                        kind = v
                if kind is None or (how == "&mut" and kind != "lend"):
                    inst.violation(b.path, "write of sync_timeout_base_ms", "%s restarts the sync timer; only sending a frame may (a restart on reception or elsewhere postpones the resynchronising sync frame while the peer keeps talking)" % short, at=b.span_at(l))
                    continue
                if kind == "send" and how != "&mut":
                    sends = [sl for sl, t in b.calls() if re.search(r"(FrameSink::send|::send)$", R.short(t.get("fn") or "")) or (t.get("fn") or "").endswith("FrameSink::send")]
                    if not sends or b.reach_from_entry_avoiding(l, sends) is not None:
                        inst.violation(b.path, "timer restart without send", "%s restarts the sync timer on a path on which no frame was handed to the sink" % short, at=b.span_at(l))


def window_limited_still_syncs(cx, iid):
    """being frame-window limited must not prevent the sync frame: both push sites of
    emit_data_frames return Ok on WindowLimited (Err only on SizeLimited), and emit_frames reaches
    emit_sync_frame whenever emit_data_frames returned Ok"""
    R = cx.R
    with cx.instance(iid, "T8 TABLE + T2", "WindowLimited -> Ok, SizeLimited -> Err at both push sites; the sync frame is attempted after every Ok", floor=4) as inst:
        b = R.body(HC + "emit_data_frames")
        fa = cx.fa(b)
        n = 0
        for loc, kind, node in b.defs.get(0, []):
            if kind != "assign":
                continue
            v = show(b.rvalue_expr(node["rv"]))
            alts = fa.at(loc) or []
            for tag in ("WindowLimited", "SizeLimited"):
                under = all(any(re.fullmatch(r"is\(DataFrameEmitter::push\(.*\)@Err\.0,%s\)" % tag, l) for l in a) for a in alts) and alts
                if under:
                    n += 1
                    inst.site(b, loc, "%s -> %s" % (tag, v))
                    want = "Ok{tuple{}}" if tag == "WindowLimited" else "Err{tuple{}}"
                    if v != want:
                        inst.violation(b.path, "push error mapping " + tag, "a %s push error makes emit_data_frames return `%s`: %s" % (tag, v, "the sync frame that reopens a fully lost frame window is then never sent" if tag == "WindowLimited" else "flush would continue although the budget is exhausted"), at=b.span_at(loc))
        if n != 4:
            inst.violation(b.path, "push error arms", "expected WindowLimited/SizeLimited arms at both push sites (4 returns), found %d" % n)
        ef = R.body(HC + "emit_frames")
        efa = cx.fa(ef)
        cs = call_sites(ef, "HalfConnection::emit_sync_frame")
        if len(cs) != 1:
            inst.violation(ef.path, "emit_sync_frame", "emit_frames should attempt the sync frame exactly once")
        for bb in ef.reachable:
            t = ef.term(bb)
            if t["k"] == "switch":
                for y, lb in ef.succ[bb]:
                    lits = efa.edge_lits.get((bb, y, lb[1]), [])
                    if any(re.fullmatch(r"is\(HalfConnection::emit_data_frames\(.*\),Ok\)", l) for l in lits):
                        inst.site(ef, Loc(bb, 0), "emit_data_frames Ok edge")
                        if ef.reach_exit_avoiding(Loc(y, -1), [l for l, _ in cs]) is not None:
                            inst.violation(ef.path, "sync skipped after Ok", "emit_frames can finish without attempting the sync frame although data emission returned Ok")


def resync_acceptance(cx, iid):
    """T1x: a resynchronisation request is refused only when it lies beyond one window: the
    refusing exits are taken exactly under the negation of the acceptance test"""
    R = cx.R
    with cx.instance(iid, "T1x EXACT-GUARD", "PacketReceiver::resynchronize refuses only sender_delta > window_size (a full lost window, delta == size, must be accepted); frame window advance refuses only delta == 0 or delta > size", floor=2) as inst:
        b = R.body("PacketReceiver::resynchronize")
        fa = cx.fa(b)
        sinks = call_sites(b, "PacketReceiver::advance_window")
        d = r"packet_id::sub\(arg2,arg1\.base_id\)"
        cx.guard(inst, b, sinks, [[r"le\(%s,arg1\.receive_window_size\)" % d]], construct="resync beyond one window accepted")
        tl = {l.bb for l, _ in sinks}
        n = 0
        for bb in sorted(b.reachable):
            t = b.term(bb)
            if t["k"] != "switch":
                continue
            for y, lab in b.succ[bb]:
                if _reach(b, y, tl) or not _reach(b, bb, tl):
                    continue
                lits = fa.edge_lits.get((bb, y, lab[1]), [])
                n += 1
                inst.site(b, Loc(bb, 0), "refusing edge: " + " ".join(lits)[:90])
                if not any(re.fullmatch(r"lt\(arg1\.receive_window_size,%s\)" % d, l) or re.fullmatch(r"!packet_id::is_valid\(arg2\)", l) for l in lits):
                    inst.violation(b.path, "resync over-rejected", "resynchronize refuses on `%s`: a sender exactly one full window ahead (every packet of a full window lost) would never be resynchronised" % " ".join(lits)[:120])
        a = R.body("ReceiveWindow::advance")
        afa = cx.fa(a)
        for loc, kind, node in a.defs.get(0, []):
            if kind == "assign" and show(a.rvalue_expr(node["rv"])) == "false":
                inst.site(a, loc, "advance refuses")
                dd = r"u32::wrapping_sub\(arg2,arg1\.base_id\)"
                g, _ = dnf_holds(afa.at(loc), [[r"eq\(0,%s\)" % dd], [r"lt\(arg1\.size,%s\)" % dd]])
                if not g:
                    inst.violation(a.path, "frame resync over-rejected", "ReceiveWindow::advance refuses an advance of 1..size frames")


def ack_advance_exact(cx, iid):
    """T1x: the sender accepts every acknowledgement that reports a frame-window base inside (base, next_id]
    — including the one that acknowledges everything outstanding — and culls the frame log whenever the
    reported base has moved the log's base by 1..len entries (all of them included).  An off-by-one that
    refuses `delta == span` leaves the window closed for good when the last outstanding frame is
    acknowledged last."""
    R = cx.R
    with cx.instance(iid, "T1x EXACT-GUARD", "can_advance_transfer_window == (delta != 0 && delta <= next_id - base); the log is culled exactly when 0 < log_delta <= log.len()", floor=3) as inst:
        cp = R.body("FrameQueue::can_advance_transfer_window")
        fa = cx.fa(cp)
        D = r"u32::wrapping_sub\(arg2,arg1\.window\.base_id\)"
        N = r"u32::wrapping_sub\(FrameLog::next_id\(arg1\.frame_log\),arg1\.window\.base_id\)"
        forms = []
        for loc, kind, node in cp.defs.get(0, []):
            if kind != "assign":
                continue
            v = show(cp.rvalue_expr(node["rv"]))
            forms.append(v)
            inst.site(cp, loc, "can_advance = " + v[:100])
            if v == "false":
                g, _ = dnf_holds(fa.at(loc), [[r"eq\(0,%s\)" % D]])
                if not g:
                    inst.violation(cp.path, "refusal", "can_advance_transfer_window refuses on a path other than delta == 0", at=cp.span_at(loc))
            elif not re.fullmatch(r"le\(%s,%s\)" % (D, N), v):
                inst.violation(cp.path, "acceptance", "can_advance_transfer_window accepts on `%s`, expected delta <= next_id - base" % v[:140], at=cp.span_at(loc))
        if len(forms) != 2:
            inst.violation(cp.path, "shape", "can_advance_transfer_window has %d result forms, expected `delta != 0 && delta <= next_delta`" % len(forms))
        b = R.body("FrameQueue::advance_transfer_window")
        fb = cx.fa(b)
        culls = call_sites(b, "FrameQueue::cull_log_entries")
        LD = r"u32::wrapping_sub\(u32::wrapping_sub\((?:arg1\.window\.base_id|arg2),arg1\.window\.tail_size\),FrameLog::base_id\(arg1\.frame_log\)\)"
        tl = {l.bb for l, _ in culls}
        for l, lab in culls:
            inst.site(b, l, "cull_log_entries")
        if len(culls) != 1:
            inst.violation(b.path, "cull_log_entries", "expected one cull site (anchor)")
        for bb in sorted(b.reachable):
            t = b.term(bb)
            if t["k"] != "switch":
                continue
            for y, lab in b.succ[bb]:
                if _reach(b, y, tl) or not _reach(b, bb, tl):
                    continue
                lits = fb.edge_lits.get((bb, y, lab[1]), [])
                inst.site(b, Loc(bb, 0), "edge that skips the cull: " + " ".join(lits)[:100])
                def allowed(x):
                    return (re.fullmatch(r"!FrameQueue::can_advance_transfer_window\(arg1,arg2\)", x) or re.fullmatch(r"eq\(0,%s\)" % LD, x)
                            or re.fullmatch(r"lt\(FrameLog::len\(arg1\.frame_log\),%s\)" % LD, x))
                ok = any(allowed(x) for x in lits)
                if not ok:
                    # the test may be spelled through a boolean local (`if !pred { skip }`): read the refined facts at the
                    # edge's target - every alternative that took this edge must contain one of the allowed reasons
                    alts = [a for a in (fb.at(Loc(y, 0)) or []) if all(z in a for z in lits)]
                    ok = bool(alts) and all(any(allowed(x) for x in a) for a in alts)
                if not ok:
                    inst.violation(b.path, "cull skipped", "the frame log is not culled on `%s`: acknowledged frames stay in the log and produce no feedback" % " ".join(lits)[:140])


def _reach(b, start, targets):
    seen = set()
    st = [start]
    while st:
        x = st.pop()
        if x in targets:
            return True
        if x in seen:
            continue
        seen.add(x)
        for y, _ in b.succ[x]:
            st.append(y)
    return False


def sync_reply_mechanism(cx, ida, idb):
    R = cx.R
    with cx.instance(ida, "T2 PAIR", "handle_sync_frame sets sync_reply on all paths and forwards both optional ids", floor=3) as inst:
        b = R.body(HC + "handle_sync_frame")
        ws = [l for l, node, ps in b.field_writes(r"arg1\.sync_reply") if show(b.rvalue_expr(node["rv"])) == "true"]
        cx.followed_by(inst, b, [(Loc(0, -1), "entry of handle_sync_frame")], ws, "sync without reply", "sync_reply = true")
        for callee, fld in (("FrameAckQueue::resynchronize", "next_frame_id"), ("PacketReceiver::resynchronize", "next_packet_id")):
            cs = call_sites(b, callee)
            for loc, lab in cs:
                a = show(b.operand_expr(b.node_at(loc)["args"][1]))
                inst.site(b, loc, "%s(%s)" % (callee, a))
                if a != "arg2.%s@Some.0" % fld:
                    inst.violation(b.path, callee, "%s is given `%s`, expected the frame's %s" % (callee, a, fld), at=b.span_at(loc))
                cx.guard(inst, b, [(loc, lab)], [[r"is\(arg2\.%s,Some\)" % fld]], construct=callee + " without id")
            if not cs:
                inst.violation(b.path, callee, "the sync frame's %s is not forwarded to %s" % (fld, callee))
            # exactness: the id is forwarded whenever it is present, whatever else the frame carries (a packet resync
            # nested under the frame id's test is skipped for the frames that need it most: everything was acknowledged
            # at frame level, only packets were lost)
            other = "next_packet_id" if fld == "next_frame_id" else "next_frame_id"
            for loc, lab in cs:
                alts = cx.fa(b).at(loc) or []
                common = frozenset.intersection(*[frozenset(a) for a in alts]) if alts else frozenset()
                extra = sorted(l for l in common if other in l)
                if extra:
                    inst.violation(b.path, callee + " conditioned on the other id", "%s is reached only under `%s`: the frame's %s must be forwarded whenever it is present" % (callee, ", ".join(extra)[:120], fld), at=b.span_at(loc))
            # on the Some edge the call is made: every path from entry on which is(Some) holds reaches it -> check via no Some-edge bypass
            fa = cx.fa(b)
            for bb in b.reachable:
                t = b.term(bb)
                if t["k"] == "switch":
                    for y, lb in b.succ[bb]:
                        if fa.edge_lits.get((bb, y, lb[1])) == ["is(arg2.%s,Some)" % fld]:
                            if b.reach_exit_avoiding(Loc(y, -1), [l for l, _ in cs]) is not None:
                                inst.violation(b.path, callee + " skipped", "a sync frame carrying %s can be handled without calling %s" % (fld, callee))
    with cx.instance(idb, "T2 PAIR", "a scheduled sync reply yields an ack frame even with no groups; sync_reply is cleared only by a send", floor=3) as inst:
        b = R.body(HC + "emit_ack_frames")
        pd = call_sites(b, "AckFrameEmitter::push_dud")
        cx.guard(inst, b, pd, [[r"arg1\.sync_reply"]], construct="push_dud outside sync reply")
        if not pd:
            inst.violation(b.path, "push_dud", "emit_ack_frames never forces an (empty) ack frame for a sync reply")
        # on the sync_reply edge push_dud is reached before the group loop / finalize
        fa = cx.fa(b)
        fin = call_locs(b, "AckFrameEmitter::finalize")
        for bb in b.reachable:
            t = b.term(bb)
            if t["k"] == "switch":
                for y, lb in b.succ[bb]:
                    if fa.edge_lits.get((bb, y, lb[1])) == ["arg1.sync_reply"]:
                        inst.site(b, Loc(bb, 0), "if sync_reply")
                        for f in fin:
                            pass
                        if b.reach_exit_avoiding(Loc(y, -1), [l for l, _ in pd]) is not None:
                            inst.violation(b.path, "sync reply without dud", "a pending sync reply does not force an ack frame")
        cx.followed_by(inst, b, [(Loc(0, -1), "normal exit")], fin, None, "AckFrameEmitter::finalize", exits=[l for l, s in b.assigns() if not s["pl"]["p"] and s["pl"]["l"] == 0 and show(b.rvalue_expr(s["rv"])).startswith("Ok")])
        # writers of sync_reply: true in handle_sync_frame, false only in the emit callback
        for ob in R.all_bodies():
            if not ob.path.startswith("half_connection::HalfConnection"):
                continue
            for l, node, ps in ob.field_writes(r"arg1\.sync_reply"):
                v = show(ob.rvalue_expr(node["rv"]))
                inst.site(ob, l, "sync_reply = " + v)
                if v == "false" and not ob.path.endswith("::new"):
                    inst.violation(ob.path, "sync_reply cleared", "sync_reply is cleared outside the ack emit callback (a reply could be dropped without being sent)", at=ob.span_at(l))
        cb = R.body(HC + "emit_ack_frames::{closure#0}")
        parent = R.body(HC + "emit_ack_frames")
        cap = None
        for loc, st in parent.assigns():
            if st["rv"]["k"] == "agg" and st["rv"].get("ak") == "closure" and st["rv"]["closure"] == cb.path:
                ops = [show(parent.operand_expr(o)) for o in st["rv"]["ops"]]
                if "arg1.sync_reply" in ops:
                    cap = ops.index("arg1.sync_reply")
        clr = [l for l, node, ps in cb.field_writes(r"arg1\.%s" % cap) if show(cb.rvalue_expr(node["rv"])) == "false"] if cap is not None else []
        inst.site(cb, None, "emit callback clears captured sync_reply: %d write(s)" % len(clr))
        if not clr:
            inst.violation(cb.path, "sync_reply clear", "the ack emit callback no longer clears sync_reply (acks would be forced forever) or does not capture it")
        else:
            cx.preceded_by(inst, cb, [(clr[0], "sync_reply = false")], call_locs(cb, "FrameSink::send"), "reply cleared without send", "FrameSink::send")


def ack_frame_applies_both(cx, iid):
    R = cx.R
    with cx.instance(iid, "T2 PAIR", "an ack frame always advances the transfer window and acknowledges the packet window with the frame's bases", floor=2) as inst:
        b = R.body(HC + "handle_ack_frame")
        for callee, arg in (("FrameQueue::advance_transfer_window", "arg2.frame_window_base_id"), ("PacketSender::acknowledge", "arg2.packet_window_base_id")):
            cs = call_sites(b, callee)
            for loc, lab in cs:
                a = show(b.operand_expr(b.node_at(loc)["args"][1]))
                inst.site(b, loc, "%s(%s)" % (callee, a))
                if a != arg:
                    inst.violation(b.path, callee, "%s is given `%s`, expected %s" % (callee, a, arg), at=b.span_at(loc))
            cx.followed_by(inst, b, [(Loc(0, -1), "entry of handle_ack_frame")], [l for l, _ in cs], callee + " skipped", callee)


def rest(cx):
    R = cx.R
    with cx.instance("C11.c", "T7 SHAPE", "the ack emitter is built from the receiver's current frame-window and packet-window bases", floor=1) as inst:
        b = R.body(HC + "emit_ack_frames")
        for loc, t in b.calls("AckFrameEmitter::new"):
            e = show(b.call_expr(t))
            inst.site(b, loc, e[:120])
            if not e.startswith("AckFrameEmitter::new(FrameAckQueue::base_id(arg1.frame_ack_queue),PacketReceiver::base_id(arg1.packet_receiver),"):
                inst.violation(b.path, "ack bases", "the ack frame reports `%s`" % e[:140], at=b.span_at(loc))
        pr = R.body("PacketReceiver::base_id")
        if show(pr.local_expr(0)) != "arg1.base_id":
            inst.violation(pr.path, "base_id accessor", "PacketReceiver::base_id returns `%s`" % show(pr.local_expr(0)))
        fq = R.body("FrameAckQueue::base_id")
        if show(fq.local_expr(0)) != "ReceiveWindow::base_id(arg1.receive_window)":
            inst.violation(fq.path, "base_id accessor", "FrameAckQueue::base_id returns `%s`" % show(fq.local_expr(0)))
    ack_frame_applies_both(cx, "C11.d")
    with cx.instance("C11.e", "T1 GUARD", "next_frame_id is offered iff frames are outstanding; a data frame resets the sync timer", floor=2) as inst:
        b = R.body(HC + "emit_sync_frame")
        from rules import root_local
        tgt = None
        for loc, s in b.assigns():
            rv = s["rv"]
            if rv["k"] == "agg" and rv.get("adt", "").endswith("SyncFrame"):
                tgt = root_local(b, rv["ops"][rv["fields"].index("next_frame_id")])
        if tgt is None:
            inst.violation(b.path, "SyncFrame", "SyncFrame construction not found (anchor)")
        else:
            fa = cx.fa(b)
            for loc, kind, node in b.defs.get(tgt, []):
                v = show(b.rvalue_expr(node["rv"]))
                out = r"ne\(FrameQueue::base_id\(arg1\.frame_queue\),FrameQueue::next_id\(arg1\.frame_queue\)\)"
                inst.site(b, loc, "next_frame_id = " + v)
                if v.startswith("Some{"):
                    if v != "Some{FrameQueue::next_id(arg1.frame_queue)}":
                        inst.violation(b.path, "frame resync id", "the frame resync id offered is `%s`" % v, at=b.span_at(loc))
                    g, _ = dnf_holds(fa.at(loc), [[out]])
                else:
                    g, _ = dnf_holds(fa.at(loc), [[out.replace("ne\\(", "eq\\(", 1)]])
                if not g:
                    inst.violation(b.path, "frame resync condition", "next_frame_id = %s is not decided by `frames outstanding`" % v[:20], at=b.span_at(loc))
        cb = R.body(HC + "emit_data_frames::{closure#0}")
        parent = R.body(HC + "emit_data_frames")
        cap = nowcap = None
        for loc, st in parent.assigns():
            if st["rv"]["k"] == "agg" and st["rv"].get("ak") == "closure" and st["rv"]["closure"] == cb.path:
                ops = [show(parent.operand_expr(o)) for o in st["rv"]["ops"]]
                if "arg1.sync_timeout_base_ms" in ops:
                    cap = ops.index("arg1.sync_timeout_base_ms")
                if "arg2" in ops:
                    nowcap = ops.index("arg2")
        ok = False
        if cap is not None:
            for l, node, ps in cb.field_writes(r"arg1\.%d" % cap):
                v = show(cb.rvalue_expr(node["rv"]))
                inst.site(cb, l, "data callback: sync_timeout_base_ms = " + v)
                ok = nowcap is not None and v == "arg1.%d" % nowcap
        if not ok:
            inst.violation(cb.path, "sync timer reset", "sending a data frame does not reset the sync timer to now")


SELFTEST = [
    {"name": "frame log not culled when every logged frame is acknowledged",
     "edits": [{"file": "src/half_connection/frame_queue.rs", "old": "if delta != 0 && delta <= self.frame_log.len() {", "new": "if delta != 0 && delta < self.frame_log.len() {"}],
     "expect": ["C11.m"]},
    {"name": "step() forgets to store the clock",
     "edits": [{"file": "src/half_connection/mod.rs", "old": "        self.now_ms = now_ms;\n", "new": ""}],
     "expect": ["C11.l"]},
    {"name": "set sync_reply only when the sync frame carried an id",
     "edits": [{"file": "src/half_connection/mod.rs", "old": "            self.packet_receiver.resynchronize(next_packet_id);\n        }\n\n        self.sync_reply = true;", "new": "            self.packet_receiver.resynchronize(next_packet_id);\n            self.sync_reply = true;\n        }"}],
     "expect": ["C11.a"]},
    {"name": "ack frames no longer acknowledge the packet window",
     "edits": [{"file": "src/half_connection/mod.rs", "old": "        self.packet_sender.acknowledge(frame.packet_window_base_id);\n", "new": ""}],
     "expect": ["C11.d"]},
]
