#!/usr/bin/env python3
"""./check <PROPERTY> <quick|thorough> [--replay FILE] [--src DIR]

Decides one property by static analysis of the source tree (default /repo): extracts the R and D
fact bases with the rustc_private driver, evaluates the property's rule instances, prints
VIOLATION / KNOWN-FINDING lines, writes /verif/evidence/<ID>.json and exits 0/1.
"""
import importlib
import json
import os
import shutil
import subprocess
import sys
import tempfile
import time
import traceback

HERE = os.path.dirname(os.path.abspath(__file__))
VERIF = os.path.dirname(HERE)
sys.path.insert(0, HERE)
sys.path.insert(0, VERIF)

from extract import ExtractError, extract  # noqa: E402
from mirlib import AnchorMissing, Facts  # noqa: E402
from rules import Cx  # noqa: E402


def load_known():
    p = os.path.join(VERIF, "known_findings.json")
    if not os.path.exists(p):
        return []
    return json.load(open(p)).get("findings", [])


def evaluate(prop, src, tier, use_cache=True, target_dir=None):
    """returns (cx, meta) after running the property's instances on the tree at src"""
    dataR, mR = extract(src, "R", use_cache=use_cache, target_dir=(target_dir + "-R") if target_dir else None)
    dataD, mD = extract(src, "D", use_cache=use_cache, target_dir=(target_dir + "-D") if target_dir else None)
    R, D = Facts(dataR), Facts(dataD)
    mod = importlib.import_module("props." + prop)
    cx = Cx(prop, R, D, tier=tier, src=src, meta={"R": mR, "D": mD})
    try:
        mod.run(cx)
    except AnchorMissing as e:
        with cx.instance(prop + ".anchor", "anchor", "all anchors resolve", floor=0) as inst:
            inst.violation("<anchor>", str(e), "anchor missing (fail closed): %s" % e)
    return cx, mod


def selftest(prop, mod, tier_jobs=12):
    """thorough tier: every registered breaking edit must make the named instance fire on a
    scratch copy of /repo (and benign edits must stay silent)."""
    variants = list(getattr(mod, "SELFTEST", []))
    # the kept independently seeded changes written against this property must make this property's check fire,
    # and every behaviour-preserving refactoring of the false-alarm corpus must leave it silent
    sroot = os.path.join(VERIF, "seeded")
    if os.environ.get("VERIF_SELFTEST_ONLY"):
        sroot = "/nonexistent"     # development aid: only the registered edit variants
    if os.path.isdir(sroot):
        for d in sorted(os.listdir(sroot)):
            mp = os.path.join(sroot, d, "meta.json")
            if os.path.exists(mp):
                try:
                    m = json.load(open(mp))
                except Exception:
                    continue
                if m.get("property") == prop:
                    variants.append({"name": "seeded/" + d, "patch": os.path.join(sroot, d, "patch.diff"), "expect_any": True})
    broot = os.path.join(VERIF, "benign")
    if os.environ.get("VERIF_SELFTEST_ONLY"):
        broot = "/nonexistent"
    if os.path.isdir(broot):
        for d in sorted(os.listdir(broot)):
            pp = os.path.join(broot, d, "patch.diff")
            if os.path.exists(pp) and not os.path.exists(os.path.join(broot, d, "LIMITATION.md")):
                variants.append({"name": "benign/" + d, "patch": pp, "expect": []})
    results = []
    if not variants:
        return results
    from concurrent.futures import ThreadPoolExecutor

    def one(v):
        tmp = tempfile.mkdtemp(prefix="uflow-selftest-")
        try:
            dst = os.path.join(tmp, "repo")
            shutil.copytree("/repo", dst, ignore=shutil.ignore_patterns("target", ".git"))
            if v.get("patch"):
                pr = subprocess.run(["git", "apply", "--whitespace=nowarn", v["patch"]], cwd=dst, stdout=subprocess.PIPE, stderr=subprocess.STDOUT, text=True)
                if pr.returncode != 0:
                    return {"name": v["name"], "ok": False, "why": "patch does not apply to the current tree (self-test skipped: source changed)", "skipped": True}
            for ed in v.get("edits", []):
                fp = os.path.join(dst, ed["file"])
                s = open(fp).read()
                if s.count(ed["old"]) < 1:
                    return {"name": v["name"], "ok": False, "why": "edit anchor not found in %s (self-test skipped: source changed)" % ed["file"], "skipped": True}
                s = s.replace(ed["old"], ed["new"], ed.get("count", 1))
                open(fp, "w").write(s)
            # each variant is evaluated by a child process (true parallelism: rule evaluation is CPU-bound Python)
            env = dict(os.environ, VERIF_EVIDENCE_DIR=os.path.join(tmp, "ev"), VERIF_REPLAY_DIR=os.path.join(tmp, "rp"), PYTHONHASHSEED="0")
            pr = subprocess.run([sys.executable, os.path.abspath(__file__), prop, "quick", "--src", dst, "--target-dir", os.path.join(tmp, "tgt")],
                                stdout=subprocess.PIPE, stderr=subprocess.STDOUT, text=True, env=env)
            if "harness error" in pr.stdout and ("cargo check failed" in pr.stdout or "could not compile" in pr.stdout):
                return {"name": v["name"], "ok": False, "why": "variant does not compile: " + pr.stdout[-400:]}
            import re as _re
            fired_new = sorted(set(_re.findall(r"rule .* instance (\S+) in ", pr.stdout)))
            if pr.returncode != 0 and not fired_new:
                fired_new = ["<harness error>"]
            exp = v.get("expect", [])
            if v.get("expect_any"):
                ok = bool(fired_new)
                exp = ["<any instance of %s>" % prop]
            elif exp:
                ok = all(any(f == e or f.startswith(e) for f in fired_new) for e in exp)
            else:
                ok = not fired_new
            return {"name": v["name"], "ok": ok, "expected": exp, "fired": fired_new}
        finally:
            shutil.rmtree(tmp, ignore_errors=True)

    with ThreadPoolExecutor(max_workers=tier_jobs) as ex:
        results = list(ex.map(one, variants))
    return results


def main():
    args = sys.argv[1:]
    if len(args) < 2:
        print(__doc__)
        return 2
    prop, tier = args[0], args[1]
    src = "/repo"
    replay = None
    tdir = None
    i = 2
    while i < len(args):
        if args[i] == "--src":
            src = args[i + 1]
            i += 2
        elif args[i] == "--replay":
            replay = args[i + 1]
            i += 2
        elif args[i] == "--target-dir":
            tdir = args[i + 1]
            i += 2
        else:
            i += 1
    t0 = time.time()
    seed = int(os.environ.get("VERIF_SEED", "0") or 0)
    evid_dir = os.environ.get("VERIF_EVIDENCE_DIR") or os.path.join(VERIF, "evidence")
    evid_path = os.path.join(evid_dir, prop + ".json")
    os.makedirs(os.path.dirname(evid_path), exist_ok=True)
    rdir = os.environ.get("VERIF_REPLAY_DIR") or os.path.join(VERIF, "replay")
    os.makedirs(rdir, exist_ok=True)
    try:
        cx, mod = evaluate(prop, src, tier, target_dir=tdir)
    except (ExtractError, Exception) as e:  # fail closed
        traceback.print_exc()
        rp = os.path.join(rdir, "%s-harness-error.json" % prop)
        json.dump({"property": prop, "error": str(e)[-4000:]}, open(rp, "w"), indent=1)
        print("VIOLATION property=%s replay=%s" % (prop, rp))
        print("  harness error (fail closed): %s" % str(e)[-600:])
        return 1

    known = load_known()
    known_keys = {k["key"]: k for k in known if k.get("status") == "known" and k.get("property") == prop}
    viols = []
    knowns = []
    for inst in cx.instances:
        for v in inst.violations:
            if v["key"] in known_keys:
                knowns.append(v)
            else:
                viols.append(v)

    st_results = []
    if tier == "thorough" and src == "/repo":
        st_results = selftest(prop, mod)
        for r in st_results:
            if r.get("skipped"):
                print("SELFTEST-SKIPPED: property=%s variant `%s`: %s" % (prop, r["name"], r.get("why", "")))
            if not r["ok"] and not r.get("skipped"):
                viols.append(
                    {
                        "key": "%s.selftest|%s" % (prop, r["name"]),
                        "instance": prop + ".selftest",
                        "rule": "self-test",
                        "fn": "<checker>",
                        "construct": r["name"],
                        "msg": "rule self-test failed: variant `%s` expected %s fired %s %s"
                        % (r["name"], r.get("expected"), r.get("fired"), r.get("why", "")),
                    }
                )

    if replay:
        try:
            want = json.load(open(replay))
            wk = want.get("key")
            hit = [v for v in viols + knowns if v["key"] == wk]
            print("replay of %s: %s" % (wk, "still violated" if hit else "no longer violated"))
            for v in hit:
                print(json.dumps(v, indent=1))
        except Exception as e:
            print("cannot read replay file:", e)

    for v in knowns:
        k = known_keys[v["key"]]
        print("KNOWN-FINDING: property=%s %s [%s]" % (prop, k.get("what", v["msg"]), v["key"]))
    n = 0
    for v in viols:
        n += 1
        rp = os.path.join(rdir, "%s-%d.json" % (prop, n))
        json.dump(dict(v, property=prop, tier=tier, src=src), open(rp, "w"), indent=1)
        print("VIOLATION property=%s replay=%s" % (prop, rp))
        print("  rule %s instance %s in %s%s" % (v["rule"], v["instance"], v["fn"], (" at " + v["at"]) if v.get("at") else ""))
        print("  construct: %s" % v["construct"])
        print("  %s" % v["msg"])
        if v.get("detail"):
            print("  detail: %s" % json.dumps(v["detail"])[:1500])

    # evidence ----------------------------------------------------------------------------------------
    insts = cx.instances
    evaluated = len(insts)
    nontrivial = sum(1 for i in insts if i.sites)
    total_sites = sum(len(i.sites) for i in insts)
    samples = []
    for i in insts:
        samples.append(
            {
                "instance": i.iid,
                "rule": i.rule,
                "requires": i.text,
                "sites_matched": len(i.sites),
                "floor": i.floor,
                "violations": len(i.violations),
                "sites": i.sites[:6],
                "notes": i.notes[:6],
            }
        )
    level = getattr(mod, "LEVEL", "other")
    cov = {
        "evaluations": max(total_sites, 1),
        "distinct_nontrivial": max(nontrivial, 0),
        "rule": "static rule instances over rustc MIR facts (config R: debug-assertions off; config D: dev profile); "
        "an instance is non-trivial when it matched at least one site in the current tree; templates used: "
        + ", ".join(sorted({i.rule for i in insts})),
        "samples": samples,
        "instances_evaluated": evaluated,
        "sites_matched": total_sites,
        "bodies_analysed": len(cx.R.fns),
        "explanation": getattr(mod, "SCOPE", ""),
        "fact_files": {"R": cx.meta["R"].get("tree_hash"), "D": cx.meta["D"].get("tree_hash")},
        "known_findings_suppressed": [v["key"] for v in knowns],
        "exhaustive": False,
    }
    cov.update(cx.extra)
    if st_results:
        cov["selftest"] = st_results
    if level == "proof":
        obl = cx.extra.get("obligations", total_sites)
        cov["obligations"] = obl
        cov["discharged"] = obl - len(viols) - len(knowns) if (viols or knowns) else obl
        cov["checker_cmd"] = "./check %s %s" % (prop, tier)
        cov["trusted_base"] = getattr(mod, "TRUSTED", ["rustc front end and MIR construction (nightly)", "the fact extractor and rule library in /verif/engine"])
    ev = {
        "property_id": prop,
        "tier": tier,
        "seed": seed,
        "level": level,
        "coverage": cov,
        "assumptions": getattr(mod, "ASSUMPTIONS", [
            "rustc's front end and MIR construction are correct",
            "the instance tables (which guard is required at which sink) were fixed by reading the code",
            "std and rand honour their documented contracts",
        ]),
        "wall_s": round(time.time() - t0, 2),
        "violations": len(viols),
    }
    json.dump(ev, open(evid_path, "w"), indent=1)
    print(
        "%s %s: %d instances, %d sites, %d violation(s), %d known finding(s), %.1fs"
        % (prop, tier, evaluated, total_sites, len(viols), len(knowns), time.time() - t0)
    )
    return 1 if viols else 0


if __name__ == "__main__":
    sys.exit(main())
