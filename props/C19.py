"""C19 — heap discipline: matching deallocations, no leaks on teardown (DESIGN.md §4 C19)."""
import os
import re
from mirlib import Loc,  show, Facts, _strip_generics
from extract import extract, VERIF

LEVEL = "proof"
SCOPE = ("Proof relative to Rust's safety guarantee: safe Rust cannot release a block with a layout other than the "
         "one it was allocated with and leaks only through a closed list of escape hatches, so the obligations are "
         "(a) the crate's `unsafe` inventory equals the reviewed table (two marker impls on HalfConnection) with "
         "their side conditions (no signature or public field of HalfConnection exposes Rc/Weak/RefCell; no &self "
         "method reaches Rc::clone, Weak::upgrade or a RefCell borrow), (b) no call of mem::forget, Box::from_raw/"
         "leak/into_raw, Rc::into_raw/from_raw, Vec::from_raw_parts/set_len, ManuallyDrop::new, raw slice "
         "constructors or the global allocator API — with a positive example crate that the same matcher must flag "
         "on every run, (c) the strong-ownership graph of the crate's types has no cycle through an Rc edge, "
         "(d) no `static mut` and no growable static. Trusted: rustc, std, rand.")
TRUSTED = ["rustc type and borrow checking (safe code cannot violate the allocator contract)", "std and rand (their own unsafe code)",
           "the fact extractor's HIR walk for unsafe blocks/impls/fns", "the reviewed unsafe table in props/C19.py"]
LEVEL_NOTE = ("Relative proof: all obligations are finite and enumerated on every run; discharged == obligations unless a violation "
              "is printed. Assumes rustc's safety guarantee for safe code and the soundness of std/rand.")
TECHNIQUE = "static analysis: unsafe inventory + who-may-call (zero expected, with live positive example) + ownership type-graph acyclicity"

ESCAPE = [
    r"mem::forget$", r"Box::from_raw$", r"Box::leak$", r"Box::into_raw$", r"Rc::into_raw$", r"Rc::from_raw$", r"Weak::into_raw$",
    r"Vec::from_raw_parts$", r"Vec::set_len$", r"ManuallyDrop::new$", r"slice::from_raw_parts(_mut)?$", r"^alloc::(alloc|dealloc|realloc|alloc_zeroed)$",
    r"Vec::leak$", r"String::from_raw_parts$", r"Box::from_raw_in$", r"ptr::write$", r"ptr::read$", r"mem::transmute$", r"mem::zeroed$", r"MaybeUninit::assume_init$",
]

UNSAFE_TABLE = {
    ("impl", "half_connection::HalfConnection", "std::marker::Send"): "HalfConnection owns Rc<RefCell<PendingPacket>> values that never leave it: moving the whole connection to another thread moves every clone",
    ("impl", "half_connection::HalfConnection", "std::marker::Sync"): "no &self method touches the Rc/RefCell contents",
}


def escape_calls(F):
    out = []
    for b in F.all_bodies():
        for loc, t in b.calls():
            fn = t.get("fn")
            if not fn:
                continue
            x = t["sp"].get("x", [])
            sn = F.short(fn)
            full = _strip_generics(fn)
            for rx in ESCAPE:
                if re.search(rx, sn) or re.search(rx, full):
                    if x and any(m in " ".join(x) for m in ("vec!", "format_args", "derive")):
                        continue  # std macro internals (vec! uses box_assume_init_into_vec_unsafe etc.)
                    out.append((b, loc, sn))
                    break
        # an escape hatch handed on as a function value (`iter.for_each(mem::forget)`, `map(Box::leak)`) is never the
        # callee of a call in this body: look at every function item mentioned by an operand or a generic argument
        def walk(o, found):
            if isinstance(o, dict):
                if o.get("k") == "const" and "fn" in o:
                    found.add(o["fn"])
                for k_, v in o.items():
                    if k_ == "gargs":
                        for g in v:
                            for m in re.findall(r"\{([^{}]+)\}", g if isinstance(g, str) else ""):
                                found.add(m)
                    elif k_ not in ("fn", "decl", "inst", "sp"):
                        walk(v, found)
            elif isinstance(o, list):
                for v in o:
                    walk(v, found)
        for bb in sorted(b.reachable):
            for i, st in enumerate(b.stmts(bb)):
                found = set()
                walk(st, found)
                _note_items(F, b, Loc(bb, i), found, st.get("sp", {}), out)
            t = b.term(bb)
            found = set()
            walk(t, found)
            _note_items(F, b, Loc(bb, len(b.stmts(bb))), found, t.get("sp", {}), out)
    return out


def _note_items(F, b, loc, found, sp, out):
    x = sp.get("x", []) if isinstance(sp, dict) else []
    if x and any(m in " ".join(x) for m in ("vec!", "format_args", "derive")):
        return
    for fn in sorted(found):
        full = _strip_generics(fn)
        sn = F.short(full) if hasattr(F, "short") else full
        for rx in ESCAPE:
            if re.search(rx, sn) or re.search(rx, full):
                out.append((b, loc, sn + " (as a function value)"))
                break


def user_unsafe(F):
    out = []
    for u in F.unsafe:
        if u.get("expn") in (True, "true"):
            continue
        out.append(u)
    return out


def type_edges(F):
    """strong ownership edges between crate ADTs: (owner, owned, via_rc)"""
    names = sorted(F.adts, key=len, reverse=True)
    edges = []
    for p, a in F.adts.items():
        for v in a["variants"]:
            for f in v["fields"]:
                ty = f["ty"]
                for q in names:
                    for m in re.finditer(re.escape(q) + r"(?![A-Za-z0-9_:])", ty):
                        if m.start() > 0 and (ty[m.start() - 1].isalnum() or ty[m.start() - 1] in "_:"):
                            continue
                        prefix = ty[: m.start()]
                        # enclosing generic wrappers = unmatched '<' openers before the occurrence
                        stack = []
                        i = 0
                        tok = ""
                        for ch in prefix:
                            if ch == "<":
                                stack.append(tok.strip().split("::")[-1].split(" ")[-1])
                                tok = ""
                            elif ch == ">":
                                if stack:
                                    stack.pop()
                                tok = ""
                            elif ch in ",(":
                                tok = ""
                            else:
                                tok += ch
                        if "Weak" in stack or "&" in prefix.split("<")[-1] or "*const" in prefix or "*mut" in prefix:
                            continue
                        edges.append((p, q, "Rc" in stack or "Arc" in stack))
    return edges


def rc_cycle(edges):
    g = {}
    for a, b, rc in edges:
        g.setdefault(a, []).append((b, rc))
    # a cycle through an Rc edge: for each rc edge a->b, is a reachable from b?
    for a, b, rc in edges:
        if not rc:
            continue
        seen = set()
        st = [b]
        while st:
            x = st.pop()
            if x == a:
                return (a, b)
            if x in seen:
                continue
            seen.add(x)
            for y, _ in g.get(x, []):
                st.append(y)
    return None


def static_issues(F):
    out = []
    for p, c in F.consts.items():
        k = c.get("kind", "")
        if k.startswith("Static"):
            if "mutability: Mut" in k:
                out.append((p, "static mut"))
            if re.search(r"(Vec|VecDeque|HashMap|String|Mutex|RefCell|Cell|Box)<", c.get("ty", "")):
                out.append((p, "growable/interior-mutable static of type " + c.get("ty", "")))
    return out


def send_sync_side_conditions(F):
    bad = []
    hc = F.adt("half_connection::HalfConnection")
    priv = lambda vis: vis.startswith("Restricted") and "half_connection)" in vis and "::" not in vis.split("uflow[")[-1].split("]::", 1)[-1].rstrip(")").replace("half_connection", "")
    for v in hc["variants"]:
        for f in v["fields"]:
            if re.search(r"\b(Rc|Weak|RefCell)<", f["ty"]) and f["vis"] == "Public":
                bad.append(("field " + f["name"], "public field of HalfConnection exposes " + f["ty"]))
    for p, f in F.fns.items():
        if f.get("self_ty") != "half_connection::HalfConnection" or f.get("kind") != "AssocFn":
            continue
        if f.get("vis", "").startswith("Restricted") and f["vis"].rstrip(")").endswith("::half_connection"):
            pass
        sig = " ".join(f.get("inputs", [])) + " -> " + f.get("output", "")
        if f.get("vis") == "Public" or "Restricted" in f.get("vis", ""):
            is_private = f.get("vis", "").startswith("Restricted") and f["vis"].split("~ ")[-1].rstrip(")").endswith("::half_connection")
            if not is_private and re.search(r"\b(Rc|Weak|RefCell|PendingPacketRc|Ref|RefMut)<", sig):
                bad.append((p, "signature exposes reference-counted/interior-mutable state: " + sig[:120]))
    # Sync: &self methods must not reach Rc::clone / Weak::upgrade / RefCell::borrow*
    forbidden = ("Rc::clone", "Weak::upgrade", "RefCell::borrow", "RefCell::borrow_mut", "Weak::clone", "Rc::downgrade")
    direct = {}
    for b in F.all_bodies():
        s = set()
        for loc, t in b.calls():
            sn = F.short(t.get("fn") or "")
            if sn in forbidden:
                s.add(sn)
        direct[b.path] = s
    nshared = 0
    for p, f in F.fns.items():
        if f.get("self_ty") != "half_connection::HalfConnection" or f.get("kind") != "AssocFn":
            continue
        ins = f.get("inputs", [])
        if not ins or not ins[0].startswith("&") or ins[0].startswith("&mut") or re.match(r"&'\w+ mut ", ins[0]):
            continue
        nshared += 1
        for q in F.reachable_from([p]):
            if direct.get(q):
                bad.append((p, "&self method reaches %s via %s" % (sorted(direct[q]), q)))
    return bad, nshared


def run(cx):
    R = cx.R
    obligations = 0
    with cx.instance("C19.a", "T10 UNSAFE-INV", "the crate's unsafe inventory equals the reviewed table and its side conditions hold", floor=2) as inst:
        seen = set()
        for u in user_unsafe(R):
            key = (u["kind"], u["in"], u.get("trait", ""))
            seen.add(key)
            obligations += 1
            inst.site("<unsafe>", None, "%s %s %s @%s:%s" % (u["kind"], u["in"], u.get("trait", ""), u["sp"]["f"], u["sp"]["l"]))
            if key not in UNSAFE_TABLE:
                inst.violation(u["in"], ("unsafe %s %s" % (u["kind"], u.get("trait", ""))).strip(),
                               "unsafe %s in `%s` is not in the reviewed table: raw allocation handling can release a block with the wrong layout or leak it" % (u["kind"], u["in"]),
                               at="%s:%s" % (u["sp"]["f"], u["sp"]["l"]))
        for key in UNSAFE_TABLE:
            if key not in seen:
                inst.note("table entry no longer present (fine): %s" % (key,))
        bad, nshared = send_sync_side_conditions(R)
        obligations += nshared + 1
        inst.note("%d &self methods of HalfConnection checked for Sync side condition" % nshared)
        for where, why in bad:
            inst.violation(where, "Send/Sync side condition", "unsafe impl Send/Sync for HalfConnection is no longer justified: " + why)
    with cx.instance("C19.b", "T3 WHO-MAY (zero expected)", "no call of a leak/raw-allocation escape hatch anywhere in the crate", floor=1) as inst:
        esc = escape_calls(R)
        obligations += len(ESCAPE)
        inst.site("<crate>", None, "%d escape-hatch patterns x %d bodies scanned, %d hits" % (len(ESCAPE), len(R.fns), len(esc)))
        for b, loc, sn in esc:
            inst.violation(b.path, sn, "call of `%s`: the block's release no longer follows from Rust's ownership rules (leak, or release with a layout chosen by hand)" % sn, at=b.span_at(loc))
        # the matcher is alive: the positive example crate must be flagged
        pd, pm = extract(os.path.join(VERIF, "engine", "positive"), "R", crate="positive", target_dir=os.path.join(VERIF, ".cache", "tgt-positive"))
        P = Facts(pd)
        phits = {sn for b, loc, sn in escape_calls(P)}
        need = {"mem::forget", "Box::from_raw", "Box::leak", "Box::into_raw", "Rc::into_raw", "ManuallyDrop::new", "Vec::set_len", "slice::from_raw_parts_mut", "mem::forget (as a function value)"}
        inst.site("<positive>", None, "positive example: %d/%d constructs matched" % (len(need & phits), len(need)))
        if not need <= phits:
            inst.violation("<checker>", "positive example", "the escape-hatch matcher no longer recognises %s in engine/positive (rule has gone vacuous)" % sorted(need - phits))
        pu = user_unsafe(P)
        if len([u for u in pu if u["kind"] == "block"]) < 2 or not [u for u in pu if u["kind"] == "impl"]:
            inst.violation("<checker>", "positive unsafe inventory", "the unsafe inventory no longer sees the unsafe blocks/impl of engine/positive")
        pbad, _ = ([], 0)
        pedges = type_edges(P)
        if rc_cycle(pedges) is None:
            inst.violation("<checker>", "positive Rc cycle", "the ownership-graph rule no longer detects the Rc cycle in engine/positive")
        if not static_issues(P):
            inst.violation("<checker>", "positive static mut", "the static rule no longer detects `static mut` in engine/positive")
    with cx.instance("C19.c", "T10 TYPEGRAPH", "the strong-ownership graph of the crate's types has no cycle through an Rc edge", floor=1) as inst:
        edges = type_edges(R)
        obligations += len([e for e in edges if e[2]])
        inst.site("<types>", None, "%d types, %d strong ownership edges, %d through Rc" % (len(R.adts), len(edges), len([e for e in edges if e[2]])),
                  {"rc_edges": sorted({"%s -> %s" % (a, b) for a, b, rc in edges if rc})})
        cyc = rc_cycle(edges)
        if cyc:
            inst.violation(cyc[0], "Rc cycle", "type `%s` owns an Rc of `%s`, which (transitively) owns `%s` again: a reference cycle is never freed" % (cyc[0], cyc[1], cyc[0]))
    with cx.instance("C19.d", "T9", "no `static mut`, no growable or interior-mutable static", floor=1) as inst:
        st = [p for p, c in R.consts.items() if c.get("kind", "").startswith("Static")]
        obligations += len(st)
        inst.site("<statics>", None, "%d statics: %s" % (len(st), ", ".join(s.split("::")[-1] for s in st)[:160]))
        for p, why in static_issues(R):
            inst.violation(p, why.split(" ")[0] + " static", "static `%s`: %s (memory reachable from it is never returned)" % (p, why))
    # buffers of a connection are released on the abort paths: a reassembly slot the window passes is cleared
    # whatever its state, and a connection that leaves the maps is put in its terminal state (which drops the
    # HalfConnection and everything it owns)
    from props.shared import window_walks, leave_implies_terminal
    window_walks(cx, "C19.e")
    obligations += len(cx.instances[-1].sites)
    leave_implies_terminal(cx, "C19.f")
    obligations += len(cx.instances[-1].sites)
    from props.shared import removal_implies_fin
    removal_implies_fin(cx, "C19.g")
    # "released ... with the size it was allocated with", at the library's own level: the sender's budget gets back what
    # was charged; and an abandoned handshake is forgotten (its state dropped) whatever the error-reporting flag says
    from props.C06 import inst_sender_alloc_pair
    inst_sender_alloc_pair(cx, "C19.h")
    from props.C17 import timers_scheduled
    timers_scheduled(cx, "C19.i")
    obligations += len(cx.instances[-1].sites)
    cx.extra["obligations"] = obligations


SELFTEST = [
    {"name": "reintroduce Box::from_raw in FragmentBuffer::finalize (F7)",
     "edits": [{"file": "src/half_connection/packet_receiver/assembly_window/fragment_buffer.rs",
                "old": "    pub fn finalize(self) -> Box<[u8]> {\n        debug_assert!(self.total_size <= self.buffer.len());\n        let mut data = self.buffer.into_vec();\n        data.truncate(self.total_size);\n        data.into_boxed_slice()\n    }",
                "new": "    pub fn finalize(mut self) -> Box<[u8]> {\n        let ptr = self.buffer.as_mut_ptr();\n        std::mem::forget(self.buffer);\n        unsafe { Box::from_raw(std::slice::from_raw_parts_mut(ptr, self.total_size)) }\n    }"}],
     "expect": ["C19.a", "C19.b"]},
    {"name": "add a mem::forget of a dropped client's state",
     "edits": [{"file": "src/server/mod.rs", "old": "        std::mem::take(&mut self.events_out).into_iter()", "new": "        std::mem::forget(Vec::<u8>::with_capacity(16));\n        std::mem::take(&mut self.events_out).into_iter()"}],
     "expect": ["C19.b"]},
]
