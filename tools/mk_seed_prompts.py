#!/usr/bin/env python3
"""Writes the prompts given to the defect-seeding sub-agents: /tmp/mut-prompt-<ID><suffix>.txt for every property.
A prompt contains ONLY the property's text (id, title, statement, quantifier) from properties.jsonl, the working
rules, and the list of places (file: fn) that earlier kept changes for that property already touched — nothing
else from /verif.   usage: mk_seed_prompts.py <suffix> [ID ...]"""
import json, os, re, sys
VERIF = os.path.dirname(os.path.dirname(os.path.abspath(__file__)))
suffix = sys.argv[1]
only = set(sys.argv[2:])
tpl = open(os.path.join(VERIF, "tools", "seed_prompt_template.txt")).read()
for line in open(os.path.join(VERIF, "properties.jsonl")):
    p = json.loads(line)
    pid = p["id"]
    if only and pid not in only:
        continue
    prop = "%s — %s\n\n%s\n\nQuantified over: %s" % (pid, p["title"], p["statement"].strip(), (p.get("quantifier") or {}).get("text", "").strip())
    tried = []
    root = os.path.join(VERIF, "seeded")
    for d in sorted(os.listdir(root)):
        if not re.fullmatch(pid + r"[a-z]?-\d", d):
            continue
        txt = open(os.path.join(root, d, "patch.diff")).read()
        cur = None
        for l in txt.split("\n"):
            m = re.match(r"\+\+\+ b/(\S+)", l)
            if m:
                cur = m.group(1)
            m = re.match(r"@@ -(\d+)(?:,(\d+))? ", l)
            if m and cur:
                # enclosing fn of the hunk's first changed line, read from /repo's source
                try:
                    src = open(os.path.join("/repo", cur)).read().split("\n")
                except OSError:
                    continue
                start = int(m.group(1)) + 3
                fn = None
                for i in range(min(start, len(src)) - 1, -1, -1):
                    mm = re.match(r"\s*(?:pub(?:\([a-z]+\))? )?fn (\w+)", src[i])
                    if mm:
                        fn = mm.group(1)
                        break
                if fn:
                    tried.append("%s: fn %s" % (cur, fn))
    tried = sorted(set(tried))
    tr = ""
    if tried:
        tr = ("Other engineers have already produced changes for this property in the following places; do NOT repeat those — pick different functions and different mechanisms:\n"
              + "".join("  - %s\n" % t for t in tried) + "\n")
    out = tpl.replace("@PROP@", prop).replace("@TRIED@", tr).replace("@ID@", pid + suffix)
    open("/tmp/mut-prompt-%s%s.txt" % (pid, suffix), "w").write(out)
    print(pid + suffix, len(tried), "places listed")
