#!/usr/bin/env python3
"""Re-runs the registered checks against every kept seeded change and refreshes meta.json's caught_by; prints the
changes the own property's check misses.  For speed each patch is applied to a scratch copy of /repo under /tmp
(removed afterwards) and the checks are run with `--src <copy>`, eight patches in parallel; tools/build_seeded.py,
which creates the entries, runs them the slow way (git -C /repo apply; ./check …; git -C /repo checkout -- .)."""
import json, os, re, shutil, subprocess, sys, tempfile
from concurrent.futures import ThreadPoolExecutor
VERIF = os.path.dirname(os.path.dirname(os.path.abspath(__file__)))
root = os.path.join(VERIF, "seeded")
only = set(sys.argv[1:])
props = sorted(f[:-3] for f in os.listdir(os.path.join(VERIF, "props")) if re.fullmatch(r"C\d+\.py", f))
ids = [d for d in sorted(os.listdir(root)) if os.path.exists(os.path.join(root, d, "meta.json")) and (not only or d in only)]


def one(d):
    tmp = tempfile.mkdtemp(prefix="uflow-seeded-")
    try:
        dst = os.path.join(tmp, "repo")
        shutil.copytree("/repo", dst, ignore=shutil.ignore_patterns("target", ".git"))
        p = subprocess.run(["git", "apply", "--whitespace=nowarn", os.path.join(root, d, "patch.diff")], cwd=dst, stdout=subprocess.PIPE, stderr=subprocess.STDOUT, text=True)
        if p.returncode != 0:
            return d, {"error": p.stdout[-200:]}
        fired = {}
        env = dict(os.environ, VERIF_EVIDENCE_DIR=os.path.join(tmp, "ev"), VERIF_REPLAY_DIR=os.path.join(tmp, "rp"))
        for pr in props:
            r = subprocess.run([os.path.join(VERIF, "check"), pr, "quick", "--src", dst, "--target-dir", os.path.join(tmp, "tgt")], stdout=subprocess.PIPE, stderr=subprocess.STDOUT, text=True, env=env)
            if r.returncode != 0:
                insts = re.findall(r"rule .* instance (\S+) in (\S+)", r.stdout)
                fired[pr] = sorted({"%s @ %s" % (i, f.split("::")[-1]) for i, f in insts}) or ["(exit %d)" % r.returncode]
        return d, {"fired": fired}
    finally:
        shutil.rmtree(tmp, ignore_errors=True)


missed = []
with ThreadPoolExecutor(max_workers=8) as ex:
    for d, res in ex.map(one, ids):
        if "error" in res:
            print(d, "ERROR", res["error"]); continue
        mp = os.path.join(root, d, "meta.json")
        m = json.load(open(mp))
        m["caught_by"] = res["fired"]
        m["caught_by_own_property_check"] = m["property"] in res["fired"]
        json.dump(m, open(mp, "w"), indent=1)
        print(d, "own" if m["caught_by_own_property_check"] else "MISSED-BY-OWN", {k: sorted({x.split(" @ ")[0] for x in v}) for k, v in res["fired"].items()}, flush=True)
        if not m["caught_by_own_property_check"]:
            missed.append(d)
print("missed by own property's check:", missed)
