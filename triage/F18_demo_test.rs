// F18: a send-rate ceiling of 2^32 B/s or more is a valid configuration (EndpointConfig::is_valid only asks for > 0), but
// the client and the server narrowed it with `as u32`, which wraps: 2^32 became 0 and the endpoint never sent a data
// frame.  The advertised limits next to it saturate (`.min(u32::MAX as usize) as u32`).
use std::time::{Duration, Instant};

#[test]
fn f18_send_rate_ceiling_of_2_pow_32() {
    let mut scfg: uflow::server::Config = Default::default();
    scfg.endpoint_config.max_send_rate = 1usize << 32;
    let mut ccfg: uflow::client::Config = Default::default();
    ccfg.endpoint_config.max_send_rate = 1usize << 32;
    assert!(scfg.is_valid() && ccfg.is_valid());

    let mut server = uflow::server::Server::bind("127.0.0.1:0", scfg).unwrap();
    let addr = server.address();
    let mut client = uflow::client::Client::connect(addr, ccfg).unwrap();

    let deadline = Instant::now() + Duration::from_secs(4);
    let mut connected = false;
    let mut received = 0;
    let mut sent = false;
    while Instant::now() < deadline && received < 3 {
        for ev in client.step() {
            if let uflow::client::Event::Connect = ev { connected = true; }
        }
        if connected && !sent {
            for _ in 0 .. 3 {
                client.send(vec![7u8; 100].into_boxed_slice(), 0, uflow::SendMode::Reliable);
            }
            sent = true;
        }
        client.flush();
        for ev in server.step() {
            if let uflow::server::Event::Receive(_, _) = ev { received += 1; }
        }
        server.flush();
        std::thread::sleep(Duration::from_millis(5));
    }
    assert!(connected, "handshake did not complete");
    assert_eq!(received, 3, "packets sent with a 2^32 B/s ceiling were not delivered within 4 s");
}
