// Fact extractor for the uflow static checks (engine E0, see /verif/DESIGN.md §1.1).
//
// Invoked as RUSTC_WORKSPACE_WRAPPER: argv[1] is the real rustc, the rest is the rustc command
// line.  For the crate named by UFLOW_FACTS_CRATE (default "uflow") it writes one JSON fact file to
// UFLOW_FACTS_OUT after analysis; every other crate is compiled untouched.
#![feature(rustc_private)]

extern crate rustc_abi;
extern crate rustc_driver;
extern crate rustc_hir;
extern crate rustc_interface;
extern crate rustc_middle;
extern crate rustc_span;

use rustc_hir::def::DefKind;
use rustc_hir::def_id::{DefId, LOCAL_CRATE};
use rustc_middle::mir::{self, *};
use rustc_middle::ty::{self, Ty, TyCtxt};
use rustc_span::Span;
use std::fmt::Write as _;

fn esc(s: &str) -> String {
    let mut o = String::with_capacity(s.len() + 2);
    o.push('"');
    for c in s.chars() {
        match c {
            '"' => o.push_str("\\\""),
            '\\' => o.push_str("\\\\"),
            '\n' => o.push_str("\\n"),
            '\r' => o.push_str("\\r"),
            '\t' => o.push_str("\\t"),
            c if (c as u32) < 0x20 => {
                let _ = write!(o, "\\u{:04x}", c as u32);
            }
            c => o.push(c),
        }
    }
    o.push('"');
    o
}

fn obj(fields: Vec<(&str, String)>) -> String {
    let mut o = String::from("{");
    for (i, (k, v)) in fields.iter().enumerate() {
        if i > 0 {
            o.push(',');
        }
        o.push_str(&esc(k));
        o.push(':');
        o.push_str(v);
    }
    o.push('}');
    o
}

fn arr(items: Vec<String>) -> String {
    let mut o = String::from("[");
    for (i, v) in items.iter().enumerate() {
        if i > 0 {
            o.push(',');
        }
        o.push_str(v);
    }
    o.push(']');
    o
}

struct Cx<'tcx> {
    tcx: TyCtxt<'tcx>,
}

impl<'tcx> Cx<'tcx> {
    fn span(&self, sp: Span) -> String {
        let sm = self.tcx.sess.source_map();
        // Location of the outermost call site (what the user wrote) plus macro name if expanded.
        let root = sp.source_callsite();
        let lo = sm.lookup_char_pos(root.lo());
        let file = format!("{}", lo.file.name.prefer_local_unconditionally());
        let mut fields = vec![
            ("f", esc(&file)),
            ("l", format!("{}", lo.line)),
            ("c", format!("{}", lo.col.0 + 1)),
        ];
        if sp.from_expansion() {
            let mut names = vec![];
            let mut cur = sp;
            let mut guard = 0;
            while cur.from_expansion() && guard < 16 {
                let ed = cur.ctxt().outer_expn_data();
                names.push(esc(&format!("{}", ed.kind.descr())));
                cur = ed.call_site;
                guard += 1;
            }
            fields.push(("x", arr(names)));
        }
        obj(fields)
    }

    fn path(&self, did: DefId) -> String {
        self.tcx.def_path_str(did)
    }

    fn ty(&self, t: Ty<'tcx>) -> String {
        esc(&format!("{}", t))
    }

    fn place(&self, body: &Body<'tcx>, pl: Place<'tcx>) -> String {
        let mut projs = vec![];
        for (base, elem) in pl.iter_projections() {
            let p = match elem {
                ProjectionElem::Deref => esc("*"),
                ProjectionElem::Field(f, fty) => {
                    let bty = base.ty(&body.local_decls, self.tcx);
                    let mut owner = String::new();
                    let name = match bty.ty.kind() {
                        ty::Adt(adt, _) => {
                            let v = match bty.variant_index {
                                Some(v) => adt.variant(v),
                                None => adt.non_enum_variant(),
                            };
                            owner = self.path(adt.did());
                            if adt.is_enum() {
                                owner = format!("{}::{}", owner, v.name);
                            }
                            format!("{}", v.fields[f].name)
                        }
                        ty::Closure(did, _) => {
                            owner = format!("closure:{}", self.path(*did));
                            format!("{}", f.index())
                        }
                        _ => format!("{}", f.index()),
                    };
                    obj(vec![
                        ("f", esc(&name)),
                        ("i", format!("{}", f.index())),
                        ("ty", self.ty(fty)),
                        ("o", esc(&owner)),
                    ])
                }
                ProjectionElem::Downcast(name, idx) => {
                    let n = match name {
                        Some(n) => format!("{}", n),
                        None => format!("{}", idx.index()),
                    };
                    obj(vec![("dc", esc(&n)), ("vi", format!("{}", idx.index()))])
                }
                ProjectionElem::Index(l) => obj(vec![("idx", format!("{}", l.index()))]),
                ProjectionElem::ConstantIndex { offset, min_length, from_end } => obj(vec![
                    ("cidx", format!("{}", offset)),
                    ("min", format!("{}", min_length)),
                    ("from_end", format!("{}", from_end)),
                ]),
                ProjectionElem::Subslice { from, to, from_end } => obj(vec![
                    ("sub", format!("[{},{}]", from, to)),
                    ("from_end", format!("{}", from_end)),
                ]),
                ProjectionElem::OpaqueCast(_) => esc("opaque"),
                ProjectionElem::UnwrapUnsafeBinder(_) => esc("unwrap_binder"),
            };
            projs.push(p);
        }
        obj(vec![("l", format!("{}", pl.local.index())), ("p", arr(projs))])
    }

    fn constant(&self, body_did: DefId, c: &ConstOperand<'tcx>) -> String {
        let tcx = self.tcx;
        let cty = c.const_.ty();
        let mut fields = vec![("k", esc("const")), ("ty", self.ty(cty))];
        // Function items / closures: record the def path.
        match cty.kind() {
            ty::FnDef(did, gargs) => {
                fields.push(("fn", esc(&self.path(*did))));
                fields.push(("gargs", esc(&format!("{:?}", gargs))));
            }
            _ => {}
        }
        // Named constant item?
        if let mir::Const::Unevaluated(uv, _) = c.const_ {
            fields.push(("item", esc(&self.path(uv.def))));
            if let Some(p) = uv.promoted {
                fields.push(("promoted", format!("{}", p.index())));
            }
        }
        let env = ty::TypingEnv::post_analysis(tcx, body_did);
        if let Some(si) = c.const_.try_eval_scalar_int(tcx, env) {
            let size = si.size();
            let bits = si.to_bits(size);
            fields.push(("bits", esc(&format!("{}", bits))));
            fields.push(("size", format!("{}", size.bytes())));
            // signed interpretation
            if cty.is_signed() {
                let v = size.sign_extend(bits) as i128;
                fields.push(("int", esc(&format!("{}", v))));
            }
            if let ty::Float(fty) = cty.kind() {
                let f = match fty {
                    ty::FloatTy::F32 => f32::from_bits(bits as u32) as f64,
                    ty::FloatTy::F64 => f64::from_bits(bits as u64),
                    _ => f64::NAN,
                };
                fields.push(("float", esc(&format!("{:?}", f))));
            }
        }
        // reference to a `static` item: record its def path
        if let Ok(val) = c.const_.eval(tcx, env, c.span) {
            if let mir::ConstValue::Scalar(rustc_middle::mir::interpret::Scalar::Ptr(ptr, _)) = val {
                let aid = ptr.provenance.alloc_id();
                if let rustc_middle::mir::interpret::GlobalAlloc::Static(sdid) = tcx.global_alloc(aid) {
                    fields.push(("static", esc(&self.path(sdid))));
                }
            }
        }
        fields.push(("txt", esc(&format!("{}", c.const_))));
        obj(fields)
    }

    fn operand(&self, body_did: DefId, body: &Body<'tcx>, op: &Operand<'tcx>) -> String {
        match op {
            Operand::Copy(p) => obj(vec![("k", esc("copy")), ("pl", self.place(body, *p))]),
            Operand::Move(p) => obj(vec![("k", esc("move")), ("pl", self.place(body, *p))]),
            Operand::Constant(c) => self.constant(body_did, c),
            #[allow(unreachable_patterns)]
            _ => obj(vec![("k", esc("other")), ("txt", esc(&format!("{:?}", op)))]),
        }
    }

    fn rvalue(&self, body_did: DefId, body: &Body<'tcx>, rv: &Rvalue<'tcx>) -> String {
        let tcx = self.tcx;
        let o = |op: &Operand<'tcx>| self.operand(body_did, body, op);
        match rv {
            Rvalue::Use(op, ..) => obj(vec![("k", esc("use")), ("op", o(op))]),
            Rvalue::Repeat(op, n) => obj(vec![
                ("k", esc("repeat")),
                ("op", o(op)),
                ("n", esc(&format!("{}", n))),
            ]),
            Rvalue::Ref(_, bk, pl) => obj(vec![
                ("k", esc("ref")),
                ("mut", format!("{}", matches!(bk, BorrowKind::Mut { .. }))),
                ("pl", self.place(body, *pl)),
            ]),
            Rvalue::RawPtr(kind, pl) => obj(vec![
                ("k", esc("rawptr")),
                ("mut", format!("{}", format!("{:?}", kind).contains("Mut"))),
                ("pl", self.place(body, *pl)),
            ]),
            Rvalue::Cast(ck, op, t) => obj(vec![
                ("k", esc("cast")),
                ("ck", esc(&format!("{:?}", ck))),
                ("op", o(op)),
                ("from", self.ty(op.ty(&body.local_decls, tcx))),
                ("ty", self.ty(*t)),
            ]),
            Rvalue::BinaryOp(bop, ops) => obj(vec![
                ("k", esc("bin")),
                ("op", esc(&format!("{:?}", bop))),
                ("a", o(&ops.0)),
                ("b", o(&ops.1)),
                ("ty", self.ty(ops.0.ty(&body.local_decls, tcx))),
            ]),
            Rvalue::UnaryOp(uop, op) => obj(vec![
                ("k", esc("un")),
                ("op", esc(&format!("{:?}", uop))),
                ("a", o(op)),
                ("ty", self.ty(op.ty(&body.local_decls, tcx))),
            ]),
            Rvalue::Discriminant(pl) => obj(vec![
                ("k", esc("discr")),
                ("pl", self.place(body, *pl)),
                ("ty", self.ty(pl.ty(&body.local_decls, tcx).ty)),
            ]),
            Rvalue::Aggregate(ak, ops) => {
                let mut fields = vec![("k", esc("agg"))];
                match &**ak {
                    AggregateKind::Array(t) => {
                        fields.push(("ak", esc("array")));
                        fields.push(("ety", self.ty(*t)));
                    }
                    AggregateKind::Tuple => fields.push(("ak", esc("tuple"))),
                    AggregateKind::Adt(did, vidx, _, _, _) => {
                        fields.push(("ak", esc("adt")));
                        fields.push(("adt", esc(&self.path(*did))));
                        let adt = tcx.adt_def(*did);
                        let v = adt.variant(*vidx);
                        fields.push(("variant", esc(&format!("{}", v.name))));
                        fields.push(("vi", format!("{}", vidx.index())));
                        fields.push((
                            "fields",
                            arr(v.fields.iter().map(|f| esc(&format!("{}", f.name))).collect()),
                        ));
                    }
                    AggregateKind::Closure(did, _) => {
                        fields.push(("ak", esc("closure")));
                        fields.push(("closure", esc(&self.path(*did))));
                        fields.push(("cid", esc(&format!("{:?}", did))));
                    }
                    other => {
                        fields.push(("ak", esc("other")));
                        fields.push(("txt", esc(&format!("{:?}", other))));
                    }
                }
                fields.push(("ops", arr(ops.iter().map(|x| o(x)).collect())));
                obj(fields)
            }
            Rvalue::CopyForDeref(pl) => obj(vec![
                ("k", esc("use")),
                ("op", obj(vec![("k", esc("copy")), ("pl", self.place(body, *pl))])),
            ]),
            Rvalue::ThreadLocalRef(did) => obj(vec![("k", esc("tls")), ("def", esc(&self.path(*did)))]),
            other => obj(vec![("k", esc("other")), ("txt", esc(&format!("{:?}", other)))]),
        }
    }

    fn callee(&self, body_did: DefId, body: &Body<'tcx>, func: &Operand<'tcx>) -> Vec<(&'static str, String)> {
        let tcx = self.tcx;
        let fty = func.ty(&body.local_decls, tcx);
        let mut out = vec![];
        if let ty::FnDef(cdid, gargs) = fty.kind() {
            out.push(("decl", esc(&self.path(*cdid))));
            out.push(("gargs", arr(gargs.iter().map(|g| esc(&format!("{}", g))).collect())));
            let env = ty::TypingEnv::post_analysis(tcx, body_did);
            let resolved = ty::Instance::try_resolve(tcx, env, *cdid, gargs);
            match resolved {
                Ok(Some(inst)) => {
                    let rdid = inst.def_id();
                    out.push(("fn", esc(&self.path(rdid))));
                    out.push(("local", format!("{}", rdid.is_local())));
                    out.push(("inst", esc(&format!("{}", inst))));
                    // Closure calls (FnOnce::call_once on a closure) resolve to the closure body.
                    if let ty::InstanceKind::Item(_) = inst.def {
                    } else {
                        out.push(("shim", esc(&format!("{:?}", inst.def))));
                    }
                }
                _ => {
                    out.push(("fn", esc(&self.path(*cdid))));
                    out.push(("local", format!("{}", cdid.is_local())));
                    out.push(("unresolved", "true".to_string()));
                }
            }
            // trait of the declared item, if any
            if let Some(tr) = tcx.trait_of_assoc(*cdid) {
                out.push(("trait", esc(&self.path(tr))));
            }
        } else {
            out.push(("fn", "null".to_string()));
            out.push(("fnop", self.operand(body_did, body, func)));
            out.push(("fnty", self.ty(fty)));
        }
        out
    }

    fn terminator(&self, body_did: DefId, body: &Body<'tcx>, t: &Terminator<'tcx>) -> String {
        let o = |op: &Operand<'tcx>| self.operand(body_did, body, op);
        let sp = ("sp", self.span(t.source_info.span));
        let unwind = |u: &UnwindAction| match u {
            UnwindAction::Cleanup(bb) => format!("{}", bb.index()),
            _ => "null".to_string(),
        };
        match &t.kind {
            TerminatorKind::Goto { target } => {
                obj(vec![("k", esc("goto")), ("target", format!("{}", target.index())), sp])
            }
            TerminatorKind::SwitchInt { discr, targets } => {
                let mut ts = vec![];
                for (v, bb) in targets.iter() {
                    ts.push(format!("[{},{}]", esc(&format!("{}", v)), bb.index()));
                }
                obj(vec![
                    ("k", esc("switch")),
                    ("op", o(discr)),
                    ("ty", self.ty(discr.ty(&body.local_decls, self.tcx))),
                    ("targets", arr(ts)),
                    ("otherwise", format!("{}", targets.otherwise().index())),
                    sp,
                ])
            }
            TerminatorKind::Return => obj(vec![("k", esc("return")), sp]),
            TerminatorKind::Unreachable => obj(vec![("k", esc("unreachable")), sp]),
            TerminatorKind::UnwindResume => obj(vec![("k", esc("resume")), sp]),
            TerminatorKind::UnwindTerminate(_) => obj(vec![("k", esc("terminate")), sp]),
            TerminatorKind::Drop { place, target, unwind: u, .. } => obj(vec![
                ("k", esc("drop")),
                ("pl", self.place(body, *place)),
                ("ty", self.ty(place.ty(&body.local_decls, self.tcx).ty)),
                ("target", format!("{}", target.index())),
                ("unwind", unwind(u)),
                sp,
            ]),
            TerminatorKind::Call { func, args, destination, target, unwind: u, .. } => {
                let mut fields = vec![("k", esc("call"))];
                fields.extend(self.callee(body_did, body, func));
                fields.push(("args", arr(args.iter().map(|a| o(&a.node)).collect())));
                fields.push(("dest", self.place(body, *destination)));
                fields.push((
                    "target",
                    match target {
                        Some(bb) => format!("{}", bb.index()),
                        None => "null".to_string(),
                    },
                ));
                fields.push(("unwind", unwind(u)));
                fields.push(sp);
                obj(fields)
            }
            TerminatorKind::Assert { cond, expected, msg, target, unwind: u } => {
                let kind = match &**msg {
                    AssertKind::BoundsCheck { .. } => "BoundsCheck".to_string(),
                    AssertKind::Overflow(op, ..) => format!("Overflow({:?})", op),
                    AssertKind::OverflowNeg(_) => "OverflowNeg".to_string(),
                    AssertKind::DivisionByZero(_) => "DivisionByZero".to_string(),
                    AssertKind::RemainderByZero(_) => "RemainderByZero".to_string(),
                    other => format!("{:?}", other).chars().take(40).collect(),
                };
                let mut fields = vec![
                    ("k", esc("assert")),
                    ("cond", o(cond)),
                    ("expected", format!("{}", expected)),
                    ("msg", esc(&kind)),
                    ("target", format!("{}", target.index())),
                    ("unwind", unwind(u)),
                    sp,
                ];
                if let AssertKind::BoundsCheck { len, index } = &**msg {
                    fields.push(("len", o(len)));
                    fields.push(("index", o(index)));
                }
                obj(fields)
            }
            TerminatorKind::FalseEdge { real_target, .. } => {
                obj(vec![("k", esc("goto")), ("target", format!("{}", real_target.index())), sp])
            }
            TerminatorKind::FalseUnwind { real_target, .. } => {
                obj(vec![("k", esc("goto")), ("target", format!("{}", real_target.index())), sp])
            }
            other => obj(vec![("k", esc("other")), ("txt", esc(&format!("{:?}", other))), sp]),
        }
    }

    fn body(&self, did: DefId) -> String {
        let body = self.tcx.optimized_mir(did);
        self.body_json(did, body)
    }

    fn body_json(&self, did: DefId, body: &Body<'tcx>) -> String {
        let mut locals = vec![];
        for (_l, d) in body.local_decls.iter_enumerated() {
            locals.push(obj(vec![
                ("ty", self.ty(d.ty)),
                ("mut", format!("{}", d.mutability.is_mut())),
            ]));
        }
        // user variable names via debuginfo
        let mut dbg = vec![];
        for vdi in body.var_debug_info.iter() {
            if let VarDebugInfoContents::Place(p) = vdi.value {
                dbg.push(obj(vec![
                    ("name", esc(&format!("{}", vdi.name))),
                    ("pl", self.place(body, p)),
                    ("arg", match vdi.argument_index { Some(i) => format!("{}", i), None => "null".into() }),
                ]));
            }
        }
        let mut blocks = vec![];
        for (_bb, data) in body.basic_blocks.iter_enumerated() {
            let mut stmts = vec![];
            for s in data.statements.iter() {
                match &s.kind {
                    StatementKind::Assign(b) => {
                        let (pl, rv) = &**b;
                        stmts.push(obj(vec![
                            ("k", esc("assign")),
                            ("pl", self.place(body, *pl)),
                            ("rv", self.rvalue(did, body, rv)),
                            ("sp", self.span(s.source_info.span)),
                        ]));
                    }
                    StatementKind::SetDiscriminant { place, variant_index } => {
                        stmts.push(obj(vec![
                            ("k", esc("setdiscr")),
                            ("pl", self.place(body, **place)),
                            ("vi", format!("{}", variant_index.index())),
                            ("sp", self.span(s.source_info.span)),
                        ]));
                    }
                    StatementKind::Intrinsic(i) => {
                        stmts.push(obj(vec![
                            ("k", esc("intrinsic")),
                            ("txt", esc(&format!("{:?}", i))),
                            ("sp", self.span(s.source_info.span)),
                        ]));
                    }
                    _ => {}
                }
            }
            let term = self.terminator(did, body, data.terminator());
            blocks.push(obj(vec![
                ("cleanup", format!("{}", data.is_cleanup)),
                ("stmts", arr(stmts)),
                ("term", term),
            ]));
        }
        obj(vec![
            ("argc", format!("{}", body.arg_count)),
            ("locals", arr(locals)),
            ("dbg", arr(dbg)),
            ("blocks", arr(blocks)),
        ])
    }
}

struct UnsafeVisitor<'tcx> {
    tcx: TyCtxt<'tcx>,
    out: Vec<String>,
    cx_span: fn(&Cx<'tcx>, Span) -> String,
}

impl<'tcx> rustc_hir::intravisit::Visitor<'tcx> for UnsafeVisitor<'tcx> {
    type NestedFilter = rustc_middle::hir::nested_filter::All;
    fn maybe_tcx(&mut self) -> TyCtxt<'tcx> {
        self.tcx
    }
    fn visit_block(&mut self, b: &'tcx rustc_hir::Block<'tcx>) {
        if let rustc_hir::BlockCheckMode::UnsafeBlock(src) = b.rules {
            if !b.span.from_expansion() || matches!(src, rustc_hir::UnsafeSource::UserProvided) {
                let owner = self.tcx.hir_enclosing_body_owner(b.hir_id);
                let cx = Cx { tcx: self.tcx };
                self.out.push(obj(vec![
                    ("kind", esc("block")),
                    ("user", format!("{}", matches!(src, rustc_hir::UnsafeSource::UserProvided))),
                    ("expn", format!("{}", b.span.from_expansion())),
                    ("in", esc(&self.tcx.def_path_str(owner.to_def_id()))),
                    ("sp", (self.cx_span)(&cx, b.span)),
                ]));
            }
        }
        rustc_hir::intravisit::walk_block(self, b);
    }
}

struct Cb;

impl rustc_driver::Callbacks for Cb {
    fn after_analysis<'tcx>(
        &mut self,
        _c: &rustc_interface::interface::Compiler,
        tcx: TyCtxt<'tcx>,
    ) -> rustc_driver::Compilation {
        let want = std::env::var("UFLOW_FACTS_CRATE").unwrap_or_else(|_| "uflow".to_string());
        let out_path = match std::env::var("UFLOW_FACTS_OUT") {
            Ok(p) => p,
            Err(_) => return rustc_driver::Compilation::Continue,
        };
        let cname = format!("{}", tcx.crate_name(LOCAL_CRATE));
        if cname != want {
            return rustc_driver::Compilation::Continue;
        }
        // When a crate type filter is given (e.g. only the lib), skip test/bin targets that share
        // the crate name.  The harness selects by passing --lib, so nothing more is needed here.
        let cx = Cx { tcx };

        let mut fns = vec![];
        let mut consts = vec![];
        let mut adts = vec![];
        let mut impls = vec![];
        let mut unsafe_items = vec![];

        for ldid in tcx.hir_body_owners() {
            let did = ldid.to_def_id();
            let kind = tcx.def_kind(did);
            match kind {
                DefKind::Fn | DefKind::AssocFn | DefKind::Closure => {
                    let mut fields = vec![
                        ("path", esc(&cx.path(did))),
                        ("kind", esc(&format!("{:?}", kind))),
                        ("sp", cx.span(tcx.def_span(did))),
                    ];
                    if matches!(kind, DefKind::Fn | DefKind::AssocFn) {
                        fields.push(("vis", esc(&format!("{:?}", tcx.visibility(did)))));
                        let sig = tcx.fn_sig(did).skip_binder().skip_binder();
                        fields.push(("unsafe", format!("{}", !sig.safety().is_safe())));
                        fields.push((
                            "inputs",
                            arr(sig.inputs().iter().map(|t| cx.ty(*t)).collect()),
                        ));
                        fields.push(("output", cx.ty(sig.output())));
                    }
                    if kind == DefKind::AssocFn {
                        if let Some(imp) = tcx.impl_of_assoc(did) {
                            let sty = tcx.type_of(imp).skip_binder();
                            fields.push(("self_ty", cx.ty(sty)));
                            if let Some(tr) = tcx.impl_opt_trait_ref(imp) {
                                fields.push(("trait", esc(&cx.path(tr.skip_binder().def_id))));
                            }
                        }
                    }
                    if kind == DefKind::Closure {
                        let parent = tcx.typeck_root_def_id(did);
                        fields.push(("parent", esc(&cx.path(parent))));
                        fields.push(("cid", esc(&format!("{:?}", did))));
                    }
                    fields.push(("body", cx.body(did)));
                    fns.push(obj(fields));
                    // promoted constants of this body (e.g. `&Frame::DisconnectFrame(..)`)
                    for (pi, pbody) in tcx.promoted_mir(did).iter_enumerated() {
                        fns.push(obj(vec![
                            ("path", esc(&format!("{}::promoted[{}]", cx.path(did), pi.index()))),
                            ("kind", esc("Promoted")),
                            ("sp", cx.span(tcx.def_span(did))),
                            ("parent", esc(&cx.path(did))),
                            ("body", cx.body_json(did, pbody)),
                        ]));
                    }
                }
                DefKind::Const { .. } | DefKind::Static { .. } | DefKind::AssocConst { .. } => {
                    let mut fields = vec![
                        ("path", esc(&cx.path(did))),
                        ("kind", esc(&format!("{:?}", kind))),
                        ("sp", cx.span(tcx.def_span(did))),
                    ];
                    let t = tcx.type_of(did).skip_binder();
                    fields.push(("ty", cx.ty(t)));
                    if matches!(kind, DefKind::Const { .. } | DefKind::AssocConst { .. }) {
                        if let Ok(val) = tcx.const_eval_poly(did) {
                            if let mir::ConstValue::Indirect { alloc_id, .. } = val {
                                let alloc = tcx.global_alloc(alloc_id).unwrap_memory();
                                let a = alloc.inner();
                                let bytes = a.inspect_with_uninit_and_ptr_outside_interpreter(0..a.len());
                                let mut hex = String::with_capacity(bytes.len() * 2);
                                for b in bytes {
                                    let _ = write!(hex, "{:02x}", b);
                                }
                                fields.push(("bytes_hex", esc(&hex)));
                            }
                            if let Some(si) = val.try_to_scalar_int() {
                                let size = si.size();
                                let bits = si.to_bits(size);
                                fields.push(("bits", esc(&format!("{}", bits))));
                                fields.push(("size", format!("{}", size.bytes())));
                                if let ty::Float(fty) = t.kind() {
                                    let f = match fty {
                                        ty::FloatTy::F32 => f32::from_bits(bits as u32) as f64,
                                        ty::FloatTy::F64 => f64::from_bits(bits as u64),
                                        _ => f64::NAN,
                                    };
                                    fields.push(("float", esc(&format!("{:?}", f))));
                                }
                            }
                        }
                    } else if let Ok(alloc) = tcx.eval_static_initializer(did) {
                        let a = alloc.inner();
                        let bytes = a.inspect_with_uninit_and_ptr_outside_interpreter(0..a.len());
                        let mut hex = String::with_capacity(bytes.len() * 2);
                        for b in bytes {
                            let _ = write!(hex, "{:02x}", b);
                        }
                        fields.push(("bytes_hex", esc(&hex)));
                    }
                    consts.push(obj(fields));
                }
                _ => {}
            }
        }

        // Type definitions, impls, unsafe impls
        for id in tcx.hir_free_items() {
            let item = tcx.hir_item(id);
            let did = item.owner_id.to_def_id();
            match tcx.def_kind(did) {
                DefKind::Struct | DefKind::Enum | DefKind::Union => {
                    let adt = tcx.adt_def(did);
                    let mut variants = vec![];
                    for (vi, v) in adt.variants().iter_enumerated() {
                        let discr = if adt.is_enum() {
                            format!("{}", adt.discriminant_for_variant(tcx, vi).val)
                        } else {
                            "0".to_string()
                        };
                        let mut fs = vec![];
                        for f in v.fields.iter() {
                            let fty = tcx.type_of(f.did).skip_binder();
                            fs.push(obj(vec![
                                ("name", esc(&format!("{}", f.name))),
                                ("ty", cx.ty(fty)),
                                ("vis", esc(&format!("{:?}", f.vis))),
                            ]));
                        }
                        variants.push(obj(vec![
                            ("name", esc(&format!("{}", v.name))),
                            ("discr", esc(&discr)),
                            ("fields", arr(fs)),
                        ]));
                    }
                    adts.push(obj(vec![
                        ("path", esc(&cx.path(did))),
                        ("kind", esc(&format!("{:?}", tcx.def_kind(did)))),
                        ("vis", esc(&format!("{:?}", tcx.visibility(did)))),
                        ("variants", arr(variants)),
                        ("sp", cx.span(item.span)),
                    ]));
                }
                DefKind::Impl { of_trait } => {
                    let sty = tcx.type_of(did).skip_binder();
                    let mut fields = vec![
                        ("self_ty", cx.ty(sty)),
                        ("of_trait", format!("{}", of_trait)),
                        ("sp", cx.span(item.span)),
                        ("expn", format!("{}", item.span.from_expansion())),
                    ];
                    if let Some(tr) = tcx.impl_opt_trait_ref(did) {
                        fields.push(("trait", esc(&cx.path(tr.skip_binder().def_id))));
                    }
                    let mut is_unsafe = false;
                    if let rustc_hir::ItemKind::Impl(imp) = &item.kind {
                        if let Some(otr) = &imp.of_trait {
                            is_unsafe = !otr.safety.is_safe();
                        }
                    }
                    fields.push(("unsafe", format!("{}", is_unsafe)));
                    if is_unsafe && !item.span.from_expansion() {
                        unsafe_items.push(obj(vec![
                            ("kind", esc("impl")),
                            ("user", "true".into()),
                            ("expn", "false".into()),
                            ("in", esc(&format!("{}", sty))),
                            ("trait", esc(&tcx.impl_opt_trait_ref(did).map(|t| cx.path(t.skip_binder().def_id)).unwrap_or_default())),
                            ("sp", cx.span(item.span)),
                        ]));
                    }
                    impls.push(obj(fields));
                }
                _ => {}
            }
        }

        // unsafe blocks (HIR walk)
        let mut uv = UnsafeVisitor { tcx, out: vec![], cx_span: |cx, sp| cx.span(sp) };
        tcx.hir_visit_all_item_likes_in_crate(&mut uv);
        uv.out.sort();
        uv.out.dedup();
        unsafe_items.extend(uv.out);
        // unsafe fns
        for ldid in tcx.hir_body_owners() {
            let did = ldid.to_def_id();
            if matches!(tcx.def_kind(did), DefKind::Fn | DefKind::AssocFn) {
                let sig = tcx.fn_sig(did).skip_binder().skip_binder();
                if !sig.safety().is_safe() {
                    unsafe_items.push(obj(vec![
                        ("kind", esc("fn")),
                        ("user", "true".into()),
                        ("expn", format!("{}", tcx.def_span(did).from_expansion())),
                        ("in", esc(&cx.path(did))),
                        ("sp", cx.span(tcx.def_span(did))),
                    ]));
                }
            }
        }

        let cfg = std::env::var("UFLOW_FACTS_CONFIG").unwrap_or_default();
        let doc = obj(vec![
            ("crate", esc(&cname)),
            ("config", esc(&cfg)),
            ("fns", arr(fns)),
            ("consts", arr(consts)),
            ("adts", arr(adts)),
            ("impls", arr(impls)),
            ("unsafe", arr(unsafe_items)),
        ]);
        // one write per process; crate types other than the lib (tests, examples) get a suffix
        let is_test = tcx.sess.opts.test;
        let path = if is_test { format!("{}.test", out_path) } else { out_path };
        std::fs::write(&path, doc).expect("write facts");
        rustc_driver::Compilation::Continue
    }
}

fn main() {
    let mut args: Vec<String> = std::env::args().collect();
    // RUSTC_WORKSPACE_WRAPPER: argv[1] is the path of the real rustc
    if args.len() > 1 && (args[1].ends_with("rustc") || args[1].contains("/rustc")) {
        args.remove(1);
    }
    let mut cb = Cb;
    rustc_driver::run_compiler(&args, &mut cb);
}
