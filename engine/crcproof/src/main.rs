// E2: CRC algebra over constants read from /repo's source (DESIGN.md §1.4).
//
//   crcproof <nbits> <256 table words in hex, comma separated> [census]
//
// (i)  derives the reflected generator P = T[0x80] ^ T[0] and checks that every table word
//      satisfies T[i] = L[i] ^ T[0], L = the byte table of P (so `crc' = (crc >> 8) ^ T[(crc ^ b) & 0xFF]`
//      is the standard reflected CRC step plus a constant, and the constant cancels between two
//      messages of equal length);
// (ii) enumerates x^i mod g for i < nbits and shows that no multiple of g of weight 1, 2, 3 or 4
//      has degree < nbits (by shift invariance the lowest term can be taken as x^0).
// Prints one JSON object.  Nothing of uflow is executed.
use std::collections::HashMap;

fn main() {
    let args: Vec<String> = std::env::args().collect();
    if args.len() < 3 {
        eprintln!("usage: crcproof <nbits> <table hex csv> [census]");
        std::process::exit(2);
    }
    let nbits: usize = args[1].parse().expect("nbits");
    let table: Vec<u32> = args[2]
        .split(',')
        .map(|w| u32::from_str_radix(w.trim_start_matches("0x"), 16).expect("hex word"))
        .collect();
    assert_eq!(table.len(), 256, "table must have 256 words");
    let census = args.len() > 3 && args[3] == "census";

    let k = table[0];
    let p = table[0x80] ^ k;
    let mut table_mismatch = 0usize;
    for i in 0..256u32 {
        let mut c = i;
        for _ in 0..8 {
            c = if c & 1 != 0 { (c >> 1) ^ p } else { c >> 1 };
        }
        if table[i as usize] ^ k != c {
            table_mismatch += 1;
        }
    }
    // generator in normal notation: reverse the 32 bits of p and prepend x^32
    let g_low = p.reverse_bits();
    let has_const_term = g_low & 1 != 0; // x^0 coefficient (needed for shift invariance)

    // r[i] = x^i mod g in reflected representation (bit 31 <-> x^0)
    let mut r: Vec<u32> = Vec::with_capacity(nbits);
    let mut cur: u32 = 0x8000_0000;
    for _ in 0..nbits {
        r.push(cur);
        cur = if cur & 1 != 0 { (cur >> 1) ^ p } else { cur >> 1 };
    }
    let mut probes: u64 = 0;
    // weight 1: x^i = 0 mod g never (r[i] != 0)
    let w1 = r.iter().filter(|&&v| v == 0).count();
    // weight 2: r[i] == r[j]
    let mut index: HashMap<u32, usize> = HashMap::with_capacity(nbits * 2);
    let mut w2 = 0usize;
    for (i, &v) in r.iter().enumerate() {
        probes += 1;
        if index.insert(v, i).is_some() {
            w2 += 1;
        }
    }
    // weight 3: 1 + x^j + x^k = 0  <=>  r[0] ^ r[j] == r[k], 0 < j < k
    let mut w3 = 0usize;
    for j in 1..nbits {
        probes += 1;
        if let Some(&kk) = index.get(&(r[0] ^ r[j])) {
            if kk != 0 && kk != j {
                w3 += 1;
            }
        }
    }
    // weight 4: 1 + x^j + x^k + x^l = 0  <=>  r[k] ^ r[l] in { r[0] ^ r[j] }
    let mut v0: HashMap<u32, usize> = HashMap::with_capacity(nbits * 2);
    for j in 1..nbits {
        v0.insert(r[0] ^ r[j], j);
    }
    let mut w4 = 0usize;
    for kx in 1..nbits {
        for l in (kx + 1)..nbits {
            probes += 1;
            if let Some(&j) = v0.get(&(r[kx] ^ r[l])) {
                if j != kx && j != l {
                    w4 += 1;
                }
            }
        }
    }
    let mut w5 = String::from("null");
    if census {
        // information only: weight-5 multiples with lowest term x^0 (count of (j,k | l,m) splits)
        let mut pairs: HashMap<u32, u32> = HashMap::new();
        let lim = nbits.min(4096);
        for a in 1..lim {
            for b in (a + 1)..lim {
                *pairs.entry(r[a] ^ r[b]).or_insert(0) += 1;
            }
        }
        let mut c5: u64 = 0;
        for a in 1..lim {
            for b in (a + 1)..lim {
                if let Some(&n) = pairs.get(&(r[0] ^ r[a] ^ r[b])) {
                    c5 += n as u64;
                }
            }
        }
        w5 = format!("{{\"window_bits\":{},\"split_count\":{}}}", lim, c5);
    }
    println!(
        "{{\"nbits\":{},\"affine_constant\":\"0x{:08X}\",\"reflected_poly\":\"0x{:08X}\",\"generator\":\"0x1{:08X}\",\"has_const_term\":{},\"table_mismatch\":{},\"weight1\":{},\"weight2\":{},\"weight3\":{},\"weight4\":{},\"probes\":{},\"weight5_census\":{}}}",
        nbits, k, p, g_low, has_const_term, table_mismatch, w1, w2, w3, w4, probes, w5
    );
}
