"""C05 — ideal network: every packet delivered, global order preserved (DESIGN.md §4 C05)."""
import re
from mirlib import show, Loc, dnf_holds
from rules import call_sites, call_locs
from loops import classify
from domain import BitWidth

SCOPE = ("Decides the order-preserving structure only: the send queue and the pending-fragment queue are used "
         "strictly first-in first-out (only push_back / front / pop_front / len / is_empty ever touch them); a "
         "packet takes next_id as its sequence id and next_id is bumped exactly once on the path that returns it; "
         "the fragments of a packet are queued in ascending fragment id; the receiver walks ids upward across all "
         "channels in one pass (shared with C01.e). Not decided: that every packet is delivered, TimeSensitive "
         "'delivered or dropped, nothing else', window reopening — behaviour over histories.")

FIFO_OK = {"VecDeque::push_back", "VecDeque::front", "VecDeque::pop_front", "VecDeque::len", "VecDeque::is_empty", "VecDeque::new"}


def fragment_enumeration(cx, inst):
    """every fragment id 0..=last_fragment_id of a freshly numbered packet is queued once, in ascending order
    (an inclusive range over the u16 id: an exclusive range over id+1 overflows at 65536 fragments)"""
    R = cx.R
    e = R.body("half_connection::HalfConnection::emit_data_frames")
    bw = BitWidth(R)
    ok = False
    for L in e.loops():
        info = classify(e, L, bw, cx.fa(e))
        if info.cls == "iterator" and "RangeInclusive" in info.desc:
            pb = [l for l in call_locs(e, "VecDeque::push_back", r"arg1\.pending_queue") if l.bb in L["body"]]
            for l in pb:
                s = show(e.call_expr(e.node_at(l)))
                inst.site(e, l, "pending_queue.push_back(fragment i)")
                ok = re.search(r"FragmentRef::new\(.*,RangeInclusive::next\(var\d+\)@Some\.0\)", s) is not None
            src = [show(e.call_expr(t)) for l, t in e.calls("RangeInclusive::new")]
            if src != ["RangeInclusive::new(0,PendingPacket::last_fragment_id(RefCell::borrow(PacketSender::emit_packet(arg1.packet_sender,arg4)@Some.0.0)))"]:
                inst.violation(e.path, "fragment range", "fragments are enumerated over %s, expected 0..=last_fragment_id" % src)
    if not ok:
        inst.violation(e.path, "fragment order", "the fragments of a packet are not appended to pending_queue in ascending fragment id")


def inst_send_queue_pops(cx, iid):
    R = cx.R
    with cx.instance(iid, "T3 WHO-MAY", "the send queue loses packets only through the stale-TimeSensitive drop and the move into the send window", floor=2) as inst:
        b = R.body("PacketSender::emit_packet")
        pops = call_sites(b, "VecDeque::pop_front", r"arg1\.packet_send_queue")
        for loc, lab in pops:
            inst.site(b, loc, lab)
        if len(pops) != 2:
            inst.violation(b.path, "pop_front count", "emit_packet pops the send queue at %d sites; expected the stale drop and the emission" % len(pops))
        for ob in R.all_bodies():
            if ob.path != b.path and ob.path.startswith("half_connection::") and call_sites(ob, "VecDeque::pop_front", r"\.packet_send_queue"):
                inst.violation(ob.path, "pop_front(packet_send_queue)", "packets are removed from the send queue outside emit_packet")
            for l, t in ob.calls():
                sn = R.short(t.get("fn") or "")
                if sn in ("VecDeque::clear", "VecDeque::drain", "VecDeque::truncate", "VecDeque::retain", "VecDeque::pop_back") and t["args"] and re.search(r"packet_send_queue|pending_queue", show(ob.operand_expr(t["args"][0]))):
                    inst.violation(ob.path, sn, "`%s` discards queued packets/fragments" % sn, at=ob.span_at(l))




def queue_discipline(cx, iid):
    R = cx.R
    with cx.instance(iid, "T3 WHO-MAY (queue discipline)", "packet_send_queue and pending_queue are touched only by push_back/front/pop_front/len/is_empty", floor=8, exact_floor=False) as inst:
        for b in R.all_bodies():
            if not b.path.startswith("half_connection::"):
                continue
            for loc, t in b.calls():
                fn = t.get("fn")
                if not fn or not t["args"]:
                    continue
                a0 = show(b.operand_expr(t["args"][0]))
                if re.fullmatch(r"arg1\.(packet_send_queue|pending_queue)", a0):
                    sn = R.short(fn)
                    inst.site(b, loc, "%s(%s)" % (sn, a0))
                    if sn not in FIFO_OK:
                        inst.violation(b.path, "%s(%s)" % (sn, a0.split(".")[-1]), "`%s` on %s breaks first-in first-out order" % (sn, a0.split(".")[-1]), at=b.span_at(loc))
            # taking a mutable reference to the queue for anything else
            for loc, s in b.assigns():
                if s["rv"]["k"] == "ref" and s["rv"].get("mut"):
                    ps = show(b.place_expr(s["rv"]["pl"]))
                    if re.fullmatch(r"arg1\.(packet_send_queue|pending_queue)", ps):
                        # every use of the reference (or of a plain copy of it, e.g. a parameter of an inlined helper)
                        # must be as the receiver of a FIFO operation
                        r = s["pl"]["l"] if not s["pl"]["p"] else None
                        bad_use = r is None
                        aliases = {r} if r is not None else set()
                        changed = True
                        while changed and not bad_use:
                            changed = False
                            for bb2 in b.reachable:
                                for st2 in b.stmts(bb2):
                                    if st2 is s or st2["k"] != "assign":
                                        continue
                                    rv2 = st2["rv"]
                                    uses = any(('"l": %d,' % a_) in __import__("json").dumps(rv2) for a_ in aliases)
                                    if not uses:
                                        continue
                                    plain = (rv2["k"] == "use" and rv2["op"]["k"] in ("copy", "move") and rv2["op"]["pl"]["l"] in aliases and all(p_ == "*" for p_ in rv2["op"]["pl"]["p"])) or \
                                            (rv2["k"] == "ref" and rv2["pl"]["l"] in aliases and all(p_ == "*" for p_ in rv2["pl"]["p"]))
                                    if plain and not st2["pl"]["p"]:
                                        if st2["pl"]["l"] not in aliases:
                                            aliases.add(st2["pl"]["l"])
                                            changed = True
                                    else:
                                        bad_use = True
                        for bb2 in b.reachable:
                            t2 = b.term(bb2)
                            if t2["k"] == "call":
                                for i, a in enumerate(t2["args"]):
                                    if a["k"] in ("copy", "move") and a["pl"]["l"] in aliases:
                                        if i != 0 or R.short(t2.get("fn") or "") not in FIFO_OK:
                                            bad_use = True
                        if bad_use:
                            inst.violation(b.path, "&mut " + ps.split(".")[-1], "the queue is borrowed mutably for something other than a FIFO operation", at=b.span_at(loc))
        for adt, fld in (("half_connection::packet_sender::PacketSender", "packet_send_queue"), ("half_connection::HalfConnection", "pending_queue")):
            a = R.adt(adt)
            ty = [f["ty"] for f in a["variants"][0]["fields"] if f["name"] == fld]
            if not ty or "VecDeque" not in ty[0]:
                inst.violation(adt, fld, "%s.%s is no longer a VecDeque (%s)" % (adt, fld, ty))


def run(cx):
    R = cx.R
    queue_discipline(cx, "C05.a")
    with cx.instance("C05.b", "T2 PAIR + T7", "sequence id = next_id, bumped exactly once per emitted packet; fragments queued in ascending id", floor=3) as inst:
        b = R.body("PacketSender::emit_packet")
        bumps = [(l, node) for l, node, ps in b.field_writes(r"arg1\.next_id")]
        inst.site(b, None, "next_id writes: %d" % len(bumps))
        if len(bumps) != 1:
            inst.violation(b.path, "next_id bump count", "emit_packet writes next_id %d times" % len(bumps))
        somes = [(loc, "return Some(packet)") for loc, kind, node in b.defs.get(0, []) if kind == "assign" and node["rv"]["k"] == "agg" and node["rv"].get("variant") == "Some"]
        cx.preceded_by(inst, b, somes, [l for l, _ in bumps], "packet returned without consuming an id", "next_id = add(next_id, 1)")
        for loc, t in b.calls("PendingPacket::new"):
            a = show(b.operand_expr(t["args"][2]))
            inst.site(b, loc, "PendingPacket::new(.., sequence_id=%s, ..)" % a)
            if a != "arg1.next_id":
                inst.violation(b.path, "sequence id", "a packet is numbered `%s`, expected the current next_id" % a, at=b.span_at(loc))
        fragment_enumeration(cx, inst)
    from props.C01 import inst_receive_walk
    inst_receive_walk(cx, "C05.c")
    # TimeSensitive packets are "delivered at their place or dropped by the sender, nothing else":
    # the only sender-side drop is the stale-TimeSensitive one (shared with C12.b)
    from props.C12 import drop_guard
    drop_guard(cx, "C05.d")
    # on an ideal network a packet can only go missing if the sender lets the receiver skip it
    # (resync while fragments await sending) or admits it beyond what the receiver will store
    from props.C02 import inst_resync_guard, inst_emit_guards
    inst_resync_guard(cx, "C05.f")
    inst_emit_guards(cx, "C05.g")
    from props.shared import pipeline_presence, dispatch_table, ack_processing_presence
    pipeline_presence(cx, "C05.h")
    dispatch_table(cx, "C05.i", only={"DataFrame", "SyncFrame", "AckFrame"})
    ack_processing_presence(cx, "C05.j")
    # allocation budgets that drift (charge != refund) end with the sender refusing every packet or the
    # receiver discarding them, on a loss-free link; raw id comparisons stall the stream at the wrap-around
    from props.C06 import inst_release, inst_sender_alloc_pair
    inst_sender_alloc_pair(cx, "C05.k")
    inst_release(cx, "C05.l")
    from props.idarith import id_arith_discipline
    id_arith_discipline(cx, "C05.m")
    from props.shared import emitter_no_abandon
    emitter_no_abandon(cx, "C05.n")
    # a header bit that spills into a neighbouring field makes the receiver refuse (or re-file) a packet that was
    # sent and received intact
    from bits import check_headers
    check_headers(cx, "C05.o", "C05.p")
    # on an ideal network a sender stalled on the packet window / receive allocation learns the receiver's new window
    # base only from the reply to its sync frame; and a not-yet-sent fragment that reads as acknowledged is dropped
    from props.C11 import sync_reply_mechanism
    sync_reply_mechanism(cx, "C05.v", "C05.w")
    from props.C04 import inst_fragment_flags
    inst_fragment_flags(cx, "C05.x")
    # every packet is delivered: a ready bit cleared for the wrong channel leaves that channel's packets undelivered
    from props.shared import receiver_flag_addressing
    receiver_flag_addressing(cx, "C05.y")
    # on an ideal link nothing is discarded for lack of receive memory only if each receiver is limited by the value its
    # own side advertised (asymmetric configurations)
    from props.C07 import inst_config_mirror
    inst_config_mirror(cx, "C05.z")
    # the flush credit is refilled with the time that really passed (a clock difference cut to whole milliseconds starves
    # an endpoint that steps more often than that, on an ideal link)
    from props.C13 import inst_credit_refill
    inst_credit_refill(cx, "C05.A")
    # both ends round the allocation limit alike; the per-frame datagram count fits its 7-bit wire field
    from props.C06 import inst_sibling_accounting
    inst_sibling_accounting(cx, "C05.q")
    from props.C01 import inst_id_arith
    inst_id_arith(cx, "C05.r")
    # every packet is delivered only if the window walks clear exactly the slots the window passed: clearing the slot
    # at the new base discards a partially reassembled packet whose earlier fragments were already acknowledged
    from props.shared import window_walks
    window_walks(cx, "C05.s")
    from props.shared import resync_walk, sync_refusal_exact
    resync_walk(cx, "C05.t")
    sync_refusal_exact(cx, "C05.u")
    inst_send_queue_pops(cx, "C05.e")
SELFTEST = [
    {"name": "data emitter gives up for lack of credit without finalising the frame in progress",
     "edits": [{"file": "src/half_connection/emit.rs", "old": "                // Out of bandwidth\n                self.finalize();\n                self.frame_queue.mark_rate_limited();", "new": "                // Out of bandwidth\n                self.frame_queue.mark_rate_limited();"}],
     "expect": ["C05.n"]},
    {"name": "emit_data_frames forgets the final finalize",
     "edits": [{"file": "src/half_connection/mod.rs", "old": "        dfe.finalize();\n", "new": ""}],
     "expect": ["C05.n"]},
    {"name": "data emitter starts a new frame over a full one without finalising it",
     "edits": [{"file": "src/half_connection/emit.rs", "old": "                // Would exceed maximum\n                self.finalize();\n            } else {\n                next_frame.fbuilder.add(&datagram);", "new": "                // Would exceed maximum\n            } else {\n                next_frame.fbuilder.add(&datagram);"}],
     "expect": ["C05.n"]},
    {"name": "sender refunds the payload size instead of the charged allocation",
     "edits": [{"file": "src/half_connection/packet_sender.rs", "old": "            self.alloc -= entry.alloc_size;", "new": "            self.alloc -= entry.packet.borrow().size();"}],
     "expect": ["C05.k"]},
    {"name": "frame window test without modular arithmetic",
     "edits": [{"file": "src/half_connection/frame_queue.rs", "old": "self.next_id().wrapping_sub(self.window.base_id) < self.window.size", "new": "self.next_id() < self.window.base_id.wrapping_add(self.window.size)"}],
     "expect": ["C05.m"]},
    {"name": "push_front instead of push_back when queueing fragments",
     "edits": [{"file": "src/half_connection/mod.rs", "old": "self.pending_queue.push_back(entry);", "new": "self.pending_queue.push_front(entry);"}],
     "expect": ["C05.a"]},
]
