#!/usr/bin/env python3
"""Regression corpus of behaviour-preserving refactorings (benign/<id>/patch.diff, written by sub-agents told to
preserve behaviour exactly, each reviewed): every registered check must stay silent on each of them.
Works on scratch copies of /repo under /tmp (removed afterwards), several patches in parallel.
usage: benign.py [ids...] [--props C01,C02]"""
import glob, json, os, re, shutil, subprocess, sys, tempfile
from concurrent.futures import ThreadPoolExecutor
VERIF = os.path.dirname(os.path.dirname(os.path.abspath(__file__)))
args = [a for a in sys.argv[1:] if not a.startswith("--")]
props = sorted(f[:-3] for f in os.listdir(os.path.join(VERIF, "props")) if re.fullmatch(r"C\d+\.py", f))
for a in sys.argv[1:]:
    if a.startswith("--props"):
        props = a.split("=", 1)[1].split(",")
ids = args or sorted(os.listdir(os.path.join(VERIF, "benign")))


def one(bid):
    patch = bid if os.path.isfile(bid) else os.path.join(VERIF, "benign", bid, "patch.diff")
    tmp = tempfile.mkdtemp(prefix="uflow-benign-")
    try:
        dst = os.path.join(tmp, "repo")
        shutil.copytree("/repo", dst, ignore=shutil.ignore_patterns("target", ".git"))
        p = subprocess.run(["git", "apply", "--whitespace=nowarn", patch], cwd=dst, stdout=subprocess.PIPE, stderr=subprocess.STDOUT, text=True)
        if p.returncode != 0:
            return bid, {"error": p.stdout[-200:]}
        fired = {}
        env = dict(os.environ, VERIF_EVIDENCE_DIR=os.path.join(tmp, "ev"), VERIF_REPLAY_DIR=os.path.join(tmp, "rp"))
        for pr in props:
            r = subprocess.run([os.path.join(VERIF, "check"), pr, "quick", "--src", dst, "--target-dir", os.path.join(tmp, "tgt")], stdout=subprocess.PIPE, stderr=subprocess.STDOUT, text=True, env=env)
            if r.returncode != 0:
                insts = re.findall(r"rule .* instance (\S+) in (\S+)", r.stdout)
                fired[pr] = sorted({"%s @ %s" % (i, f.split("::")[-1]) for i, f in insts}) or ["(exit %d) %s" % (r.returncode, r.stdout[-300:])]
        return bid, fired
    finally:
        shutil.rmtree(tmp, ignore_errors=True)


bad = 0
with ThreadPoolExecutor(max_workers=6) as ex:
    for bid, fired in ex.map(one, ids):
        lim = os.path.exists(os.path.join(VERIF, "benign", bid, "LIMITATION.md"))
        if lim and fired:
            print(bid, "known limitation (see LIMITATION.md): %s" % sorted(fired), flush=True)
            continue
        print(bid, "silent" if not fired else "FIRES %s" % fired, flush=True)
        bad += bool(fired)
print("patches with firings: %d of %d" % (bad, len(ids)))
sys.exit(1 if bad else 0)
