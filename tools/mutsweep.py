#!/usr/bin/env python3
"""Mechanical mutation sweep used to look for blind spots of the checks (not a registered check).

For every non-test source line of /repo/src applies simple operators (relational flips, && <-> ||,
true <-> false, min <-> max, +1/-1 tweaks, statement deletion), keeps mutants that still compile
and pass the crate's unit tests (`cargo test --lib`), and records which property checks fire on
them (`./check <ID> quick --src <copy>`).  Survivors that no check flags are listed for manual
triage: most are equivalent or harmless, the rest are gaps.  Scratch copies live under /tmp and
are removed.
usage: mutsweep.py <out.json> [--files f1,f2] [--jobs N] [--max N]
"""
import json, os, re, shutil, subprocess, sys, tempfile
from concurrent.futures import ThreadPoolExecutor

VERIF = os.path.dirname(os.path.dirname(os.path.abspath(__file__)))
OPS = [
    (r"<=", "<"), (r"(?<![<>=!-])<(?![<=])", "<="), (r">=", ">"), (r"(?<![<>=-])>(?![>=])", ">="),
    (r"==", "!="), (r"!=", "=="), (r"&&", "||"), (r"\|\|", "&&"),
    (r"\btrue\b", "false"), (r"\bfalse\b", "true"), (r"\.min\(", ".max("), (r"\.max\(", ".min("),
    (r"\+ 1\b", "+ 2"), (r"- 1\b", "- 0"), (r"\+ 1\b", "+ 0"),
]


OPS2 = [
    (r" \+ (?!=)", " - "), (r" - (?!=)", " + "), (r" \* (?!=)", " / "), (r" / (?!=|/)", " * "),
    (r" & (?!mut|self|=)", " | "), (r" \| (?!=)", " & "), (r"<<", ">>"), (r">>(?!=)", "<<"),
    (r"wrapping_sub", "wrapping_add"), (r"wrapping_add", "wrapping_sub"), (r"saturating_sub", "wrapping_sub"),
    (r"\bbreak\b", "continue"), (r"\bcontinue\b", "break"),
    (r"\b(\d+)\b(?!\.|_|\w)", lambda m: str(int(m.group(1)) + 1)), (r"\b([1-9]\d*)\b(?!\.|_|\w)", lambda m: str(int(m.group(1)) - 1)),
    (r"!(?=[a-z(])(?!=)", ""), (r"\bif (?=[a-z])(?!let)", "if !"),
    (r"\.is_some\(\)", ".is_none()"), (r"\.is_none\(\)", ".is_some()"), (r"\.is_empty\(\)", ".len() == 1"),
    (r"\bas u32\b", "as u16 as u32"), (r"\bas usize\b", "as u8 as usize"),
    (r"\.push_back\(", ".push_front("), (r"\.pop_front\(", ".pop_back("), (r"\.front\(\)", ".back()"),
    (r"\bu32::MAX\b", "u16::MAX as u32"), (r"\bSome\(([a-z_\.]+)\)(?= *[;,)]| *$)", "None"),
]
if os.environ.get("MUT_OPS2"):
    OPS = OPS2


def mutants_of(path, text):
    lines = text.split("\n")
    cut = len(lines)
    for i, l in enumerate(lines):
        if l.strip().startswith("#[cfg(test)]") and i + 1 < len(lines) and re.match(r"\s*(pub )?mod \w+ \{", lines[i + 1]):
            cut = i
            break
    out = []
    for i in range(cut):
        l = lines[i]
        st = l.strip()
        if not st or st.startswith("//") or st.startswith("debug_assert") or st.startswith("use ") or st.startswith("#") or st.startswith("///"):
            continue
        if "<" in l and ("Vec<" in l or "Option<" in l or "Box<" in l or "impl<" in l or "fn " in l or "->" in l or "::<" in l or "&'" in l or "Rc<" in l):
            rel_ok = False
        else:
            rel_ok = True
        for rx, rep in OPS:
            if rx in (r"<=", r"(?<![<>=!-])<(?![<=])", r">=", r"(?<![<>=-])>(?![>=])") and not rel_ok:
                continue
            for m in re.finditer(rx, l):
                if "//" in l[:m.start()]:
                    continue
                nl = l[:m.start()] + (rep(m) if callable(rep) else rep) + l[m.end():]
                out.append((i, "%s -> %s" % (m.group(0), rep(m) if callable(rep) else rep), nl))
        # statement deletion
        if not os.environ.get("MUT_OPS2") and st.endswith(";") and not st.startswith("let ") and not st.startswith("return") and not st.startswith("pub ") and not st.startswith("const ") and not st.startswith("static ") and "=>" not in st and not st.startswith("}"):
            if re.match(r"(self\.|[a-z_]+\.|\*?[a-z_\.]+ (\+|-|\||&|\^)?= )", st):
                out.append((i, "delete statement", re.match(r"\s*", l).group(0) + ";"))
    return [(path, i, what, nl) for i, what, nl in out]


def worker(wid, jobs, out):
    tmp = tempfile.mkdtemp(prefix="uflow-ms-%d-" % wid)
    copy = os.path.join(tmp, "repo")
    shutil.copytree("/repo", copy, ignore=shutil.ignore_patterns("target", ".git"))
    env = dict(os.environ, CARGO_TARGET_DIR=os.path.join(tmp, "tgt"), CARGO_NET_OFFLINE="true", RUSTFLAGS="-Awarnings")
    env["VERIF_EVIDENCE_DIR"] = os.path.join(tmp, "ev")
    env["VERIF_REPLAY_DIR"] = os.path.join(tmp, "rp")
    props = sorted(f[:-3] for f in os.listdir(os.path.join(VERIF, "props")) if re.fullmatch(r"C\d+\.py", f))
    try:
        for (path, i, what, nl) in jobs:
            fp = os.path.join(copy, path)
            orig = open(fp).read()
            lines = orig.split("\n")
            old = lines[i]
            lines[i] = nl
            open(fp, "w").write("\n".join(lines))
            rec = {"file": path, "line": i + 1, "op": what, "old": old.strip(), "new": nl.strip()}
            try:
                pp = subprocess.Popen(["cargo", "test", "--offline", "--lib", "-q"], cwd=copy, env=env, stdout=subprocess.PIPE, stderr=subprocess.STDOUT, text=True, start_new_session=True)
                try:
                    pp.communicate(timeout=240)
                except subprocess.TimeoutExpired:
                    import signal
                    os.killpg(pp.pid, signal.SIGKILL)
                    pp.communicate()
                    raise
                p = pp
                if p.returncode != 0:
                    rec["status"] = "killed-by-build-or-unit-tests"
                else:
                    fired = []
                    for pr in props:
                        q = subprocess.run([os.path.join(VERIF, "check"), pr, "quick", "--src", copy, "--target-dir", os.path.join(tmp, "xt")], cwd=VERIF, env=env, stdout=subprocess.PIPE, stderr=subprocess.STDOUT, text=True, timeout=300)
                        if q.returncode != 0:
                            insts = sorted(set(re.findall(r"instance (\S+) in", q.stdout)))
                            fired.append("%s[%s]" % (pr, ",".join(insts)))
                    rec["status"] = "survived-tests"
                    rec["fired"] = fired
            except subprocess.TimeoutExpired:
                rec["status"] = "timeout (hang)"
            out.append(rec)
            with open(os.environ.get("MUT_PARTIAL", "/dev/null"), "a") as pf:
                pf.write(json.dumps(rec) + "\n")
            open(fp, "w").write(orig)
    finally:
        shutil.rmtree(tmp, ignore_errors=True)


def main():
    outp = sys.argv[1]
    files = None
    jobs = 14
    mx = None
    a = sys.argv[2:]
    while a:
        if a[0] == "--files":
            files = a[1].split(","); a = a[2:]
        elif a[0] == "--jobs":
            jobs = int(a[1]); a = a[2:]
        elif a[0] == "--max":
            mx = int(a[1]); a = a[2:]
        else:
            a = a[1:]
    ms = []
    retest = None
    if "--retest" in sys.argv:
        retest = json.load(open(sys.argv[sys.argv.index("--retest") + 1]))
        for r in retest:
            if r["status"] == "survived-tests" and not r.get("fired"):
                lines = open(os.path.join("/repo", r["file"])).read().split("\n")
                i = r["line"] - 1
                ind = re.match(r"\s*", lines[i]).group(0)
                ms.append((r["file"], i, r["op"], ind + r["new"]))
    for dp, dn, fn in ([] if retest is not None else os.walk("/repo/src")):
        for f in sorted(fn):
            if f.endswith(".rs"):
                rel = os.path.relpath(os.path.join(dp, f), "/repo")
                if files and not any(rel.endswith(x) for x in files):
                    continue
                ms.extend(mutants_of(rel, open(os.path.join(dp, f)).read()))
    if mx:
        import random
        random.Random(int(os.environ.get("VERIF_SEED", "0") or 0)).shuffle(ms)
        ms = ms[:mx]
    print("mutants:", len(ms), file=sys.stderr)
    out = []
    chunks = [ms[i::jobs] for i in range(jobs)]
    with ThreadPoolExecutor(max_workers=jobs) as ex:
        list(ex.map(lambda x: worker(x[0], x[1], out), enumerate(chunks)))
    json.dump(out, open(outp, "w"), indent=1)
    surv = [r for r in out if r["status"] == "survived-tests"]
    und = [r for r in surv if not r["fired"]]
    print("total %d, survived unit tests %d, flagged by a check %d, unflagged %d" % (len(out), len(surv), len(surv) - len(und), len(und)))


if __name__ == "__main__":
    main()
