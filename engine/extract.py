"""E0 harness: run the rustc_private fact extractor over a source tree and load the facts.

The extractor is injected as RUSTC_WORKSPACE_WRAPPER under `cargo +nightly check --offline --lib`
run in the tree itself (default /repo).  Two configurations:
  R: -C debug-assertions=off -C overflow-checks=off   (guards that exist only as debug_assert!
                                                        can never satisfy a rule)
  D: default dev profile (what `cargo test` builds)    (panic inventory, stated-belief rule)
Facts are cached under /verif/.cache keyed by the content hash of the tree's build inputs and of
the driver binary, which is equivalent to rebuilding from the working tree.  Fail closed: if the
fact file is not (re)written by the run, extraction raises.
"""
import hashlib
import json
import os
import shutil
import subprocess
import sys
import time

VERIF = os.path.dirname(os.path.dirname(os.path.abspath(__file__)))
CACHE = os.path.join(VERIF, ".cache")
DRIVER = os.path.join(VERIF, "engine", "driver", "target", "release", "uflow-facts-driver")

CONFIGS = {
    "R": "-Zmir-opt-level=0 -Awarnings -C debug-assertions=off -C overflow-checks=off",
    "D": "-Zmir-opt-level=0 -Awarnings",
}


class ExtractError(Exception):
    pass


def _sysroot():
    return subprocess.check_output(["rustc", "+nightly", "--print", "sysroot"], text=True).strip()


def tree_hash(src):
    h = hashlib.sha256()
    roots = ["src", "Cargo.toml", "Cargo.lock", "build.rs", ".cargo", "examples"]
    for r in roots:
        p = os.path.join(src, r)
        if os.path.isfile(p):
            h.update(r.encode())
            h.update(open(p, "rb").read())
        elif os.path.isdir(p):
            for dp, dn, fn in sorted(os.walk(p)):
                dn.sort()
                for f in sorted(fn):
                    fp = os.path.join(dp, f)
                    h.update(os.path.relpath(fp, src).encode())
                    h.update(open(fp, "rb").read())
    if os.path.exists(DRIVER):
        h.update(open(DRIVER, "rb").read())
    else:
        raise ExtractError("driver binary missing: run MANIFEST.setup_cmd (%s)" % DRIVER)
    return h.hexdigest()[:24]


def extract(src="/repo", config="R", target_dir=None, use_cache=True, quiet=True, crate="uflow"):
    """Returns (facts_dict, meta)."""
    if config not in CONFIGS:
        raise ExtractError("unknown config " + config)
    th = tree_hash(src)
    os.makedirs(os.path.join(CACHE, "facts"), exist_ok=True)
    out = os.path.join(CACHE, "facts", "%s-%s-%s.json" % (th, config, crate) if crate != "uflow" else "%s-%s.json" % (th, config))
    meta = {"config": config, "tree_hash": th, "src": src, "cached": False}
    def _cached():
        if use_cache and os.path.exists(out):
            try:
                facts = json.load(open(out))
                meta["cached"] = True
                meta["facts_file"] = out
                return facts
            except Exception:
                try:
                    os.unlink(out)
                except OSError:
                    pass
        return None

    facts = _cached()
    if facts is not None:
        return facts, meta
    tdir = target_dir or os.path.join(CACHE, "tgt-" + config)
    os.makedirs(tdir, exist_ok=True)
    # one extraction at a time per target directory: concurrent checks (parallel runs of ./check on an
    # uncached tree) would otherwise race on cargo's fingerprints and one of them would find the driver
    # skipped.  After waiting, the other process may already have produced the facts for this tree.
    import fcntl
    lockf = open(os.path.join(tdir, ".uflow-facts.lock"), "w")
    fcntl.flock(lockf, fcntl.LOCK_EX)
    try:
        facts = _cached()
        if facts is not None:
            return facts, meta
        return _extract_locked(src, config, crate, tdir, out, meta)
    finally:
        fcntl.flock(lockf, fcntl.LOCK_UN)
        lockf.close()


def _extract_locked(src, config, crate, tdir, out, meta):
    # cargo silently skips the wrapper on a warm target dir: drop the member's fingerprints
    fpd = os.path.join(tdir, "debug", ".fingerprint")
    if os.path.isdir(fpd):
        for d in os.listdir(fpd):
            if d.startswith(crate.replace("_", "-") + "-") or d.startswith(crate + "-"):
                shutil.rmtree(os.path.join(fpd, d), ignore_errors=True)
    import uuid
    tmp_out = out + ".tmp.%d.%s" % (os.getpid(), uuid.uuid4().hex[:8])
    if os.path.exists(tmp_out):
        os.unlink(tmp_out)
    env = dict(os.environ)
    env.update(
        {
            "LD_LIBRARY_PATH": _sysroot() + "/lib",
            "RUSTFLAGS": CONFIGS[config],
            "RUSTC_WORKSPACE_WRAPPER": DRIVER,
            "UFLOW_FACTS_OUT": tmp_out,
            "UFLOW_FACTS_CONFIG": config,
            "UFLOW_FACTS_CRATE": crate,
            "CARGO_TARGET_DIR": tdir,
            "CARGO_NET_OFFLINE": "true",
        }
    )
    env.pop("RUSTC_WRAPPER", None)
    t0 = time.time()
    p = subprocess.run(
        ["cargo", "+nightly", "check", "--offline", "--lib"],
        cwd=src,
        env=env,
        stdout=subprocess.PIPE,
        stderr=subprocess.STDOUT,
        text=True,
    )
    meta["extract_s"] = round(time.time() - t0, 2)
    if p.returncode != 0:
        raise ExtractError("cargo check failed in %s (config %s):\n%s" % (src, config, p.stdout[-4000:]))
    if not os.path.exists(tmp_out):
        raise ExtractError("fact file was not written (driver skipped?) for %s config %s\n%s" % (src, config, p.stdout[-2000:]))
    facts = json.load(open(tmp_out))
    if facts.get("config") != config or facts.get("crate") != crate:
        raise ExtractError("fact file has wrong header")
    os.replace(tmp_out, out)
    meta["facts_file"] = out
    # keep the cache small: drop fact files older than the newest 40
    try:
        fs = sorted(
            (os.path.join(CACHE, "facts", f) for f in os.listdir(os.path.join(CACHE, "facts"))),
            key=os.path.getmtime,
        )
        for f in fs[:-40]:
            os.unlink(f)
    except OSError:
        pass
    return facts, meta


if __name__ == "__main__":
    src = sys.argv[1] if len(sys.argv) > 1 else "/repo"
    for c in ("R", "D"):
        f, m = extract(src, c, use_cache=False)
        print(c, m, len(f["fns"]), "bodies")
