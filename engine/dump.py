"""debug aid: print the normalised view of one function (not used by any check)"""
import sys, os
sys.path.insert(0, os.path.dirname(os.path.abspath(__file__)))
from extract import extract
from mirlib import *

def dump(facts, pat, show_facts=True):
    b = facts.body(pat)
    fa = FactsAnalysis(b)
    show_facts = os.environ.get("FACTS") == "1"
    print("==", b.path, "argc", b.argc, "blocks", b.n)
    for bb in sorted(b.reachable):
        hdr = "bb%d" % bb
        if show_facts:
            st = fa.in_state.get(bb)
            hdr += "  facts: " + " | ".join("{" + ", ".join(sorted(a)) + "}" for a in (st or []))
        print(hdr)
        for i, s in enumerate(b.stmts(bb)):
            if s["k"] == "assign":
                pl = s["pl"]
                if not pl["p"] and b.is_single_def(pl["l"]):
                    continue
                print("    [%d] %s = %s    @%s" % (i, show(b.place_expr(pl)) if pl["p"] else "var%d" % pl["l"], show(b.rvalue_expr(s["rv"])), sp_str(s["sp"])))
            else:
                print("    [%d] %s" % (i, s["k"]))
        t = b.term(bb)
        if t["k"] == "call":
            d = t["dest"]
            ds = show(b.place_expr(d)) if d["p"] or not b.is_single_def(d["l"]) else "_%d" % d["l"]
            print("    call %s = %s -> bb%s   @%s" % (ds, show(b.call_expr(t)) if t.get("fn") else "indirect", t.get("target"), sp_str(t["sp"])))
        elif t["k"] == "switch":
            print("    switch %s :" % show(b.operand_expr(t["op"])), "  ".join("%s->bb%d %s" % (lab[1], y, (fa.edge_lits.get((bb, y, lab[1])) if fa else "")) for y, lab in b.succ[bb]))
        elif t["k"] == "assert":
            print("    assert %s %s -> bb%s" % (t["msg"], show(b.operand_expr(t["cond"])), t["target"]))
        elif t["k"] == "drop":
            print("    drop %s -> bb%s" % (show(b.place_expr(t["pl"])), t["target"]))
        else:
            print("    %s %s" % (t["k"], t.get("target", "")))

if __name__ == "__main__":
    cfg = os.environ.get("CFG", "R")
    data, meta = extract(os.environ.get("SRC", "/repo"), cfg)
    f = Facts(data)
    for pat in sys.argv[1:]:
        dump(f, pat)
