"""C07 — connections exist only after a nonce-validated 3-way handshake (DESIGN.md §4 C07)."""
import re
from mirlib import show, Loc, dnf_holds
from rules import call_sites, call_locs, agg_sites, event_pushes, rx_comm

SCOPE = ("Decides, on every path of the handshake handlers of both endpoints: promotion to Active, the Connect "
         "event and the active-list insertion require the Pending state and equality of the frame's nonce_ack with "
         "the stored local nonce; the nonces are single rand::random::<u32>() values that flow into both the frame "
         "and the stored state and are echoed in the right direction; an existing table entry is never replaced; "
         "each refusal reply is built exactly on its refusing edge and the SYN-ACK only under the negation of all of "
         "them; the client maps wire errors one-to-one; the half-connection configurations built by client and "
         "server are mirror images (base ids from own/peer nonce, packet bases masked, same window constants, "
         "ceiling = min(own max_send_rate, peer max_receive_rate), tx_alloc_limit = peer max_receive_alloc). "
         "Not decided: behaviour under loss/duplication of handshake frames over time.")

SYN = "server::Server::handle_handshake_syn"
ACK = "server::Server::handle_handshake_ack"
CSA = "client::Client::handle_handshake_syn_ack"
CHE = "client::Client::handle_handshake_error"


def eq_rx(a, b):
    return r"(?:eq\(%s,%s\)|eq\(%s,%s\))" % (a, b, b, a)


def config_literal(b):
    for loc, s in b.assigns():
        rv = s["rv"]
        if rv["k"] == "agg" and rv.get("adt", "").endswith("half_connection::Config"):
            return loc, {n: show(b.operand_expr(o)) for n, o in zip(rv["fields"], rv["ops"])}
    return None, None


def inst_config_mirror(cx, iid):
    R = cx.R
    with cx.instance(iid, "T4 SIBLING (mirror table)", "the half_connection::Config built by client and server are mirror images", floor=2) as inst:
        lc, c = config_literal(R.body(CSA))
        ls, s = config_literal(R.body(ACK))
        if not c or not s:
            inst.violation("<crate>", "half_connection::Config", "Config literal not found in both handshake handlers (anchor)")
        else:
            inst.site(R.body(CSA), lc, "client Config", c)
            inst.site(R.body(ACK), ls, "server Config", s)
            st = r"[\w:.@\[\](),]*\.state@Pending\.0"
            exp_c = {
                "tx_frame_base_id": r"arg1\.state@Pending\.0\.local_nonce", "rx_frame_base_id": r"arg2\.nonce",
                "tx_packet_base_id": rx_comm("bitand", r"arg1\.state@Pending\.0\.local_nonce", r"packet_id::MASK"),
                "rx_packet_base_id": rx_comm("bitand", r"arg2\.nonce", r"packet_id::MASK"),
                "tx_bandwidth_limit": rx_comm("Ord::min", r"""(?:cast<u32>\(Ord::min\((?:arg1\.config\.endpoint_config\.max_send_rate,cast<usize>\(core::num::<impl u32>::MAX\)|cast<usize>\(core::num::<impl u32>::MAX\),arg1\.config\.endpoint_config\.max_send_rate)\)\)|Result::unwrap_or\((?:u32::try_from|TryFrom::try_from|TryInto::try_into)\(arg1\.config\.endpoint_config\.max_send_rate\),core::num::<impl u32>::MAX\))""", r"arg2\.max_receive_rate"),
                "tx_alloc_limit": r"cast<usize>\(arg2\.max_receive_alloc\)", "rx_alloc_limit": r"arg1\.config\.endpoint_config\.max_receive_alloc",
                "tx_frame_window_size": "MAX_FRAME_WINDOW_SIZE", "rx_frame_window_size": "MAX_FRAME_WINDOW_SIZE",
                "tx_packet_window_size": "MAX_PACKET_WINDOW_SIZE", "rx_packet_window_size": "MAX_PACKET_WINDOW_SIZE",
            }
            exp_s = {
                "tx_frame_base_id": st + r"\.local_nonce", "rx_frame_base_id": st + r"\.remote_nonce",
                "tx_packet_base_id": rx_comm("bitand", st + r"\.local_nonce", r"packet_id::MASK"),
                "rx_packet_base_id": rx_comm("bitand", st + r"\.remote_nonce", r"packet_id::MASK"),
                "tx_bandwidth_limit": rx_comm("Ord::min", r"""(?:cast<u32>\(Ord::min\((?:arg1\.config\.endpoint_config\.max_send_rate,cast<usize>\(core::num::<impl u32>::MAX\)|cast<usize>\(core::num::<impl u32>::MAX\),arg1\.config\.endpoint_config\.max_send_rate)\)\)|Result::unwrap_or\((?:u32::try_from|TryFrom::try_from|TryInto::try_into)\(arg1\.config\.endpoint_config\.max_send_rate\),core::num::<impl u32>::MAX\))""", st + r"\.remote_max_receive_rate"),
                "tx_alloc_limit": r"cast<usize>\(" + st + r"\.remote_max_receive_alloc\)", "rx_alloc_limit": r"arg1\.config\.endpoint_config\.max_receive_alloc",
                "tx_frame_window_size": "MAX_FRAME_WINDOW_SIZE", "rx_frame_window_size": "MAX_FRAME_WINDOW_SIZE",
                "tx_packet_window_size": "MAX_PACKET_WINDOW_SIZE", "rx_packet_window_size": "MAX_PACKET_WINDOW_SIZE",
            }
            for side, got, exp, body in (("client", c, exp_c, R.body(CSA)), ("server", s, exp_s, R.body(ACK))):
                for k, rx in exp.items():
                    if not re.fullmatch(rx, got.get(k, "")):
                        inst.violation(body.path, "Config." + k, "%s builds %s = `%s`; the mirror-image table requires %s" % (side, k, got.get(k), rx))
            # the server's stored remote_* are the SYN's fields (so the two tables really mirror each other)
            b = R.body(SYN)
            for loc, s2 in b.assigns():
                rv = s2["rv"]
                if rv["k"] == "agg" and rv.get("adt", "").endswith("PendingState"):
                    f = {n: show(b.operand_expr(o)) for n, o in zip(rv["fields"], rv["ops"])}
                    if f.get("remote_max_receive_rate") != "arg3.max_receive_rate" or f.get("remote_max_receive_alloc") != "arg3.max_receive_alloc":
                        inst.violation(b.path, "PendingState.remote_*", "server stores peer limits %s / %s, not the SYN's fields" % (f.get("remote_max_receive_rate"), f.get("remote_max_receive_alloc")), at=b.span_at(loc))
            hn = R.body("half_connection::HalfConnection::new")
            txt = " ".join(show(hn.call_expr(t)) for l, t in hn.calls())
            for need_ in ("PacketSender::new(arg1.tx_packet_window_size,arg1.tx_packet_base_id,arg1.tx_alloc_limit)", "PacketReceiver::new(arg1.rx_packet_window_size,arg1.rx_packet_base_id,arg1.rx_alloc_limit)",
                          "FrameQueue::new(arg1.tx_frame_window_size,arg1.tx_frame_window_size,arg1.tx_frame_base_id)", "FrameAckQueue::new(arg1.rx_frame_window_size,arg1.rx_frame_base_id)"):
                inst.site(hn, None, need_.split("(")[0])
                if need_ not in txt:
                    inst.violation(hn.path, need_.split("(")[0], "HalfConnection::new does not wire %s to the matching Config fields" % need_.split("(")[0])




def inst_promotion_guard(cx, iid):
    R = cx.R
    with cx.instance(iid, "T1 GUARD", "server: State::Active, Connect and active_clients.push require Pending and nonce_ack == local_nonce", floor=3) as inst:
        b = R.body(ACK)
        sinks = agg_sites(b, r"State::Active") + event_pushes(b, r"Event::Connect") + call_sites(b, "Vec::push", r"arg1\.active_clients")
        if len(sinks) < 3:
            inst.violation(b.path, "promotion sites", "expected State::Active construction, Connect push and active_clients.push (anchor)")
        st = r"[\w:.@\[\](),]*\.state"
        cx.guard(inst, b, sinks, [[r"is\(%s,Pending\)" % st, eq_rx(st + r"@Pending\.0\.local_nonce", r"arg3\.nonce_ack")]],
                 why="a connection may be established only for the address that returned the server's nonce", checked_before=True)


def run(cx):
    R = cx.R
    inst_promotion_guard(cx, "C07.a")
    with cx.instance("C07.b", "T7 SHAPE (nonce provenance)", "one random nonce per handshake flows into both the frame and the stored state; echoes go in the right direction", floor=6) as inst:
        b = R.body(SYN)
        rs = call_sites(b, "rand::random")
        inst.site(b, None, "server rand::random calls: %d" % len(rs))
        if len(rs) != 1 or "u32" not in str(b.node_at(rs[0][0]).get("gargs")):
            inst.violation(b.path, "rand::random", "expected exactly one rand::random::<u32>() for the server nonce")
        for loc, s in b.assigns():
            rv = s["rv"]
            if rv["k"] == "agg" and rv.get("adt", "").endswith("PendingState"):
                f = {n: show(b.operand_expr(o)) for n, o in zip(rv["fields"], rv["ops"])}
                inst.site(b, loc, "PendingState{local_nonce: %s, remote_nonce: %s}" % (f["local_nonce"], f["remote_nonce"]))
                if f["local_nonce"] != "rand::random()" or f["remote_nonce"] != "arg3.nonce":
                    inst.violation(b.path, "server PendingState nonces", "server stores local_nonce=%s remote_nonce=%s" % (f["local_nonce"], f["remote_nonce"]), at=b.span_at(loc))
            if rv["k"] == "agg" and rv.get("adt", "").endswith("HandshakeSynAckFrame"):
                f = {n: show(b.operand_expr(o)) for n, o in zip(rv["fields"], rv["ops"])}
                inst.site(b, loc, "SynAck{nonce_ack: %s, nonce: %s}" % (f["nonce_ack"], f["nonce"]))
                if f["nonce_ack"] != "arg3.nonce" or f["nonce"] != "rand::random()":
                    inst.violation(b.path, "SYN-ACK nonces", "SYN-ACK carries nonce_ack=%s nonce=%s" % (f["nonce_ack"], f["nonce"]), at=b.span_at(loc))
        c = R.body("client::Client::connect")
        rs = call_sites(c, "rand::random")
        if len(rs) != 1:
            inst.violation(c.path, "rand::random", "expected exactly one rand::random() for the client nonce")
        for loc, s in c.assigns():
            rv = s["rv"]
            if rv["k"] == "agg" and rv.get("adt", "").endswith("HandshakeSynFrame"):
                f = {n: show(c.operand_expr(o)) for n, o in zip(rv["fields"], rv["ops"])}
                inst.site(c, loc, "Syn{nonce: %s, version: %s}" % (f["nonce"], f["version"]))
                if f["nonce"] != "rand::random()" or f["version"] != "PROTOCOL_VERSION":
                    inst.violation(c.path, "SYN fields", "SYN carries nonce=%s version=%s" % (f["nonce"], f["version"]), at=c.span_at(loc))
            if rv["k"] == "agg" and rv.get("adt", "").endswith("client::PendingState"):
                f = {n: show(c.operand_expr(o)) for n, o in zip(rv["fields"], rv["ops"])}
                inst.site(c, loc, "client PendingState{local_nonce: %s}" % f["local_nonce"])
                if f["local_nonce"] != "rand::random()":
                    inst.violation(c.path, "client PendingState nonce", "client stores local_nonce=%s, not the nonce it sent" % f["local_nonce"], at=c.span_at(loc))
        a = R.body(CSA)
        n = 0
        for loc, s in a.assigns():
            rv = s["rv"]
            if rv["k"] == "agg" and rv.get("adt", "").endswith("HandshakeAckFrame"):
                n += 1
                v = show(a.operand_expr(rv["ops"][0]))
                inst.site(a, loc, "Ack{nonce_ack: %s}" % v)
                if v != "arg2.nonce":
                    inst.violation(a.path, "ACK nonce", "the client's ACK echoes `%s`, not the server's nonce" % v, at=a.span_at(loc))
        # the ACK is (re)sent whenever a SYN-ACK with the right nonce arrives while Pending or Active: every path that
        # sends nothing takes an edge on which the state is neither, or on which the nonce differs
        sends = call_locs(a, "UdpSocket::send") + call_locs(a, "UdpSocket::send_to")
        fe = cx.fa(a)
        quiet = [k for k, lits in fe.edge_lits.items() if any(re.fullmatch(r"is\(arg1\.state,(Closing|Closed|Fin)\)|!is\(arg1\.state,(Pending|Active)\)|ne\(.*nonce_ack.*\)", x) for x in lits)]
        w = a.reach_exit_avoiding_edges(sends, quiet) if (n >= 1 and sends) else [0]
        if w is not None:
            inst.violation(a.path, "ACK frames", "a SYN-ACK carrying the client's nonce can go unanswered while Pending or Active", detail={"offending_path": a.path_spans(w)[:16]})
    with cx.instance("C07.c", "T1 GUARD", "client: Active/Connect require Pending and nonce match; re-ACK requires the same match; handshake errors require Pending and nonce match", floor=3) as inst:
        a = R.body(CSA)
        sinks = agg_sites(a, r"State::Active") + event_pushes(a, r"Event::Connect")
        if len(sinks) < 2:
            inst.violation(a.path, "client promotion sites", "expected State::Active construction and Connect push (anchor)")
        cx.guard(inst, a, sinks, [[r"is\(arg1\.state,Pending\)", eq_rx(r"arg1\.state@Pending\.0\.local_nonce", r"arg2\.nonce_ack")]],
                 why="a client may connect only on a SYN-ACK echoing its own nonce", checked_before=True)
        sends = call_sites(a, "UdpSocket::send")
        fa = cx.fa(a)
        for loc, lab in sends:
            act, _ = dnf_holds(fa.at(loc), [[r"is\(arg1\.state,Active\)"]])
            if act:
                cx.guard(inst, a, [(loc, "re-ACK in Active")], [[eq_rx(r"arg1\.state@Active\.0\.local_nonce", r"arg2\.nonce_ack")]], construct="re-ACK without nonce match")
        e = R.body(CHE)
        sinks = event_pushes(e, r"Event::Error") + [(l, "state = Fin") for l, node, ps in e.field_writes(r"arg1\.state")]
        cx.guard(inst, e, sinks, [[r"is\(arg1\.state,Pending\)", eq_rx(r"arg1\.state@Pending\.0\.local_nonce", r"arg2\.nonce_ack")]],
                 why="a forged or stale handshake error must not terminate the attempt", checked_before=True)
    with cx.instance("C07.d", "T1 GUARD + T3", "clients.insert only for an address with no entry; State::Active built in exactly one body per endpoint", floor=3) as inst:
        b = R.body(SYN)
        cx.guard(inst, b, call_sites(b, "HashMap::insert", r"arg1\.clients"), [[r"is\(HashMap::get\(arg1\.clients,arg2\),None\)"]], construct="insert replacing an entry",
                 why="a repeated SYN must never replace (and thereby reset) an existing connection")
        act = {}
        for ob in R.all_bodies():
            if ob.path.startswith("server::") or ob.path.startswith("client::"):
                for loc, lab in agg_sites(ob, r"State::Active"):
                    act.setdefault(ob.path, []).append(loc)
                    inst.site(ob, loc, "construct State::Active")
        if sorted(act) != sorted([R.fn(CSA)["path"], R.fn(ACK)["path"]]):
            inst.violation("<crate>", "State::Active constructors", "State::Active is constructed in %s, expected exactly the two handshake-completing handlers" % sorted(act))
    with cx.instance("C07.e", "T1 GUARD + T8", "each refusal reply is built exactly on its refusing edge; SYN-ACK only under the negation of all; client maps wire errors one-to-one", floor=4) as inst:
        b = R.body(SYN)
        fa = cx.fa(b)
        errs = {}
        for loc, s in b.assigns():
            rv = s["rv"]
            if rv["k"] == "agg" and rv.get("adt", "").endswith("HandshakeErrorFrame"):
                f = {n: show(b.operand_expr(o)) for n, o in zip(rv["fields"], rv["ops"])}
                kind = re.sub(r".*::(\w+)\{\}$", r"\1", f["error"])
                errs.setdefault(kind, []).append(loc)
                if f["nonce_ack"] != "arg3.nonce":
                    inst.violation(b.path, "error reply nonce", "error reply echoes `%s`, not the SYN's nonce" % f["nonce_ack"], at=b.span_at(loc))
        need = {
            "Version": [[r"ne\(PROTOCOL_VERSION,arg3\.version\)"]],
            "ServerFull": [[r"le\(arg1\.config\.max_total_connections,HashMap::len\(arg1\.clients\)\)"], [r"le\(arg1\.config\.max_active_connections,Vec::len\(arg1\.active_clients\)\)"]],
            "Config": [[r"lt\(cast<usize>\(arg3\.max_receive_alloc\),arg1\.config\.endpoint_config\.max_packet_size\)"], [r"lt\(arg1\.config\.endpoint_config\.max_receive_alloc,cast<usize>\(arg3\.max_packet_size\)\)"]],
        }
        for kind, dnf in need.items():
            if kind not in errs:
                inst.violation(b.path, kind + " reply", "no %s error reply is built (anchor)" % kind)
                continue
            cx.guard(inst, b, [(l, kind + " reply") for l in errs[kind]], dnf, construct=kind + " reply on the wrong edge")
        for kind in errs:
            if kind not in need:
                inst.violation(b.path, kind + " reply", "unexpected error kind %s" % kind)
        sa = agg_sites(b, r"HandshakeSynAckFrame")
        cx.guard(inst, b, sa, [[r"eq\(PROTOCOL_VERSION,arg3\.version\)", r"lt\(HashMap::len\(arg1\.clients\),arg1\.config\.max_total_connections\)",
                                r"le\(arg1\.config\.endpoint_config\.max_packet_size,cast<usize>\(arg3\.max_receive_alloc\)\)",
                                r"le\(cast<usize>\(arg3\.max_packet_size\),arg1\.config\.endpoint_config\.max_receive_alloc\)",
                                r"is\(HashMap::get\(arg1\.clients,arg2\),None\)"]], construct="SYN-ACK without all acceptance tests")
        e = R.body(CHE)
        fe = cx.fa(e)
        got = {}
        for bb in sorted(e.reachable):
            for i, s in enumerate(e.stmts(bb)):
                if s["k"] == "assign" and not s["pl"]["p"] and s["rv"]["k"] == "agg" and s["rv"].get("adt", "").endswith("ErrorType"):
                    v = s["rv"]["variant"]
                    alts = fe.at(Loc(bb, i))
                    for w in ("Version", "Config", "ServerFull"):
                        g, _ = dnf_holds(alts, [[r"is\(arg2\.error,%s\)" % w]])
                        if g:
                            got[w] = v
                    inst.site(e, Loc(bb, i), "wire error -> ErrorType::" + v)
        if got != {"Version": "Version", "Config": "Config", "ServerFull": "ServerFull"}:
            inst.violation(e.path, "error mapping", "client maps wire errors as %s, expected the identity on {Version, Config, ServerFull}" % got)
    inst_config_mirror(cx, "C07.g")
_run_core = run


def run(cx):
    _run_core(cx)
    from props.shared import dispatch_table
    dispatch_table(cx, "C07.h", only={"HandshakeSynFrame", "HandshakeSynAckFrame", "HandshakeAckFrame", "HandshakeErrorFrame"})
    # both ends agree on the negotiated limits only if what is advertised is what is configured (saturated, not
    # truncated, to the 32-bit wire field); a refusal reaches the client with the reason the server gave
    from props.shared import advertised_limits
    with cx.instance("C07.i", "T7 SHAPE", "SYN / SYN-ACK advertise min(configured limit, u32::MAX) for all three limits", floor=6) as inst:
        advertised_limits(cx, inst, ["max_receive_rate", "max_packet_size", "max_receive_alloc"])
    from props.C16 import error_type_tables
    from props.shared import removal_implies_fin
    removal_implies_fin(cx, "C07.k")
    from props.C17 import timers_scheduled
    timers_scheduled(cx, "C07.l")
    with cx.instance("C07.j", "T8 TABLE", "the HandshakeErrorType byte tables of writer and reader are inverse; unknown bytes are refused", floor=1) as inst:
        error_type_tables(cx, inst)
    # what is advertised and enforced is what the application configured
    from props.shared import config_verbatim
    config_verbatim(cx, "C07.m")
    # a pending handshake ends only through its own frames or its timer: a frame without a nonce (DISCONNECT) must not
    # end it, and its timer must come due in time order
    from props.shared import leave_implies_terminal, heap_order
    leave_implies_terminal(cx, "C07.n")
    heap_order(cx, "C07.o", ["event"])
    from bits import check_headers
    check_headers(cx, "C07.p", "C07.q")
    # "both ends agreeing on starting sequence numbers and negotiated limits": the starting frame id is the nonce, any
    # 32-bit value, so window tests must be wrap-safe from the first frame; and both ends round the negotiated
    # allocation limit with the same expression
    from props.idarith import id_arith_discipline
    id_arith_discipline(cx, "C07.s")
    from props.C06 import inst_sibling_accounting
    inst_sibling_accounting(cx, "C07.t")
    # "stale, duplicated or forged handshake frames never ... reset or replace a connection": a datagram that makes the
    # parser panic takes every established connection of the endpoint down with it
    from props.C03 import check_parser
    check_parser(cx, "C07.u")
    # an un-nonced DISCONNECT must not end (or "complete") a pending handshake: the event typestate of both endpoints;
    # and an address whose connection timed out can complete a new handshake (Fin goes with removal from the map)
    from props.shared import share_instance
    share_instance(cx, "C08", "C08.a", "C07.v")
    share_instance(cx, "C17", "C17.c", "C07.w")
    from props.C17 import is_active_exact
    is_active_exact(cx, "C07.r")


SELFTEST = [
    {"name": "accept any nonce_ack in Server::handle_handshake_ack",
     "edits": [{"file": "src/server/mod.rs", "old": "if handshake.nonce_ack == state.local_nonce {\n                        use crate::packet_id;", "new": "if handshake.nonce_ack == state.local_nonce || true {\n                        use crate::packet_id;"}],
     "expect": ["C07.a"]},
    {"name": "build the server's tx_frame_base_id from the remote nonce",
     "edits": [{"file": "src/server/mod.rs", "old": "tx_frame_base_id: state.local_nonce,", "new": "tx_frame_base_id: state.remote_nonce,"}],
     "expect": ["C07.g"]},
    {"name": "client ACK echoes its own nonce",
     "edits": [{"file": "src/client/mod.rs", "old": "                    let reply = frame::Frame::HandshakeAckFrame(frame::HandshakeAckFrame {\n                        nonce_ack: frame.nonce,\n                    });\n                    let _ = self.socket.send(&reply.write());\n\n                    use crate::packet_id;", "new": "                    let reply = frame::Frame::HandshakeAckFrame(frame::HandshakeAckFrame {\n                        nonce_ack: frame.nonce_ack,\n                    });\n                    let _ = self.socket.send(&reply.write());\n\n                    use crate::packet_id;"}],
     "expect": ["C07.b"]},
]
