"""Rule instances shared by several properties: the frame dispatch tables and the "pipeline presence"
rules (mechanisms whose mere deletion silently disables delivery, acknowledgement or timers)."""
import re

from mirlib import Loc, dnf_holds, show
from rules import call_locs, call_sites, event_pushes

CLIENT_DISPATCH = {
    "HandshakeSynAckFrame": "Client::handle_handshake_syn_ack", "HandshakeErrorFrame": "Client::handle_handshake_error",
    "DisconnectFrame": "Client::handle_disconnect", "DisconnectAckFrame": "Client::handle_disconnect_ack",
    "DataFrame": "Client::handle_data", "SyncFrame": "Client::handle_sync", "AckFrame": "Client::handle_ack",
}
SERVER_DISPATCH = {
    "HandshakeSynFrame": "Server::handle_handshake_syn", "HandshakeAckFrame": "Server::handle_handshake_ack",
    "DisconnectFrame": "Server::handle_disconnect", "DisconnectAckFrame": "Server::handle_disconnect_ack",
    "DataFrame": "Server::handle_data", "SyncFrame": "Server::handle_sync", "AckFrame": "Server::handle_ack",
}


def dispatch_table(cx, iid, only=None):
    """T8: handle_frame sends every frame variant to its handler (and only to it), passing the
    frame's own payload and the step's clock"""
    R = cx.R
    with cx.instance(iid, "T8 TABLE (dispatch)", "handle_frame forwards each frame variant to exactly its handler at both endpoints", floor=1) as inst:
        for fn, table, frame_arg in (("client::Client::handle_frame", CLIENT_DISPATCH, "arg2"), ("server::Server::handle_frame", SERVER_DISPATCH, "arg3")):
            b = R.body(fn)
            fa = cx.fa(b)
            got = {}
            for loc, t in b.calls():
                sn = R.short(t.get("fn") or "")
                if not re.match(r"(Client|Server)::handle_", sn):
                    continue
                alts = fa.at(loc) or []
                vs = [v for v in set(table) | {"HandshakeSynFrame", "HandshakeSynAckFrame", "HandshakeAckFrame", "HandshakeErrorFrame"} if alts and all(any(l == "is(%s,%s)" % (frame_arg, v) for l in a) for a in alts)]
                for v in vs:
                    got.setdefault(v, []).append(sn)
                    if only is None or v in only:
                        inst.site(b, loc, "%s -> %s" % (v, sn))
                    e = show(b.call_expr(t))
                    if re.search(r"@(\w+Frame)\.0", e) and not re.search(r"%s@%s\.0" % (frame_arg, v), e):
                        inst.violation(b.path, "dispatch payload " + v, "the %s handler is given another variant's payload: %s" % (v, e[:100]), at=b.span_at(loc))
            for v, h in table.items():
                if only is not None and v not in only:
                    continue
                if got.get(v) != [h]:
                    inst.violation(b.path, "dispatch " + v, "%s forwards %s to %s, expected exactly %s" % (fn.split("::")[-2] + "::handle_frame", v, got.get(v), h))
            for v in got:
                if v not in table:
                    inst.violation(b.path, "dispatch " + v, "%s acts on %s frames, which this endpoint must ignore" % (fn.split("::")[-2], v))


def pipeline_presence(cx, iid):
    """T2/T7: the calls that move a packet from the API to the wire and back are present on all paths
    of their arms.  Deleting any of them breaks delivery without touching a guard."""
    R = cx.R
    with cx.instance(iid, "T2 PAIR (presence)", "send -> enqueue, step -> half_connection.step + receive, flush -> emit_frames, receive -> PacketReceiver::receive are present on every path of the Active arms", floor=14) as inst:
        def arm_call(fn, callee, arg_rx, arm_rx=r"is\(%s,Active\)", must=True):
            b = R.body(fn)
            cs = [(l, lab) for l, lab in call_sites(b, callee) if re.search(arg_rx, show(b.call_expr(b.node_at(l))))]
            for l, lab in cs:
                inst.site(b, l, "%s: %s" % (fn.split("::")[-1], show(b.call_expr(b.node_at(l)))[:90]))
            if not cs:
                inst.violation(b.path, callee + " missing", "%s no longer calls %s with the expected operands (%s)" % (fn.split("::")[-1], callee, arg_rx))
                return b, []
            # on the arm's edge the call is made on all paths
            fa = cx.fa(b)
            st = r"[\w:.@\[\](),]*state"
            found_edge = False
            for bb in b.reachable:
                t = b.term(bb)
                if t["k"] == "switch":
                    for y, lb in b.succ[bb]:
                        lits = fa.edge_lits.get((bb, y, lb[1]), [])
                        if any(re.fullmatch(arm_rx % st, x) for x in lits):
                            found_edge = True
                            if must and b.reach_exit_avoiding(Loc(y, -1), [l for l, _ in cs], _loop_exits(b, y)) is not None:
                                # the Active arm may legitimately branch (disconnect vs normal): handled by callers with must=False
                                inst.violation(b.path, callee + " skipped", "the Active arm of %s can complete without calling %s" % (fn.split("::")[-1], callee))
            if not found_edge:
                inst.violation(b.path, "Active arm", "no Active arm found in %s (anchor)" % fn)
            return b, cs

        arm_call("client::Client::send", "HalfConnection::send", r"HalfConnection::send\(arg1\.state@Active\.0\.half_connection,arg2,cast<u8>\(arg3\),arg4\)")
        arm_call("server::remote_client::RemoteClient::send", "HalfConnection::send", r"HalfConnection::send\(arg1\.state@Active\.0\.half_connection,arg2,cast<u8>\(arg3\),arg4\)")
        arm_call("client::Client::send", "Vec::push", r"Vec::push\(arg1\.state@Pending\.0\.initial_sends,SendEntry\{arg2,cast<u8>\(arg3\),arg4\}\)", arm_rx=r"is\(%s,Pending\)")
        b = R.body("client::Client::handle_handshake_syn_ack")
        cs = [l for l, t in b.calls("HalfConnection::send") if re.search(r"HalfConnection::send\(var\d+,IntoIter::next\(var\d+\)@Some\.0\.data,IntoIter::next\(var\d+\)@Some\.0\.channel_id,IntoIter::next\(var\d+\)@Some\.0\.mode\)", show(b.call_expr(t)))]
        inst.site(b, None, "initial sends replayed: %d call(s)" % len(cs))
        if len(cs) != 1 or not any(cs[0].bb in L["body"] for L in b.loops()):
            inst.violation(b.path, "initial sends", "packets queued while connecting are not all handed to the new connection")
        hs = R.body("half_connection::HalfConnection::send")
        e = [show(hs.call_expr(t)) for l, t in hs.calls("PacketSender::enqueue_packet")]
        inst.site(hs, None, "HalfConnection::send -> %s" % e)
        if e != ["PacketSender::enqueue_packet(arg1.packet_sender,arg2,arg3,arg4,arg1.flush_id)"]:
            inst.violation(hs.path, "enqueue_packet", "HalfConnection::send does not enqueue exactly its arguments: %s" % e)
        ep = R.body("PacketSender::enqueue_packet")
        e = [show(ep.call_expr(t)) for l, t in ep.calls("VecDeque::push_back")]
        if e != ["VecDeque::push_back(arg1.packet_send_queue,PacketSendEntry::new(arg2,arg3,arg4,arg5))"]:
            inst.violation(ep.path, "push_back", "enqueue_packet does not queue exactly its arguments: %s" % e)
        # step: normal branch steps the connection and delivers; flush transmits
        for fn, flushfn in (("client::Client::step_if_active", "client::Client::flush_if_active"), ("server::Server::step_active_clients", "server::Server::flush_active_clients")):
            b = R.body(fn)
            fa = cx.fa(b)
            steps = call_locs(b, "HalfConnection::step")
            recvs = call_locs(b, "HalfConnection::receive")
            inst.site(b, None, "%s: %d half_connection.step(), %d receive()" % (fn.split("::")[-1], len(steps), len(recvs)))
            if len(steps) != 1 or len(recvs) != 2:
                inst.violation(b.path, "step/receive calls", "%s should call half_connection.step() once and receive() on both branches (found %d/%d)" % (fn.split("::")[-1], len(steps), len(recvs)))
            # every path through the Active arm delivers
            for bb in b.reachable:
                t = b.term(bb)
                if t["k"] == "switch":
                    for y, lb in b.succ[bb]:
                        lits = fa.edge_lits.get((bb, y, lb[1]), [])
                        if any(re.fullmatch(r"is\([\w:.@\[\](),]*state,Active\)", x) for x in lits):
                            if b.reach_exit_avoiding(Loc(y, -1), recvs, _loop_exits(b, y)) is not None:
                                inst.violation(b.path, "receive skipped", "an active connection can be stepped without delivering received packets")
                        if any(re.fullmatch(r"!var\d+", x) for x in lits) and steps:
                            if _reaches_block(b, y, {s.bb for s in recvs}) and b.reach_exit_avoiding(Loc(y, -1), steps, _loop_exits(b, y)) is not None:
                                inst.violation(b.path, "step skipped", "the normal branch of %s does not step the half connection" % fn.split("::")[-1])
            arm_call(flushfn, "HalfConnection::flush", r"HalfConnection::flush\(")
        hf = R.body("half_connection::HalfConnection::flush")
        ef = call_locs(hf, "HalfConnection::emit_frames")
        inst.site(hf, None, "flush -> emit_frames: %d" % len(ef))
        if len(ef) != 1 or hf.reach_exit_avoiding(Loc(0, -1), ef) is not None:
            inst.violation(hf.path, "emit_frames", "HalfConnection::flush can return without emitting frames")
        hr = R.body("half_connection::HalfConnection::receive")
        e = [show(hr.call_expr(t)) for l, t in hr.calls("PacketReceiver::receive")]
        inst.site(hr, None, "receive -> %s" % e)
        if e != ["PacketReceiver::receive(arg1.packet_receiver,arg2)"]:
            inst.violation(hr.path, "PacketReceiver::receive", "HalfConnection::receive does not deliver from the packet receiver: %s" % e)
        st = R.body("half_connection::HalfConnection::step")
        for callee in ("HalfConnection::fill_flush_alloc", "SendRateComp::step", "FrameQueue::forget_frames", "FrameQueue::get_feedback"):
            ls = call_locs(st, callee)
            inst.site(st, None, "step -> %s: %d" % (callee, len(ls)))
            if len(ls) != 1 or st.reach_exit_avoiding(Loc(0, -1), ls) is not None:
                inst.violation(st.path, callee, "HalfConnection::step can return without calling %s" % callee)


def _loop_exits(b, bb):
    Ls = [L for L in b.loops() if bb in L["body"]]
    if not Ls:
        return None
    L = min(Ls, key=lambda x: len(x["body"]))
    return [Loc(L["header"], 0)]


def _reaches_block(b, start, targets):
    seen = set()
    st = [start]
    while st:
        x = st.pop()
        if x in targets:
            return True
        if x in seen:
            continue
        seen.add(x)
        for y, _ in b.succ[x]:
            st.append(y)
    return False


def ack_processing_presence(cx, iid):
    """acks and feedback are processed: every group of an ack frame is handed to acknowledge_group,
    a sent data frame is reported to the rate controller, and SendRateComp::step dispatches to its
    two handlers"""
    R = cx.R
    with cx.instance(iid, "T2 PAIR (presence)", "handle_ack_frame acknowledges every group; data sends notify the rate controller; SendRateComp::step runs its handlers", floor=4) as inst:
        b = R.body("half_connection::HalfConnection::handle_ack_frame")
        cs = [l for l, t in b.calls("FrameQueue::acknowledge_group")]
        inst.site(b, None, "acknowledge_group calls: %d" % len(cs))
        Ls = b.loops()
        if len(cs) != 1 or not Ls or cs[0].bb not in Ls[0]["body"]:
            inst.violation(b.path, "acknowledge_group", "handle_ack_frame does not acknowledge every group of the frame")
        else:
            from loops import cycle_avoiding
            if cycle_avoiding(b, Ls[0], {cs[0].bb}) is not None:
                inst.violation(b.path, "acknowledge_group skipped", "an ack group can be skipped")
            e = show(b.call_expr(b.node_at(cs[0])))
            if not re.fullmatch(r"FrameQueue::acknowledge_group\(arg1\.frame_queue,AckGroup::clone\(IntoIter::next\(var\d+\)@Some\.0\),SendRateComp::rtt_ms\(arg1\.send_rate_comp\)\)", e):
                inst.violation(b.path, "acknowledge_group operands", "acknowledge_group is called as `%s`" % e[:140])
        cb = R.body("half_connection::HalfConnection::emit_data_frames::{closure#0}")
        nf = call_locs(cb, "SendRateComp::notify_frame_sent")
        inst.site(cb, None, "data callback -> notify_frame_sent: %d" % len(nf))
        if len(nf) != 1 or cb.reach_exit_avoiding(Loc(0, -1), nf) is not None:
            inst.violation(cb.path, "notify_frame_sent", "sending a data frame does not start the rate controller (it would stay in AwaitSend and never react to feedback)")
        st = R.body("SendRateComp::step")
        fa = cx.fa(st)
        hf = call_sites(st, "SendRateComp::handle_feedback")
        ne = call_sites(st, "SendRateComp::nofeedback_expired")
        inst.site(st, None, "SendRateComp::step -> handle_feedback %d, nofeedback_expired %d" % (len(hf), len(ne)))
        if len(hf) != 1 or len(ne) != 1:
            inst.violation(st.path, "handlers", "SendRateComp::step must call handle_feedback and nofeedback_expired once each")
        else:
            cx.guard(inst, st, hf, [[r"is\(arg3,Some\)"]], construct="handle_feedback without feedback")
            cx.guard(inst, st, ne, [[r"is\(arg3,None\)", r"le\(arg1\.nofeedback_exp_ms@Some\.0,arg2\)"]], construct="nofeedback_expired before expiry")
            for bb in st.reachable:
                t = st.term(bb)
                if t["k"] == "switch":
                    for y, lb in st.succ[bb]:
                        lits = fa.edge_lits.get((bb, y, lb[1]), [])
                        if "is(arg3,Some)" in lits and st.reach_exit_avoiding(Loc(y, -1), [l for l, _ in hf]) is not None:
                            inst.violation(st.path, "feedback dropped", "a feedback report can be dropped without being handled")
                        if any(re.fullmatch(r"le\(arg1\.nofeedback_exp_ms@Some\.0,arg2\)", x) for x in lits) and st.reach_exit_avoiding(Loc(y, -1), [l for l, _ in ne]) is not None:
                            inst.violation(st.path, "expiry dropped", "an expired no-feedback timer can be ignored")


def leave_implies_terminal(cx, iid):
    """the converse of C08.b: a connection that the application saw connected leaves to Closed/Fin
    only together with a terminal event (so the peer-driven and timer-driven ends are all reported)"""
    R = cx.R
    EXEMPT = {"client::Client::disconnect": "application-initiated abort while still connecting: documented to end silently",
              "client::Client::disconnect_now": "same", "server::Server::drop": "documented: forgets the client without an event"}
    with cx.instance(iid, "T2 PAIR", "every transition of a Pending/Active/Closing connection to Closed or Fin is accompanied by a terminal event", floor=12) as inst:
        st = r"[\w:.@\[\](),]*state"
        for b in R.all_bodies():
            if not (b.path.startswith("client::Client::") or b.path.startswith("server::Server::")):
                continue
            fa = cx.fa(b, kill_fields=False)
            terms = [l for l, lab in event_pushes(b, r"Event::(Disconnect|Error)")]
            for loc, s2 in b.assigns():
                if not s2["pl"]["p"]:
                    continue
                ps = show(b.place_expr(s2["pl"]))
                v = show(b.rvalue_expr(s2["rv"]))
                if not ps.endswith("state") or not re.match(r"State::(Closed|Fin)\b", v):
                    continue
                alts = fa.at(loc)
                from_closed, _ = dnf_holds(alts, [[r"is\(%s,Closed\)" % st]])
                if from_closed:
                    inst.site(b, loc, "Closed -> Fin (already terminal)")
                    continue
                if b.path in EXEMPT:
                    inst.site(b, loc, "exempt: " + EXEMPT[b.path][:60])
                    continue
                inst.site(b, loc, "leave to %s" % v[:14])
                # a terminal push precedes or follows within the same arm
                # handshake timeout with errors disabled is the one documented silent end: paths through
                # the `!enable_handshake_errors` edge are accepted while the connection is still Pending
                extra = []
                pend, _ = dnf_holds(alts, [[r"is\(%s,Pending\)" % st]])
                if pend:
                    for bb in b.reachable:
                        t = b.term(bb)
                        if t["k"] == "switch":
                            for y, lb in b.succ[bb]:
                                if fa.edge_lits.get((bb, y, lb[1])) == ["!arg1.config.enable_handshake_errors"]:
                                    extra.append(Loc(y, -1))
                if b.reach_from_entry_avoiding(loc, terms + extra) is not None and b.reach_exit_avoiding(loc, terms, _loop_exits(b, loc.bb)) is not None:
                    inst.violation(b.path, "silent leave to " + v[:14], "a connection leaves to %s without Disconnect/Error being reported on some path" % v[:14], at=b.span_at(loc))
