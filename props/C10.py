"""C10 — timeouts fire after, and only after, the configured silence (DESIGN.md §4 C10)."""
import re
from mirlib import show, Loc, dnf_holds
from rules import call_sites, call_locs, write_sites, event_pushes, now_provenance, rx_comm
from loops import norm_vars

SCOPE = ("Decides, for both endpoints: every write of an active connection's deadline is now + active_timeout_ms "
         "with `now` provably fed from the endpoint clock of the current step (sibling rule over all 8 sites); each "
         "of the six frame handlers refreshes the deadline on every path of its Active arm; Error(Timeout) for an "
         "active connection is emitted only under now >= deadline and step() runs flush, handle_frames, "
         "handle_events, step unconditionally in that order; handshake/disconnect retries resend only under "
         "count > 0 and give up only under count == 0 and now >= resend time, with the constants 10 and 2000 ms "
         "at both ends; the keepalive early-return shape of emit_sync_frame. Not decided: timing behaviour itself.")

HANDLERS = [
    ("client::Client::handle_data", "HalfConnection::handle_data_frame"),
    ("client::Client::handle_sync", "HalfConnection::handle_sync_frame"),
    ("client::Client::handle_ack", "HalfConnection::handle_ack_frame"),
    ("server::Server::handle_data", "HalfConnection::handle_data_frame"),
    ("server::Server::handle_sync", "HalfConnection::handle_sync_frame"),
    ("server::Server::handle_ack", "HalfConnection::handle_ack_frame"),
]


def deadline_writes(R):
    """(body, loc, expr, kind) for every write of ActiveState.timeout_time_ms (assignment or struct literal)"""
    out = []
    for b in R.all_bodies():
        if not (b.path.startswith("client::") or b.path.startswith("server::")):
            continue
        for loc, s in b.assigns():
            if s["pl"]["p"] and show(b.place_expr(s["pl"])).endswith(".timeout_time_ms"):
                # only Active state's deadline (assignment sites are all Active; literal sites carry the ADT)
                out.append((b, loc, b.rvalue_expr(s["rv"]), "assign"))
            rv = s["rv"]
            if rv["k"] == "agg" and rv.get("adt", "").endswith("ActiveState") and "timeout_time_ms" in rv.get("fields", []):
                op = rv["ops"][rv["fields"].index("timeout_time_ms")]
                out.append((b, loc, b.operand_expr(op), "literal"))
    return out


def deadline_rule(cx, iid):
    R = cx.R
    with cx.instance(iid, "T4 SIBLING", "every write of an active deadline is add(now, cfg.active_timeout_ms) with now fed from the step's clock", floor=5) as inst:
        for b, loc, e, kind in deadline_writes(R):
            s = show(e)
            inst.site(b, loc, "timeout_time_ms = " + s)
            m = re.fullmatch(rx_comm("add", r"arg(?P<n>\d+)", r"arg1\.config\.endpoint_config\.active_timeout_ms").replace("(?P<n>", "(", 1).replace("(?P<n>", "("), s)
            if not m:
                inst.violation(b.path, "timeout_time_ms write", "deadline is set to `%s`; all sibling sites use now_ms + active_timeout_ms (a deadline computed from anything else times the connection out early or late)" % s, at=b.span_at(loc))
                continue
            ok, w = now_provenance(cx, b, int(m.group(1) or m.group(2)))
            if not ok:
                inst.violation(b.path, "timeout_time_ms now-provenance", "the `now` used for the deadline is not the step's clock: " + w, at=b.span_at(loc))


def run(cx):
    R = cx.R
    deadline_rule(cx, "C10.a")

    with cx.instance("C10.b", "T2 PAIR", "each frame handler's Active arm refreshes the deadline on all paths", floor=6) as inst:
        for fn, callee in HANDLERS:
            b = R.body(fn)
            sinks = call_sites(b, callee)
            if not sinks:
                inst.violation(b.path, callee, "handler no longer forwards to %s (anchor)" % callee)
                continue
            ws = [l for l, node, ps in b.field_writes(r".*\.timeout_time_ms")]
            cx.followed_by(inst, b, sinks, ws, "frame handled without deadline refresh", "write of timeout_time_ms")
            cx.guard(inst, b, sinks, [[r"is\((arg1\.state|RefCell::borrow_mut\(.*\)\.state|var\d+\.state),Active\)"]], construct="frame forwarded outside Active")

    with cx.instance("C10.c", "T1 GUARD + T2 order", "active Error(Timeout) only under now >= deadline; step() runs flush, handle_frames, handle_events, step in order", floor=4) as inst:
        for fn, st in (("client::Client::handle_events", r"arg1\.state@Active\.0"), ("server::Server::handle_events", r".*@Active\.0")):
            b = R.body(fn)
            fa = cx.fa(b)
            seen = cx.guard_cases(inst, b, event_pushes(b, r"Error\{.*Timeout"), [("Active", r"is\(.*state,Active\)", [r"le\(%s\.timeout_time_ms,arg2\)" % st])],
                                  "active Error(Timeout)", why="a connection may only be reported timed out once now >= its deadline", fa=fa)
            if "Active" not in seen:
                inst.violation(b.path, "active timeout", "no Error(Timeout) push in the Active arm of %s (anchor)" % fn)
            # exactness ("reported within one step once that much silence has elapsed"): the report may depend on
            # nothing of the connection's state but its variant and its deadline / retry budget
            allowed = {"Active": ("timeout_time_ms",), "Pending": ("resend_count", "resend_time_ms"), "Closing": ("resend_count", "resend_time_ms")}
            for l, lab in event_pushes(b, r"Error\{.*Timeout"):
                for alt in fa.at(l):
                    for lit in sorted(alt):
                        m = re.match(r"is\((.*\.state|.*),(Active|Pending|Closing)\)$", lit)
                        if not m or ".state" not in m.group(1):
                            continue
                        pref = "%s@%s.0." % (m.group(1), m.group(2))
                        for other in sorted(alt):
                            for fld in re.findall(re.escape(pref) + r"(\w+)", other):
                                inst.site(b, l, "report in %s conditioned on %s" % (m.group(2), fld))
                                if fld not in allowed[m.group(2)]:
                                    inst.violation(b.path, "Error(Timeout) in %s also conditioned on %s" % (m.group(2), fld),
                                                   "the timeout report in the %s arm is reached only under `%s`: once the deadline has passed it must be reported in this step whatever else the connection is doing"
                                                   % (m.group(2), other), at=b.span_at(l))
        order = {
            "client::Client::step": ["Client::flush_if_active", "Client::handle_frames", "Client::handle_events", "Client::step_if_active"],
            "server::Server::step": ["Server::flush_active_clients", "Server::handle_frames", "Server::handle_events", "Server::step_active_clients"],
        }
        for fn, seq in order.items():
            b = R.body(fn)
            locs = []
            for c in seq:
                ls = call_locs(b, c)
                if len(ls) != 1:
                    inst.violation(b.path, c, "step() should call %s exactly once (found %d)" % (c, len(ls)))
                    ls = ls[:1]
                locs.append(ls)
            for i, c in enumerate(seq):
                if not locs[i]:
                    continue
                inst.site(b, locs[i][0], "step: " + c)
                if b.reach_exit_avoiding(Loc(0, -1), locs[i]) is not None:
                    inst.violation(b.path, c + " conditional", "step() can return without calling %s" % c)
                if i > 0 and locs[i - 1]:
                    if b.reach_from_entry_avoiding(locs[i][0], locs[i - 1]) is not None:
                        inst.violation(b.path, "order " + c, "%s can run before %s" % (c, seq[i - 1]))
            nl = call_sites(b, "re:(Client|Server)::now_ms$")
            if len(nl) != 1:
                inst.violation(b.path, "now_ms", "step() should read the clock exactly once")

    with cx.instance("C10.d", "T1 GUARD + T9", "retries resend only under count > 0; give up only under count == 0 and now >= resend time; 10 retries, 2000 ms, both ends", floor=6) as inst:
        for side in ("client", "server"):
            for c, v in (("HANDSHAKE_RESEND_COUNT", 10), ("HANDSHAKE_RESEND_INTERVAL_MS", 2000), ("DISCONNECT_RESEND_COUNT", 10), ("DISCONNECT_RESEND_INTERVAL_MS", 2000)):
                x = R.const_int("%s::%s" % (side, c))
                inst.site("<const>", None, "%s::%s = %d" % (side, c, x))
                if x != v:
                    inst.violation("%s::%s" % (side, c), "constant", "%s::%s is %d, the property states %d" % (side, c, x, v))
        # client: Pending / Closing arms of handle_events
        b = R.body("client::Client::handle_events")
        fa = cx.fa(b)
        for arm, const in (("Pending", "client::HANDSHAKE_RESEND_INTERVAL_MS"), ("Closing", "client::DISCONNECT_RESEND_INTERVAL_MS")):
            sends = []
            for loc, lab in call_sites(b, "UdpSocket::send"):
                good, _ = dnf_holds(fa.at(loc), [[r"is\(arg1\.state,%s\)" % arm]])
                if good:
                    sends.append((loc, "resend in %s" % arm))
            if not sends:
                inst.violation(b.path, "resend in " + arm, "no resend in the %s arm (anchor)" % arm)
            cx.guard(inst, b, sends, [[r"ne\(0,[\w.@]+\.resend_count\)", r"le\([\w.@]+\.resend_time_ms,arg2\)"]], construct="resend in " + arm,
                     why="a retry is sent only when due and while retries remain")
            decs = [l for l, node, ps in b.field_writes(r"[\w.@]+\.resend_count") if re.fullmatch(r"sub\([\w.@]+\.resend_count,1\)", show(b.rvalue_expr(node["rv"])))]
            tms = [l for l, node, ps in b.field_writes(r"[\w.@]+\.resend_time_ms") if re.fullmatch(rx_comm("add", "arg2", re.escape(const)), show(b.rvalue_expr(node["rv"])))]
            cx.followed_by(inst, b, sends, decs, "resend without count decrement in " + arm, "resend_count -= 1")
            cx.followed_by(inst, b, sends, tms, "resend without rescheduling in " + arm, "resend_time_ms = now + interval")
            seen = cx.guard_cases(inst, b, event_pushes(b, r"Error\{.*Timeout"),
                                  [(arm, r"is\(arg1\.state,%s\)" % arm, [r"eq\(0,arg1\.state@%s\.0\.resend_count\)" % arm, r"le\(arg1\.state@%s\.0\.resend_time_ms,arg2\)" % arm])],
                                  "Error(Timeout)", why="the attempt may be abandoned only after all retries are used and the last interval elapsed", fa=fa)
            if arm not in seen:
                inst.violation(b.path, "timeout in " + arm, "no Error(Timeout) in the %s arm (anchor)" % arm)
        # initial values (client)
        for fn, adt, cnt, itv in (("client::Client::connect", "PendingState", "client::HANDSHAKE_RESEND_COUNT", "client::HANDSHAKE_RESEND_INTERVAL_MS"),
                                  ("client::Client::step_if_active", "ClosingState", "client::DISCONNECT_RESEND_COUNT", "client::DISCONNECT_RESEND_INTERVAL_MS"),
                                  ("client::Client::handle_disconnect", None, None, None)):
            if adt is None:
                continue
            bb_ = R.body(fn)
            hit = False
            for loc, s in bb_.assigns():
                rv = s["rv"]
                if rv["k"] == "agg" and rv.get("adt", "").endswith(adt):
                    ops = dict(zip(rv["fields"], [show(bb_.operand_expr(o)) for o in rv["ops"]]))
                    hit = True
                    inst.site(bb_, loc, "%s{resend_count: %s, resend_time_ms: %s}" % (adt, ops.get("resend_count"), ops.get("resend_time_ms")))
                    if ops.get("resend_count") != cnt:
                        inst.violation(bb_.path, adt + ".resend_count", "initial retry count is `%s`, expected %s" % (ops.get("resend_count"), cnt), at=bb_.span_at(loc))
                    rt = ops.get("resend_time_ms") or ""
                    at_clock_start = fn.endswith("::connect") and rt == itv  # the client's clock starts at connect(): now == 0
                    if not at_clock_start and not re.fullmatch(rx_comm("add", r"(arg\d+|Client::now_ms\(arg1\))", re.escape(itv)), rt):
                        inst.violation(bb_.path, adt + ".resend_time_ms", "first retry is scheduled at `%s`, expected now + %s" % (ops.get("resend_time_ms"), itv), at=bb_.span_at(loc))
            if not hit:
                inst.violation(bb_.path, adt, "%s construction not found (anchor)" % adt)
        # server: handle_event arms
        he = R.body("server::Server::handle_event")
        fah = cx.fa(he)
        for arm, const, kind in (("Pending", "server::HANDSHAKE_RESEND_INTERVAL_MS", "ResendHandshakeSynAck"), ("Closing", "server::DISCONNECT_RESEND_INTERVAL_MS", "ResendDisconnect")):
            sends = []
            for loc, lab in call_sites(he, "UdpSocket::send_to"):
                good, _ = dnf_holds(fah.at(loc), [[r"is\(.*\.state,%s\)" % arm]])
                if good:
                    sends.append((loc, "server resend in " + arm))
            if not sends:
                inst.violation(he.path, "resend in " + arm, "no resend in the %s arm of handle_event (anchor)" % arm)
            cx.guard(inst, he, sends, [[r"ne\(0,arg2\.count\)"]], construct="server resend in " + arm, why="a retry is sent only while retries remain")
            kind_rx = r"eq\((EventType::%s\{\},arg2\.kind|arg2\.kind,EventType::%s\{\})\)" % (kind, kind)
            cx.guard(inst, he, sends, [[kind_rx]], construct="server resend in %s for a foreign timer" % arm,
                     why="only this state's own timer may consume its retry budget (a stale timer of an earlier state would shorten it)")
            tos = []
            for loc, lab in event_pushes(he, r"Error\{.*Timeout"):
                good, _ = dnf_holds(fah.at(loc), [[r"is\(.*\.state,%s\)" % arm]])
                if good:
                    tos.append((loc, "server Error(Timeout) in " + arm))
            cx.guard(inst, he, tos, [[r"eq\(0,arg2\.count\)"]], construct="server Error(Timeout) in " + arm, why="give up only after all retries")
            cx.guard(inst, he, tos, [[r"eq\((EventType::%s\{\},arg2\.kind|arg2\.kind,EventType::%s\{\})\)" % (kind, kind)]], construct="server Error(Timeout) in %s for a foreign timer" % arm)
            tms = [l for l, node, ps in he.field_writes(r"arg2\.time") if re.fullmatch(rx_comm("add", "arg3", re.escape(const)), show(he.rvalue_expr(node["rv"])))]
            for loc, lab in sends:
                good, _ = dnf_holds(fah.at(loc), [[r"eq\(arg2\.kind,.*%s.*\)|EventType::eq\(arg2\.kind,.*%s.*\)|.*%s.*" % (kind, kind, kind)]])
            cx.followed_by(inst, he, sends, tms, "server resend without rescheduling in " + arm, "event.time = now + interval")
        # server initial values: the event pushed with the pending client / on closing
        for fn, kind, cnt, itv in (("server::Server::handle_handshake_syn", "ResendHandshakeSynAck", "server::HANDSHAKE_RESEND_COUNT", "server::HANDSHAKE_RESEND_INTERVAL_MS"),
                                   ("server::Server::step_active_clients", "ResendDisconnect", "server::DISCONNECT_RESEND_COUNT", "server::DISCONNECT_RESEND_INTERVAL_MS")):
            sb = R.body(fn)
            hit = False
            for loc, t in sb.calls("event_queue::Event::new"):
                e = sb.call_expr(t)
                args = [show(a) for a in e[2]]
                if kind in args[1]:
                    hit = True
                    inst.site(sb, loc, "Event::new(_, %s, %s, %s)" % (kind, args[2], args[3]))
                    if args[3] != cnt:
                        inst.violation(sb.path, kind + " count", "initial retry count `%s`, expected %s" % (args[3], cnt), at=sb.span_at(loc))
                    if not re.fullmatch(rx_comm("add", r"arg\d+", re.escape(itv)), args[2]):
                        inst.violation(sb.path, kind + " time", "first retry scheduled at `%s`, expected now + %s" % (args[2], itv), at=sb.span_at(loc))
            if not hit:
                inst.violation(sb.path, kind, "no %s event is scheduled (anchor)" % kind)

    with cx.instance("C10.e", "T1 GUARD + T7", "keepalive: with nothing to resynchronise emit_sync_frame returns early iff keepalive is off or the interval has not elapsed; both ends build Some(interval) iff keepalive", floor=3) as inst:
        es = R.body("HalfConnection::emit_sync_frame")
        fa = cx.fa(es)
        sends = call_sites(es, "FrameSink::send")
        if not sends:
            inst.violation(es.path, "FrameSink::send", "emit_sync_frame sends nothing (anchor)")
        for loc, lab in sends:
            inst.site(es, loc, "sync frame send")
        # collect the facts under which the sync frame is sent with both ids None
        hit = False
        for bb in sorted(es.reachable):
            t = es.term(bb)
            if t["k"] == "switch":
                for y, lb in es.succ[bb]:
                    for l in fa.edge_lits.get((bb, y, lb[1]), []):
                        if re.search(r"keepalive_interval_ms", l):
                            hit = True
        if not hit:
            inst.violation(es.path, "keepalive test", "emit_sync_frame no longer consults keepalive_interval_ms")
        for fn in ("client::Client::handle_handshake_syn_ack", "server::Server::handle_handshake_ack"):
            b = R.body(fn)
            found = False
            for loc, s in b.assigns():
                rv = s["rv"]
                if rv["k"] == "agg" and rv.get("adt", "").endswith("half_connection::Config"):
                    op = rv["ops"][rv["fields"].index("keepalive_interval_ms")]
                    found = True
                    # the operand is a multi-def local: Some(cfg.interval) under keepalive, None otherwise
                    from rules import root_local
                    l = root_local(b, op)
                    if l is None:
                        l = op["pl"]["l"]
                    okS = okN = False
                    for dloc, kind, node in b.defs.get(l, []):
                        e = show(b.rvalue_expr(node["rv"])) if kind == "assign" else ""
                        alts = cx.fa(b).at(dloc)
                        if e in ("Some{arg1.config.endpoint_config.keepalive_interval_ms}", "Some{arg1.config.keepalive_interval_ms}"):
                            g, _ = dnf_holds(alts, [[r"arg1\.config\.endpoint_config\.keepalive"]])
                            okS = g
                        elif e == "None{}":
                            g, _ = dnf_holds(alts, [[r"!arg1\.config\.endpoint_config\.keepalive"]])
                            okN = g
                    # `cfg.keepalive.then_some(cfg.keepalive_interval_ms)` is the same option
                    for dloc, kind, node in b.defs.get(l, []):
                        if kind == "call" and show(b.call_expr(node)) in (
                                "bool::then_some(arg1.config.endpoint_config.keepalive,arg1.config.endpoint_config.keepalive_interval_ms)",):
                            okS = okN = True
                    inst.site(b, loc, "Config.keepalive_interval_ms = keepalive ? Some(interval) : None", {"some_ok": okS, "none_ok": okN})
                    if not (okS and okN):
                        inst.violation(b.path, "keepalive option", "keepalive_interval_ms is not `if keepalive {Some(interval)} else {None}`", at=b.span_at(loc))
            if not found:
                inst.violation(b.path, "half_connection::Config", "Config literal not found (anchor)")




_run_core = run


def run(cx):
    _run_core(cx)
    # a keepalive is a sync frame without ids; the idle peer's deadline is refreshed only by the ack it
    # gets in reply, so "never times out while idle with keepalive" needs the sync-reply mechanism
    from props.C11 import sync_reply_mechanism
    sync_reply_mechanism(cx, "C10.f", "C10.g")
    from props.shared import dispatch_table
    dispatch_table(cx, "C10.h", only={"DataFrame", "SyncFrame", "AckFrame"})
    # keepalives must actually leave: the credit test may refuse them only when the credit is negative
    from props.shared import sync_refusal_exact
    sync_refusal_exact(cx, "C10.i")
    # handshake / disconnect retries come due in time order: the timer heap is earliest-first
    from props.shared import heap_order
    heap_order(cx, "C10.j", ["event"])
    # every deadline is a difference of clock readings: millisecond resolution, no narrowing; and a frame that is
    # already in the socket when step() runs is booked before the deadlines are tested
    from props.shared import clock_exact, socket_drain
    clock_exact(cx, "C10.o")
    socket_drain(cx, "C10.p")
    from props.shared import insert_only_absent
    insert_only_absent(cx, "C10.q")
    from props.shared import active_timeout_sweep
    active_timeout_sweep(cx, "C10.k")
    # the keepalive cadence is max(rto, 2000 ms) and the RTO is 2*MSS/X when the rate is low: a rate computed from an
    # RTT in the wrong unit (1000x) spaces keepalives further apart than the timeout
    from props.C14 import inst_time_units
    inst_time_units(cx, "C10.l")
    from props.C14 import inst_rate_floor
    inst_rate_floor(cx, "C10.m")
    # keepalives and their replies need credit: the refill must count the whole time since the last step
    from props.C13 import inst_credit_refill
    inst_credit_refill(cx, "C10.n")


SELFTEST = [
    {"name": "keepalive refused at zero credit",
     "edits": [{"file": "src/half_connection/mod.rs", "old": "            if self.flush_alloc < 0 {\n                return Err(());", "new": "            if self.flush_alloc <= 0 {\n                return Err(());"}],
     "expect": ["C10.i"]},
    {"name": "stop refreshing the deadline in client handle_sync",
     "edits": [{"file": "src/client/mod.rs", "old": "                state.half_connection.handle_sync_frame(frame);\n                state.timeout_time_ms = now_ms + self.config.endpoint_config.active_timeout_ms;", "new": "                state.half_connection.handle_sync_frame(frame);"}],
     "expect": ["C10.b"]},
    {"name": "client deadline initialised without now (F9 reintroduced)",
     "edits": [{"file": "src/client/mod.rs", "old": "timeout_time_ms: now_ms + self.config.endpoint_config.active_timeout_ms,", "new": "timeout_time_ms: self.config.endpoint_config.active_timeout_ms,"}],
     "expect": ["C10.a"]},
    {"name": "retune HANDSHAKE_RESEND_COUNT to 8 at the server",
     "edits": [{"file": "src/server/mod.rs", "old": "static HANDSHAKE_RESEND_COUNT: u8 = 10;", "new": "static HANDSHAKE_RESEND_COUNT: u8 = 8;"}],
     "expect": ["C10.d"]},
]
