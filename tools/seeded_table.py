#!/usr/bin/env python3
"""prints the markdown table of the kept seeded changes whose id matches the given regex (from seeded/*/meta.json
and seeded/HISTORY.json)"""
import json, os, re, sys
VERIF = os.path.dirname(os.path.dirname(os.path.abspath(__file__)))
rx = re.compile(sys.argv[1] if len(sys.argv) > 1 else ".*")
hist = json.load(open(os.path.join(VERIF, "seeded", "HISTORY.json")))
print("| seeded change | file | instances that fire | history |\n|---|---|---|---|")
for d in sorted(os.listdir(os.path.join(VERIF, "seeded"))):
    mp = os.path.join(VERIF, "seeded", d, "meta.json")
    if not os.path.exists(mp) or not rx.fullmatch(d):
        continue
    m = json.load(open(mp))
    fired = "; ".join("%s[%s]" % (k, ",".join(sorted({x.split(" @ ")[0] for x in v}))) for k, v in sorted(m["caught_by"].items()))
    print("| %s | %s | %s | %s |" % (d, ", ".join("`%s`" % f.replace("src/", "") for f in m["files_changed"]), fired or "**missed**", hist.get(d, "")))
