"""C08 — per-connection event stream is well-formed; nothing after the end (DESIGN.md §4 C08)."""
import re
from collections import deque
from mirlib import show, Loc, dnf_holds
from rules import call_sites, call_locs, agg_sites, event_pushes

SCOPE = ("Decides the typestate structure of event emission in both endpoints, over every push site and every "
         "delivery call (all enumerated on each run): Connect only under Pending; packet delivery only under "
         "Active; Disconnect only under Active or Closing; Error(Timeout) only under Pending, Active or Closing; "
         "handshake errors only under Pending (client) or for an address with no table entry (server); every "
         "terminal event is followed on all paths by leaving to Closed/Fin; state writes only along the allowed "
         "transitions (no resurrection: Active only from Pending, Closing only from Active, Closed only from "
         "Active/Closing); within a handler invocation delivery precedes the terminal event and nothing is "
         "emitted for that connection after it. By induction over handler invocations these make the "
         "per-connection automaton accept only Connect? Receive* terminal?. Not decided: that a specific schedule "
         "produces a specific event.")

ST = r"[\w:.@\[\](),]*state"


def state_writes(b):
    out = []
    for loc, s in b.assigns():
        if s["pl"]["p"]:
            ps = show(b.place_expr(s["pl"]))
            if re.fullmatch(ST, ps) and (ps.endswith(".state")):
                v = show(b.rvalue_expr(s["rv"]))
                m = re.match(r"State::(\w+)", v)
                if m:
                    out.append((loc, ps, m.group(1)))
    return out


def endpoint_bodies(R):
    for b in R.all_bodies():
        if (b.path.startswith("client::Client::") or b.path.startswith("server::Server::") or b.path.startswith("server::remote_client::RemoteClient::")):
            yield b


def run(cx):
    R = cx.R
    pushes = []  # (body, loc, kind)
    recvs = []
    for b in endpoint_bodies(R):
        for loc, lab in event_pushes(b, r"Event::"):
            e = show(b.call_expr(b.node_at(loc))[2][1])
            kind = "Connect" if "Event::Connect" in e else "Disconnect" if "Event::Disconnect" in e else "Receive" if "Event::Receive" in e else \
                   ("Error(Timeout)" if "Timeout" in e else "Error(handshake)") if "Event::Error" in e else "other:" + e[:30]
            pushes.append((b, loc, kind))
        for loc, lab in call_sites(b, "HalfConnection::receive"):
            recvs.append((b, loc))
    with cx.instance("C08.a", "T1 GUARD (emission typestate)", "each event kind is emitted only in its allowed connection states", floor=14) as inst:
        need = {
            "Connect": [[r"is\(%s,Pending\)" % ST]],
            "Disconnect": [[r"is\(%s,Active\)" % ST], [r"is\(%s,Closing\)" % ST]],
            "Error(Timeout)": [[r"is\(%s,Pending\)" % ST], [r"is\(%s,Active\)" % ST], [r"is\(%s,Closing\)" % ST]],
        }
        for b, loc, kind in pushes:
            if kind in need:
                cx.guard(inst, b, [(loc, "push " + kind)], need[kind], construct="push %s outside its states" % kind, checked_before=True,
                         why="the application would see %s for a connection that is not in a state where it can occur" % kind)
            elif kind == "Error(handshake)":
                if b.path.startswith("server::"):
                    cx.guard(inst, b, [(loc, "push " + kind)], [[r"is\(HashMap::get\(arg1\.clients,arg2\),None\)"]], construct="handshake error for a known address", checked_before=True)
                else:
                    cx.guard(inst, b, [(loc, "push " + kind)], [[r"is\(%s,Pending\)" % ST]], construct="handshake error outside Pending", checked_before=True)
            else:
                inst.site(b, loc, "push " + kind)
                inst.violation(b.path, "push " + kind, "an event of an unexpected kind is pushed by the endpoint itself (Receive events come only from the packet sink)", at=b.span_at(loc))
        for b, loc in recvs:
            cx.guard(inst, b, [(loc, "HalfConnection::receive (emit-Receive)")], [[r"is\(%s,Active\)" % ST]], construct="delivery outside Active", checked_before=True)
        # the packet sinks are the only producers of Receive
        for nm in ("client::PacketReceiveSink", "server::EventPacketSink"):
            sb = [p for p in R.fns if p.startswith("<" + nm) and p.endswith("::send")]
            if len(sb) != 1:
                inst.violation(nm, "PacketSink::send impl", "expected one PacketSink impl for %s (anchor)" % nm)
            else:
                sbb = R.body(sb[0])
                ok = any("Event::Receive" in show(sbb.call_expr(t)) for l, t in sbb.calls("Vec::push"))
                inst.site(sbb, None, "packet sink pushes Event::Receive")
                if not ok:
                    inst.violation(sbb.path, "Event::Receive", "the packet sink no longer emits Receive")
    with cx.instance("C08.b", "T2 PAIR", "every terminal event is followed on all paths by leaving to Closed/Fin", floor=7) as inst:
        for b, loc, kind in pushes:
            if kind in ("Disconnect", "Error(Timeout)") or (kind == "Error(handshake)" and b.path.startswith("client::")):
                ws = [l for l, ps, v in state_writes(b) if v in ("Closed", "Fin")]
                cx.followed_by(inst, b, [(loc, "push " + kind)], ws, "terminal %s without leaving" % kind, "state = Closed | Fin")
    with cx.instance("C08.c", "T1 GUARD (transitions)", "state is written only along Pending->Active, Active->Closing, {Active,Closing}->Closed, any->Fin", floor=11) as inst:
        allowed = {"Active": ["Pending"], "Closing": ["Active"], "Closed": ["Active", "Closing"]}
        for b in endpoint_bodies(R):
            for loc, ps, v in state_writes(b):
                if v == "Fin":
                    inst.site(b, loc, "state = Fin")
                    continue
                if v not in allowed:
                    inst.site(b, loc, "state = " + v)
                    inst.violation(b.path, "state = " + v, "an existing connection's state is reset to %s" % v, at=b.span_at(loc))
                    continue
                dnf = [[r"is\(%s,%s\)" % (ST, s)] for s in allowed[v]]
                cx.guard(inst, b, [(loc, "state = " + v)], dnf, construct="transition to %s from a wrong state" % v,
                         why="a finished or closing connection must never become %s again" % v, checked_before=True)
    with cx.instance("C08.d", "T2 order", "within a handler, delivery precedes the terminal event and nothing is emitted for that connection after it", floor=7) as inst:
        for b, loc, kind in pushes:
            if kind not in ("Disconnect", "Error(Timeout)", "Error(handshake)"):
                continue
            if kind == "Error(handshake)" and b.path.startswith("server::"):
                continue
            inst.site(b, loc, "terminal " + kind)
            hdrs = {L["header"] for L in b.loops() if loc.bb in L["body"]}
            later = [l for bb2, l in recvs if bb2.path == b.path] + [l for bb2, l, k in pushes if bb2.path == b.path and l != loc]
            seen = set()
            dq = deque([y for y, _ in b.succ[loc.bb]])
            bad = None
            same_block_after = [l for l in later if l.bb == loc.bb and l.idx > loc.idx]
            if same_block_after:
                bad = same_block_after[0]
            while dq and bad is None:
                x = dq.popleft()
                if x in seen or x in hdrs:
                    continue
                seen.add(x)
                for l in later:
                    if l.bb == x:
                        bad = l
                for y, _ in b.succ[x]:
                    dq.append(y)
            if bad is not None:
                inst.violation(b.path, "emission after terminal " + kind, "after the terminal event another event/delivery for the same connection is reachable in the same handler", at=b.span_at(bad))


_run_core = run


def run(cx):
    _run_core(cx)
    from props.shared import leave_implies_terminal, dispatch_table
    leave_implies_terminal(cx, "C08.e")
    dispatch_table(cx, "C08.f")
    # nothing after the end: a connection that left the address map is terminal, so timers that still hold it are no-ops
    from props.shared import removal_implies_fin
    removal_implies_fin(cx, "C08.g")
    # Connect is emitted once per connection: only together with the promotion, i.e. under the nonce test
    from props.C07 import inst_promotion_guard
    inst_promotion_guard(cx, "C08.h")
    inst_receive_address(cx, "C08.i")


def inst_receive_address(cx, iid):
    """E2 PROVENANCE: a server Receive event names the connection that delivered the packet.  The sink stores the address
    it is given unchanged, pushes Receive(that address, payload), and every sink is created with the address of the very
    client whose half-connection is asked to deliver (`client.address` of the borrowed client / the handler's address
    argument) - not an address looked up by position or rewritten on the way."""
    R = cx.R
    with cx.instance(iid, "E2 PROVENANCE", "server Receive events carry the delivering connection's own address, unchanged", floor=6) as inst:
        nb = R.body("server::EventPacketSink::<'a>::new")
        e = show(nb.local_expr(0))
        inst.site(nb, None, "sink = " + e[:160])
        if not re.fullmatch(r"(server::)?EventPacketSink\{arg1, ?arg2\}", e):
            inst.violation(nb.path, "sink address", "EventPacketSink::new builds `%s`; expected the address argument stored unchanged" % e[:200])
        sb = [p for p in R.fns if p.startswith("<server::EventPacketSink") and p.endswith("::send")]
        for pth in sb:
            b = R.body(pth)
            for l, t in b.calls("Vec::push"):
                ce = show(b.call_expr(t))
                inst.site(b, l, "push " + ce[:160])
                if not re.search(r"Event::Receive\{arg1\.address, ?arg2\}", ce):
                    inst.violation(b.path, "Receive address", "the sink pushes `%s`; expected Event::Receive(self.address, packet)" % ce[:200])
        for b in [R.body(p) for p in R.fns if p.startswith("server::Server::")]:
            for l, t in list(b.calls("EventPacketSink::<'a>::new")) + list(b.calls("EventPacketSink::new")):
                ce = b.call_expr(t)
                a = show(ce[2][0])
                inst.site(b, l, "sink address = " + a[:200])
                m = re.fullmatch(r"(var\d+)\.address", a)
                rcv = [show(b.call_expr(t2)) for l2, t2 in b.calls("HalfConnection::receive")]
                if re.fullmatch(r"arg\d+", a):
                    continue
                if not m or not any(r.startswith("HalfConnection::receive(%s.state@" % m.group(1)) for r in rcv):
                    inst.violation(b.path, "sink address", "a Receive sink is created with address `%s`; expected the handler's address argument or `.address` of the client whose half-connection delivers" % a[:160], at=b.span_at(l))


SELFTEST = [
    {"name": "Receive sink rewrites the address it is given (C08k-2)",
     "edits": [{"file": "src/server/mod.rs", "old": "        Self {\n            address,\n            event_queue,\n        }", "new": "        Self {\n            address: net::SocketAddr::new(address.ip(), address.port() ^ 1),\n            event_queue,\n        }"}],
     "expect": ["C08.i"]},
    {"name": "push Disconnect in handle_disconnect_ack without leaving Closing (server)",
     "edits": [{"file": "src/server/mod.rs", "old": "                    self.events_out.push(Event::Disconnect(client_addr));\n\n                    client.state = remote_client::State::Fin;\n                    std::mem::drop(client);\n                    self.clients.remove(&client_addr);", "new": "                    self.events_out.push(Event::Disconnect(client_addr));\n                    std::mem::drop(client);"}],
     "expect": ["C08.b"]},
    {"name": "client: Disconnect-ack accepted in Closed too",
     "edits": [{"file": "src/client/mod.rs", "old": "            State::Closing(_) => {\n                // Signal disconnect and forget connection\n                self.events_out.push(Event::Disconnect);", "new": "            State::Closing(_) | State::Closed(_) => {\n                // Signal disconnect and forget connection\n                self.events_out.push(Event::Disconnect);"}],
     "expect": ["C08.a"]},
]
