"""C02 — Reliable packets are never skipped and are eventually delivered (DESIGN.md §4 C02)."""
import re
from mirlib import show, Loc, dnf_holds
from rules import call_sites, call_locs, rx_comm, root_local
from loops import norm_vars

SCOPE = ("Decides the no-skip mechanisms on every path: the mode->resend table and that exactly the Reliable arm "
         "records the packet as window parent and channel parent (acknowledge only clears them); a packet is "
         "delivered only if its channel parent lead is 0 or exceeds its distance from the channel base, and the "
         "receive window advances past an entry only if its window parent lead is 0 or exceeds its distance from the "
         "new base (exact: the refusing branches are taken only under the negations); a packet-window "
         "resynchronisation is offered only when nothing awaits (re)sending; a resent fragment is re-queued for "
         "resending on every successful send and a first-time fragment is queued iff its packet is resendable; a "
         "packet gets an id only inside the window and allocation limits. Not decided: eventual delivery, bounded "
         "time, fairness, exactly-once (liveness over histories).")

EP = "half_connection::packet_sender::PacketSender::emit_packet"
RCV = "half_connection::packet_receiver::PacketReceiver::receive"
EMIT = "half_connection::HalfConnection::emit_data_frames"


def inst_parents(cx, iid):
    R = cx.R
    with cx.instance(iid, "T8 + T2 + T3", "Reliable (and only Reliable) packets become window parent and channel parent; acknowledge only clears parents", floor=4) as inst:
        from props.C12 import mode_table
        b = R.body(EP)
        fa = cx.fa(b)
        md = r"is\(Option::unwrap\(VecDeque::pop_front\(arg1\.packet_send_queue\)\)\.mode,Reliable\)"
        ws = [(l, node, ps) for l, node, ps in b.field_writes(r"arg1\.window_parent_id|arg1\.channels\[.*\]\.parent_id")]
        kinds = set()
        for l, node, ps in ws:
            v = show(b.rvalue_expr(node["rv"]))
            kinds.add(ps.split(".")[-1])
            inst.site(b, l, "%s = %s" % (norm_vars(ps)[-40:], v))
            if v != "Some{arg1.next_id}":
                inst.violation(b.path, "parent value", "emit_packet records parent `%s`, expected Some(sequence_id of this packet)" % v, at=b.span_at(l))
            cx.guard(inst, b, [(l, "write " + ps.split(".")[-1])], [[md]], construct="parent recorded outside the Reliable arm", checked_before=True)
        if kinds != {"window_parent_id", "parent_id"}:
            inst.violation(b.path, "parent writes", "the Reliable arm must record both window_parent_id and channel.parent_id (found %s)" % sorted(kinds))
        # on the Reliable edge both writes happen: from the switch edge, all paths to return pass both
        ak = R.body("PacketSender::acknowledge")
        for l, node, ps in ak.field_writes(r"arg1\.window_parent_id|arg1\.channels\[.*\]\.parent_id"):
            v = show(ak.rvalue_expr(node["rv"]))
            inst.site(ak, l, "acknowledge: %s = %s" % (ps.split(".")[-1], v))
            if v != "None{}":
                inst.violation(ak.path, "parent write in acknowledge", "acknowledge sets a parent to `%s`; it may only clear it" % v, at=ak.span_at(l))
            else:
                who = "arg1.window_parent_id" if ps == "arg1.window_parent_id" else ps
                rx = r"(?:eq\(%s@Some\.0,arg1\.base_id\)|eq\(arg1\.base_id,%s@Some\.0\))" % (re.escape(who), re.escape(who))
                cx.guard(inst, ak, [(l, "clear " + ps.split(".")[-1])], [[rx]], construct="parent cleared for another packet",
                         why="a parent marker may be cleared only when the released packet is that parent; otherwise later packets stop waiting for an unacknowledged Reliable packet", checked_before=True)
        for ob in R.all_bodies():
            if ob.path in (b.path, ak.path) or "packet_sender::" not in ob.path or ob.path.endswith("::new"):
                continue
            for l, node, ps in ob.field_writes(r".*(window_parent_id|\.parent_id)"):
                inst.violation(ob.path, "unlisted parent writer", "parent ids are written outside emit_packet/acknowledge", at=ob.span_at(l))
    mode_table(cx, iid + ".table")


def inst_delivery_guards(cx, iid):
    R = cx.R
    with cx.instance(iid, "T1x EXACT-GUARD", "deliver only if channel_parent_lead == 0 or > distance from channel base; advance only if window_parent_lead == 0 or > distance from new base", floor=2) as inst:
        b = R.body(RCV)
        fa = cx.fa(b)
        CE = r"cast<u32>\(arg1\.channel_entries\[.*\]\.channel_parent_lead\)"
        dist = r"packet_id::sub\(var\d+,Option::unwrap_or\(arg1\.channels\[.*\]\.base_id,arg1\.base_id\)\)"
        sends = call_sites(b, "PacketSink::send")
        cx.guard(inst, b, sends, [[r"eq\(0,%s\)" % CE], [r"lt\(%s,%s\)" % (dist, CE)]], construct="delivery past an undelivered Reliable packet",
                 why="a packet whose Reliable predecessor on the channel has not been delivered must wait")
        # exactness: the branch that stops considering the channel is taken only under the negation
        fan = cx.fa(b, kill_fields=False)
        nstall = 0
        for l, node, ps in b.field_writes(r"arg1\.channel_ready_flags"):
            pos, _ = dnf_holds(fan.at(l), [[r"eq\(0,%s\)" % CE], [r"lt\(%s,%s\)" % (dist, CE)]])
            neg, _ = dnf_holds(fan.at(l), [[r"ne\(0,%s\)" % CE, r"le\(%s,%s\)" % (CE, dist)]])
            inst.site(b, l, "channel_ready_flags &= !bit (%s)" % ("after delivery" if pos else "stall" if neg else "?"))
            nstall += 1 if neg else 0
            if not pos and not neg:
                inst.violation(b.path, "channel stalled without cause", "a channel stops being considered under a condition that is neither 'delivered its last packet' nor the negation of the delivery test (over-rejection breaks delivery)", at=b.span_at(l))
        if nstall != 1:
            inst.violation(b.path, "stall branch", "expected exactly one stall branch under the negated delivery test, found %d" % nstall)
        WE = r"cast<u32>\(arg1\.window_entries\[.*\]\.window_parent_lead\)"
        # the advance: assignment new_base = next_id (a multi-def u32 local assigned packet_id::add(cursor,1), read by advance_window)
        adv = []
        for l, t in b.calls("PacketReceiver::advance_window"):
            a = t["args"][1]
            nb = root_local(b, a)
            if nb is not None:
                for dloc, kind, node in b.defs.get(nb, []):
                    v = show(b.rvalue_expr(node["rv"])) if kind == "assign" else show(b.call_expr(node))
                    if v.startswith("packet_id::add("):
                        adv.append((dloc, "new_base_id = next_id", nb))
        if not adv:
            inst.violation(b.path, "window advance", "the assignment new_base_id = next_id was not found (anchor)")
        for dloc, lab, nb in adv:
            wd = r"packet_id::sub\(var\d+,var%d\)" % nb
            cx.guard(inst, b, [(dloc, lab)], [[r"eq\(0,%s\)" % WE], [r"lt\(%s,%s\)" % (wd, WE)]], construct="window advanced past an undelivered Reliable packet",
                     why="the receive window must not move past a packet whose Reliable predecessor is still outstanding")


def _not_after(b, l, sends):
    return True


def inst_resync_guard(cx, iid):
    R = cx.R
    with cx.instance(iid, "T1 GUARD", "a packet-window resync id is offered only when ids are outstanding and nothing awaits (re)sending", floor=1) as inst:
        b = R.body("half_connection::HalfConnection::emit_sync_frame")
        # the local that becomes SyncFrame.next_packet_id
        tgt = None
        for loc, s in b.assigns():
            rv = s["rv"]
            if rv["k"] == "agg" and rv.get("adt", "").endswith("SyncFrame"):
                op = rv["ops"][rv["fields"].index("next_packet_id")]
                tgt = root_local(b, op)
        if tgt is None:
            inst.violation(b.path, "SyncFrame literal", "SyncFrame construction not found (anchor)")
            return
        somes = [(loc, "next_packet_id = Some(..)") for loc, kind, node in b.defs.get(tgt, []) if kind == "assign" and show(b.rvalue_expr(node["rv"])).startswith("Some{")]
        for loc, lab in somes:
            v = show(b.rvalue_expr(b.node_at(loc)["rv"]))
            if v != "Some{PacketSender::next_id(arg1.packet_sender)}":
                inst.violation(b.path, "resync id", "the resync id offered is `%s`, expected the sender's next_id" % v, at=b.span_at(loc))
        if not somes:
            inst.violation(b.path, "next_packet_id", "emit_sync_frame never offers a packet resync id (anchor)")
        cx.guard(inst, b, somes, [[r"ne\(PacketSender::base_id\(arg1\.packet_sender\),PacketSender::next_id\(arg1\.packet_sender\)\)",
                                   r"eq\(0,BinaryHeap::len\(arg1\.resend_queue\)\)", r"eq\(0,VecDeque::len\(arg1\.pending_queue\)\)"]],
                 construct="resync offered while fragments await sending", why="the receiver would skip a Reliable packet whose fragments are still to be (re)sent")


def inst_resend_pairing(cx, iid):
    R = cx.R
    with cx.instance(iid, "T2 PAIR", "a resent fragment is re-queued on every successful send; a first-time fragment is queued for resending iff resendable", floor=2) as inst:
        b = R.body(EMIT)
        fa = cx.fa(b)
        # resend loop: Ok edge of push(peeked) -> pop + push(Entry::new(popped.fragment_ref, ..))
        pk = r"BinaryHeap::peek\(arg1\.resend_queue\)"
        for loc, lab in call_sites(b, "DataFrameEmitter::push", pk):
            # locate the Ok edge target
            ok_bb = None
            for bb in b.reachable:
                t = b.term(bb)
                if t["k"] == "switch":
                    for y, lb in b.succ[bb]:
                        lits = fa.edge_lits.get((bb, y, lb[1]), [])
                        if any(re.fullmatch(r"is\(DataFrameEmitter::push\(.*%s.*\),Ok\)" % pk, l) for l in lits):
                            ok_bb = y
            if ok_bb is None:
                inst.violation(b.path, "Ok edge (resend loop)", "the Ok edge of the resend-loop push was not found (anchor)")
                continue
            pops = call_locs(b, "BinaryHeap::pop", r"arg1\.resend_queue")
            re_push = [l for l, t in b.calls("BinaryHeap::push") if re.search(r"resend_queue::Entry::new\(Option::unwrap\(BinaryHeap::pop\(arg1\.resend_queue\)\)\.fragment_ref,", show(b.call_expr(t)))]
            start = Loc(ok_bb, -1)
            inst.site(b, Loc(ok_bb, 0), "Ok edge of resend push")
            L = [L for L in b.loops() if ok_bb in L["body"]]
            exits = [Loc(L[0]["header"], 0)] if L else None
            if b.reach_exit_avoiding(start, re_push, exits) is not None:
                inst.violation(b.path, "resend entry dropped", "after a successful retransmission the fragment is not re-queued on every path: a lost retransmission would never be repeated", at=b.span_at(loc))
            if b.reach_exit_avoiding(start, pops, exits) is not None:
                inst.violation(b.path, "resend entry not popped", "after a successful retransmission the old entry stays at the head of the resend queue", at=b.span_at(loc))
        # pending loop: pop_front -> push to resend_queue on the entry.resend edge
        fr = r"VecDeque::front\(arg1\.pending_queue\)"
        pf = [l for l in call_locs(b, "VecDeque::pop_front", r"arg1\.pending_queue") if any(re.search(r"Option::unwrap\(VecDeque::pop_front", show(b.call_expr(t))) for _, t in b.calls("Option::unwrap"))]
        resend_true = None
        for bb in b.reachable:
            t = b.term(bb)
            if t["k"] == "switch":
                for y, lb in b.succ[bb]:
                    lits = fa.edge_lits.get((bb, y, lb[1]), [])
                    if lits == ["Option::unwrap(VecDeque::pop_front(arg1.pending_queue)).resend"]:
                        resend_true = y
        if resend_true is None:
            inst.violation(b.path, "entry.resend edge", "the `if entry.resend` edge after pop_front was not found (anchor)")
        else:
            pushes = [l for l, t in b.calls("BinaryHeap::push") if "VecDeque::pop_front(arg1.pending_queue)" in show(b.call_expr(t))]
            inst.site(b, Loc(resend_true, 0), "entry.resend edge after pending pop")
            L = [L for L in b.loops() if resend_true in L["body"]]
            exits = [Loc(min(L, key=lambda x: len(x["body"]))["header"], 0)] if L else None
            if b.reach_exit_avoiding(Loc(resend_true, -1), pushes, exits) is not None:
                inst.violation(b.path, "resendable fragment not queued", "a Persistent/Reliable fragment sent for the first time is not put on the resend queue on every path")


def inst_emit_guards(cx, iid):
    R = cx.R
    with cx.instance(iid, "T1 GUARD", "a packet is given an id only if the window has room and the receiver's allocation is not exceeded", floor=2) as inst:
        b = R.body(EP)
        sinks = [(l, "next_id bump") for l, node, ps in b.field_writes(r"arg1\.next_id")] + [(l, "window slot write") for l, node, ps in b.field_writes(r"arg1\.window\[.*\]")] + \
                [(l, "alloc +=") for l, node, ps in b.field_writes(r"arg1\.alloc")]
        if len(sinks) < 3:
            inst.violation(b.path, "id assignment sites", "expected the next_id bump, the window slot write and the alloc increment (anchor)")
        q = r"VecDeque::front\(arg1\.packet_send_queue\)@Some\.0\.data"
        cx.guard(inst, b, sinks, [[r"lt\(packet_id::sub\(arg1\.next_id,arg1\.base_id\),arg1\.window_size\)",
                                   r"le\(add\((arg1\.alloc,packet_sender::alloc_size\(\[T\]::len\(%s\)\)|packet_sender::alloc_size\(\[T\]::len\(%s\)\),arg1\.alloc)\),arg1\.max_alloc\)" % (q, q)]],
                 construct="id assigned beyond window or allocation", why="more than window_size packets, or more bytes than the peer accepted, would be outstanding", checked_before=True)
        for l, node, ps in b.field_writes(r"arg1\.next_id"):
            v = show(b.rvalue_expr(node["rv"])) if node["k"] == "assign" else show(b.call_expr(node))
            if v != "packet_id::add(arg1.next_id,1)":
                inst.violation(b.path, "next_id step", "next_id advances by `%s`" % v, at=b.span_at(l))
        for l, node, ps in b.field_writes(r"arg1\.alloc"):
            v = show(b.rvalue_expr(node["rv"]))
            if not re.fullmatch(rx_comm("add", r"arg1\.alloc", r"packet_sender::alloc_size\(\[T\]::len\(.*\)\)"), v):
                inst.violation(b.path, "alloc accounting", "alloc is updated by `%s`, expected alloc + alloc_size(len)" % v[:100], at=b.span_at(l))


def inst_readiness_siblings(cx, iid):
    """T4/T1x: the readiness tests at arrival (handle_datagram) are the same predicates as the tests
    at delivery / window advance (receive): channel ready iff lead == 0 or lead > distance from the
    CHANNEL base; window ready iff lead == 0 or lead > distance from the WINDOW base.  If arrival
    under-reports readiness, receive() never looks at the packet and the window later steps over it."""
    R = cx.R
    with cx.instance(iid, "T4 SIBLING + T1x", "arrival-time readiness flags use the same predicates as delivery and window advance", floor=2) as inst:
        b = R.body("half_connection::packet_receiver::PacketReceiver::handle_datagram")
        fa = cx.fa(b, kill_fields=False)
        pk = r"AssemblyWindow::try_add\(.*\)@Some\.0"
        ch_base = r"Option::unwrap_or\(arg1\.channels\[cast<usize>\(arg2\.channel_id\)\]\.base_id,arg1\.base_id\)"
        cl = r"cast<u32>\(%s\.channel_parent_lead\)" % pk
        wl = r"cast<u32>\(%s\.window_parent_lead\)" % pk
        cd = r"packet_id::sub\(arg2\.sequence_id,%s\)" % ch_base
        wd = r"packet_id::sub\(arg2\.sequence_id,arg1\.base_id\)"
        sets = [(l, "channel_ready_flags |= bit") for l, node, ps in b.field_writes(r"arg1\.channel_ready_flags") if show(b.rvalue_expr(node["rv"])).startswith("bitor(")]
        if len(sets) != 1:
            inst.violation(b.path, "channel_ready_flags set", "expected exactly one site raising channel_ready_flags in handle_datagram, found %d" % len(sets))
        cx.guard(inst, b, sets, [[r"eq\(0,%s\)" % cl], [r"lt\(%s,%s\)" % (cd, cl)]], construct="channel readiness test differs from the delivery test",
                 why="readiness must be measured against the channel base, like the delivery test in receive()", checked_before=True)
        wsets = [(l, "window_ready_flag = true") for l, node, ps in b.field_writes(r"arg1\.window_ready_flag") if show(b.rvalue_expr(node["rv"])) == "true"]
        if len(wsets) != 1:
            inst.violation(b.path, "window_ready_flag set", "expected exactly one site raising window_ready_flag in handle_datagram, found %d" % len(wsets))
        cx.guard(inst, b, wsets, [[r"eq\(0,%s\)" % wl], [r"lt\(%s,%s\)" % (wd, wl)]], construct="window readiness test differs from the advance test", checked_before=True)
        # exactness: the edges that skip the flag are taken only under the negation
        for rx_pos, rx_neg, nm in (((cl, cd), None, "channel"), ((wl, wd), None, "window")):
            lead, dist = rx_pos
            for bb in sorted(b.reachable):
                t = b.term(bb)
                if t["k"] != "switch":
                    continue
                for y, lab in b.succ[bb]:
                    lits = fa.edge_lits.get((bb, y, lab[1]), [])
                    for l in lits:
                        m1 = re.fullmatch(r"le\((%s),(.*)\)" % lead, l)
                        if m1 and not re.fullmatch(dist, m1.group(2)):
                            inst.violation(b.path, "%s readiness skipped on a different distance" % nm, "the %s-ready flag is withheld when lead <= `%s`, which is not the distance used at delivery time" % (nm, m1.group(2)[:90]))


def run(cx):
    from props.shared import pipeline_presence, ack_processing_presence
    pipeline_presence(cx, "C02.g")
    ack_processing_presence(cx, "C02.h")
    inst_readiness_siblings(cx, "C02.f")
    inst_parents(cx, "C02.a")
    inst_delivery_guards(cx, "C02.b")
    inst_resync_guard(cx, "C02.c")
    inst_resend_pairing(cx, "C02.d")
    inst_emit_guards(cx, "C02.e")
    # "delivered within bounded time": the retransmission interval of a lost fragment is bounded (capped back-off)
    from props.shared import resend_schedule
    resend_schedule(cx, "C02.u")
    # a genuine ack marks exactly the fragments its frame carried: a flag written for another fragment drops a lost
    # fragment of a Reliable packet from the resend queue for good
    from props.C04 import inst_fragment_flags
    inst_fragment_flags(cx, "C02.v")
    # "after which the sender reports nothing pending": every frame the receiver saw is acknowledged once
    from props.shared import ack_queue_discipline
    ack_queue_discipline(cx, "C02.w")
    from props.shared import receiver_flag_addressing
    receiver_flag_addressing(cx, "C02.x")
    from props.shared import resend_ref_in_own_frame
    resend_ref_in_own_frame(cx, "C02.y")
    from props.C11 import ack_advance_exact
    ack_advance_exact(cx, "C02.z")
    # the receiver's packet window is as wide as the sender's (config mirror): a narrower one drops reliable packets
    # whose frames are acknowledged
    from props.C07 import inst_config_mirror
    inst_config_mirror(cx, "C02.A")
    # a Reliable packet is also "skipped" when the receiver turns it into a data-less packet because its
    # allocation counter drifted (what is charged must be what is released, at both ends), when the frame
    # window refuses the sender's resynchronisation after a fully lost window, or when an id comparison
    # stops being modular
    from props.C06 import inst_release, inst_sender_alloc_pair
    inst_release(cx, "C02.i")
    inst_sender_alloc_pair(cx, "C02.j")
    from props.C11 import resync_acceptance
    resync_acceptance(cx, "C02.k")
    from props.idarith import id_arith_discipline
    id_arith_discipline(cx, "C02.l")
    from props.shared import half_connection_clock
    half_connection_clock(cx, "C02.m")
    from props.shared import resync_walk, window_walks
    resync_walk(cx, "C02.n")
    window_walks(cx, "C02.o")
    # a header bit that spills into a neighbouring field changes the parent leads a packet is delivered under
    from bits import check_headers
    check_headers(cx, "C02.p", "C02.q")
    from props.C11 import window_limited_still_syncs
    window_limited_still_syncs(cx, "C02.r")
    # a stale channel base marker left behind in the window makes a later packet of another channel look like a
    # delivered base: its Reliable parent is then taken as satisfied
    from props.C01 import inst_channel_markers
    inst_channel_markers(cx, "C02.s")
    from props.C06 import inst_sibling_accounting
    inst_sibling_accounting(cx, "C02.t")


SELFTEST = [
    {"name": "offer next_packet_id regardless of resend_queue.len()",
     "edits": [{"file": "src/half_connection/mod.rs", "old": "                   self.resend_queue.len() == 0 && self.pending_queue.len() == 0 {", "new": "                   self.pending_queue.len() == 0 {"}],
     "expect": ["C02.c"]},
    {"name": "deliver regardless of the channel parent lead",
     "edits": [{"file": "src/half_connection/packet_receiver/mod.rs", "old": "                    if channel_parent_lead == 0 || channel_parent_lead > channel_delta {\n                        // A dud entry", "new": "                    if channel_parent_lead == 0 || channel_parent_lead > channel_delta || true {\n                        // A dud entry"}],
     "expect": ["C02.b"]},
    {"name": "Persistent packets also become parents",
     "edits": [{"file": "src/half_connection/packet_sender.rs", "old": "                SendMode::Reliable => {\n                    self.window_parent_id = Some(sequence_id);", "new": "                SendMode::Reliable | SendMode::Persistent => {\n                    self.window_parent_id = Some(sequence_id);"}],
     "expect": ["C02.a"]},
]
