#!/bin/sh
# validate every /tmp/mut-C*/OUT/patchN.diff (+demoN.patch) -> /verif/.cache/seedval/<id>-<n>.json
# optional $1: egrep filter on the id (e.g. 'C0[1-4]b')
mkdir -p /verif/.cache/seedval
F=${1:-.}
ls /tmp/mut-C*/OUT/patch*.diff | while read p; do
  id=$(echo $p | sed 's#/tmp/mut-\(C[0-9]*[a-z]*\)/OUT/patch\([0-9]\).diff#\1-\2#')
  d=$(echo $p | sed 's#patch\([0-9]\).diff#demo\1.patch#')
  echo $id | grep -Eq "$F" || continue
  [ -f /verif/.cache/seedval/$id.json ] && continue
  [ -f $d ] || continue
  echo "$p $d $id"
done | xargs -P 3 -L 1 sh -c 'python3 /verif/tools/seeded.py validate $0 $1 $2 > /verif/.cache/seedval/$2.json 2>&1'
