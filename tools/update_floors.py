#!/usr/bin/env python3
"""Records, per rule instance, the number of sites matched on the current (reviewed) /repo tree into
/verif/floors.json.  Run by hand after reviewing a change of the rules; never at check time."""
import json, os, subprocess, glob
VERIF = os.path.dirname(os.path.dirname(os.path.abspath(__file__)))
floors = {}
for f in sorted(glob.glob(os.path.join(VERIF, "props", "C*.py"))):
    pid = os.path.basename(f)[:-3]
    subprocess.run([os.path.join(VERIF, "check"), pid, "quick"], cwd=VERIF, stdout=subprocess.DEVNULL)
    ev = json.load(open(os.path.join(VERIF, "evidence", pid + ".json")))
    for s in ev["coverage"]["samples"]:
        floors[s["instance"]] = s["sites_matched"]
json.dump({"_comment": "sites matched per instance on the reviewed tree; written by tools/update_floors.py, read by engine/rules.py", "floors": floors}, open(os.path.join(VERIF, "floors.json"), "w"), indent=1, sort_keys=True)
print(len(floors), "instances")
