import sys, os, io, contextlib
sys.path.insert(0, os.path.dirname(os.path.abspath(__file__)))
from extract import extract
from mirlib import Facts
from dump import dump
cfg = os.environ.get("CFG", "R")
data, meta = extract(os.environ.get("SRC", "/repo"), cfg)
f = Facts(data)
out = os.path.join(os.path.dirname(os.path.dirname(os.path.abspath(__file__))), ".cache", "dump", cfg)
os.makedirs(out, exist_ok=True)
for p in f.fns:
    buf = io.StringIO()
    with contextlib.redirect_stdout(buf):
        try:
            dump(f, p)
        except Exception as e:
            print("ERR", e)
    name = p.replace("/", "_").replace(" ", "_").replace("<", "(").replace(">", ")")[:180]
    open(os.path.join(out, name + ".txt"), "w").write(buf.getvalue())
print(len(f.fns), "dumped to", out)
