"""C09 — disconnect() flushes reliable data before both sides close (DESIGN.md §4 C09)."""
import re
from mirlib import show, Loc, dnf_holds
from rules import call_sites, call_locs, agg_sites, event_pushes, rx_comm

SCOPE = ("Decides the disconnect mechanism at both endpoints: the request is transmitted iff the signal is Now, or "
         "Flush with nothing pending, where 'pending' is a non-empty send queue, pending queue or resend queue; the "
         "API sets Flush for disconnect() and Now for disconnect_now() only on an active connection; on the "
         "disconnect branch received packets are delivered first, then a DisconnectFrame is sent, then the state "
         "becomes Closing with DISCONNECT_RESEND_COUNT retries at DISCONNECT_RESEND_INTERVAL_MS (10 x 2000 ms, "
         "budget (1+10) x 2 s = 22 s); the Closing timer resends only while retries remain and reports "
         "Error(Timeout) only afterwards; on receiving a disconnect the Active arm delivers received packets before "
         "Disconnect. Not decided: that Reliable packets arrive before the peer's Disconnect (needs C02's "
         "liveness); the 22 s bound as wall-clock behaviour.")

DECISION_POLARITY = {}   # fn -> (local of the decision flag, True when the flag means "disconnect now")

SIDES = [
    ("client::Client::step_if_active", "client", "UdpSocket::send"),
    ("server::Server::step_active_clients", "server", "UdpSocket::send_to"),
]


def run(cx):
    R = cx.R
    with cx.instance("C09.a", "T8 TABLE + T7", "disconnect_now = {Now: true, Flush: !is_send_pending(), None: false}; is_send_pending = any of the three queues non-empty; API sets the signal", floor=10) as inst:
        for fn, side, sendfn in SIDES:
            b = R.body(fn)
            fa = cx.fa(b)
            cand = None
            for l in range(len(b.locals)):
                if b.locals[l]["ty"] != "bool" or b.is_single_def(l):
                    continue
                ds = b.defs.get(l, [])
                vals = []
                for loc, kind, node in ds:
                    vals.append((loc, show(b.rvalue_expr(node["rv"])) if kind == "assign" else show(b.call_expr(node))))
                if any("is_send_pending" in v for _, v in vals):
                    cand = (l, vals)
            if not cand:
                inst.violation(b.path, "disconnect_now", "no disconnect decision computed from is_send_pending found (anchor)")
                continue
            l, vals = cand
            table = {}
            for loc, v in vals:
                alts = fa.at(loc)
                for mode, rx in (("Now", r"is\([\w:.@\[\](),]*disconnect_signal@Some\.0,Now\)"), ("Flush", r"is\([\w:.@\[\](),]*disconnect_signal@Some\.0,Flush\)"), ("None", r"is\([\w:.@\[\](),]*disconnect_signal,None\)")):
                    g, _ = dnf_holds(alts, [[rx]])
                    if g:
                        table[mode] = v
                inst.site(b, loc, "%s: disconnect_now = %s" % (side, v[:80]))
            ok = table.get("Now") == "true" and table.get("None") == "false" and re.fullmatch(r"not\(HalfConnection::is_send_pending\([\w:.@\[\](),]*half_connection\)\)", table.get("Flush", ""))
            # the same decision with the opposite polarity (`stay_active`): {Now: false, Flush: is_send_pending(), None: true}
            neg = table.get("Now") == "false" and table.get("None") == "true" and re.fullmatch(r"HalfConnection::is_send_pending\([\w:.@\[\](),]*half_connection\)", table.get("Flush", ""))
            if neg:
                ok = True
            DECISION_POLARITY[fn] = (l, not neg)
            if not ok:
                inst.violation(b.path, "disconnect_now table", "%s decides to disconnect as %s; expected {Now: true, Flush: !is_send_pending(), None: false}" % (side, table))
            # the DisconnectFrame is sent only under the decision
            sends = [(loc, lab) for loc, lab in call_sites(b, sendfn) if "DisconnectFrame" in show(b.call_expr(b.node_at(loc))) or True]
            sends = [(loc, lab) for loc, lab in sends if "Frame::DisconnectFrame" in show(b.call_expr(b.node_at(loc))) or "request" in lab]
            if not sends:
                # the request bytes may be a local: accept any send in this body
                sends = call_sites(b, sendfn)
            cx.guard(inst, b, sends, [[r"!var%d" % l if neg else r"var%d" % l]], construct="disconnect request without decision", why="the request must go out only when disconnect_now holds")
        isp = R.body("HalfConnection::is_send_pending")
        from rules import return_alts
        from mirlib import alt_satisfies
        fal = return_alts(cx, isp, False)
        if not fal:
            inst.violation(isp.path, "return false", "is_send_pending has no false return (anchor)")
        for loc, alt in fal:
            inst.site(isp, loc, "is_send_pending -> false", {"under": sorted(alt)})
            if not alt_satisfies(alt, [r"eq\(0,PacketSender::pending_count\(arg1\.packet_sender\)\)", r"eq\(0,VecDeque::len\(arg1\.pending_queue\)\)", r"eq\(0,BinaryHeap::len\(arg1\.resend_queue\)\)"]):
                inst.violation(isp.path, "is_send_pending false with data queued", "'nothing pending' is reported although one of send queue / pending queue / resend queue may be non-empty", at=isp.span_at(loc), detail={"facts": sorted(alt)})
        pc = R.body("PacketSender::pending_count")
        if show(pc.local_expr(0)) != "VecDeque::len(arg1.packet_send_queue)":
            inst.violation(pc.path, "pending_count", "pending_count is `%s`, not the send queue length" % show(pc.local_expr(0)))
        for fn, val in (("client::Client::disconnect", "Flush"), ("client::Client::disconnect_now", "Now"),
                        ("server::remote_client::RemoteClient::disconnect", "Flush"), ("server::remote_client::RemoteClient::disconnect_now", "Now")):
            b = R.body(fn)
            ws = [(l, node) for l, node, ps in b.field_writes(r"arg1\.state@Active\.0\.disconnect_signal")]
            for l, node in ws:
                v = show(b.rvalue_expr(node["rv"]))
                inst.site(b, l, "%s: disconnect_signal = %s" % (fn.split("::")[-1], v))
                if v != "Some{DisconnectMode::%s{}}" % val:
                    inst.violation(b.path, "disconnect_signal", "%s sets the signal to `%s`, expected Some(%s)" % (fn.split("::")[-1], v, val), at=b.span_at(l))
            if len(ws) != 1:
                inst.violation(b.path, "disconnect_signal", "%s should set the signal exactly once on an active connection" % fn.split("::")[-1])
            else:
                cx.guard(inst, b, [(ws[0][0], "set disconnect_signal")], [[r"is\(arg1\.state,Active\)"]], construct="signal outside Active")
    with cx.instance("C09.b", "T2 order", "disconnect branch: deliver received packets, send DisconnectFrame, then enter Closing with the retry budget", floor=4) as inst:
        for fn, side, sendfn in SIDES:
            b = R.body(fn)
            closing = [(l, ps) for l, s in b.assigns() if s["pl"]["p"] for ps in [show(b.place_expr(s["pl"]))] if ps.endswith("state") and show(b.rvalue_expr(s["rv"])).startswith("State::Closing")]
            if len(closing) != 1:
                inst.violation(b.path, "state = Closing", "expected one transition to Closing in %s" % fn)
                continue
            cl = closing[0][0]
            fa = cx.fa(b)
            recv = [l for l in call_locs(b, "HalfConnection::receive")]
            sends = call_locs(b, sendfn)
            inst.site(b, cl, side + ": state = Closing")
            # receive precedes the send, send precedes the state change (on the disconnect branch)
            dsend = [l for l in sends if b.reach_from_entry_avoiding(cl, [l]) is None or True]
            w = b.reach_from_entry_avoiding(cl, sends)
            if w is not None:
                inst.violation(b.path, "Closing without request", "%s enters Closing without transmitting a DisconnectFrame" % side, at=b.span_at(cl))
            for s in sends:
                if b.reach_from_entry_avoiding(s, recv) is not None:
                    inst.violation(b.path, "request before delivery", "%s transmits the disconnect request before delivering received packets" % side, at=b.span_at(s))
                inst.site(b, s, side + ": send DisconnectFrame")
                txt = show(b.call_expr(b.node_at(s)))
                if "DisconnectFrame" not in txt and side == "server":
                    inst.violation(b.path, "request frame", "the frame sent on the disconnect branch is not a DisconnectFrame", at=b.span_at(s))
            if side == "client":
                ok = False
                for loc, st in b.assigns():
                    rv = st["rv"]
                    if rv["k"] == "agg" and rv.get("adt", "").endswith("ClosingState"):
                        f = {n: show(b.operand_expr(o)) for n, o in zip(rv["fields"], rv["ops"])}
                        ok = "DisconnectFrame" in f.get("request_bytes", "")
                        inst.site(b, loc, "ClosingState{request_bytes: %s}" % f.get("request_bytes", "")[:60])
                if not ok:
                    inst.violation(b.path, "ClosingState.request_bytes", "the request resent while Closing is not the serialised DisconnectFrame")
    with cx.instance("C09.c", "T9 CONST", "10 retries at 2000 ms at both ends: both sides terminate within (1+10) x 2 s of the first transmission", floor=2) as inst:
        for side in ("client", "server"):
            n = R.const_int(side + "::DISCONNECT_RESEND_COUNT")
            t = R.const_int(side + "::DISCONNECT_RESEND_INTERVAL_MS")
            inst.site("<const>", None, "%s: %d retries x %d ms -> budget %d ms" % (side, n, t, (n + 1) * t))
            if (n, t) != (10, 2000):
                inst.violation(side + "::DISCONNECT_RESEND_*", "disconnect retry budget", "%s retries %d x %d ms; the property states 10 x 2000 ms (22 s)" % (side, n, t))
    with cx.instance("C09.c2", "T1 GUARD", "Closing timer: resend only while retries remain and when due; Error(Timeout) only after all retries (shared shape with C10.d)", floor=4) as inst:
        b = R.body("client::Client::handle_events")
        fa = cx.fa(b)
        sends = [(loc, "client resend in Closing") for loc, lab in call_sites(b, "UdpSocket::send") if dnf_holds(fa.at(loc), [[r"is\(arg1\.state,Closing\)"]])[0]]
        seen = cx.guard_cases(inst, b, event_pushes(b, r"Error\{.*Timeout"),
                              [("Closing", r"is\(arg1\.state,Closing\)", [r"eq\(0,arg1\.state@Closing\.0\.resend_count\)", r"le\(arg1\.state@Closing\.0\.resend_time_ms,arg2\)"])],
                              "client disconnect timeout guard", why="the closing side may give up only after all retries are used and the last interval elapsed", fa=fa)
        if not sends or "Closing" not in seen:
            inst.violation(b.path, "Closing arm", "the Closing arm of the client's timer has no resend or no timeout (anchor)")
        cx.guard(inst, b, sends, [[r"ne\(0,[\w.@]+\.resend_count\)", r"le\([\w.@]+\.resend_time_ms,arg2\)"]], construct="client disconnect resend guard")
        he = R.body("server::Server::handle_event")
        fah = cx.fa(he)
        sends = [(loc, "server resend in Closing") for loc, lab in call_sites(he, "UdpSocket::send_to") if dnf_holds(fah.at(loc), [[r"is\(.*\.state,Closing\)"]])[0]]
        tos = [(loc, "server Error(Timeout) in Closing") for loc, lab in event_pushes(he, r"Error\{.*Timeout") if dnf_holds(fah.at(loc), [[r"is\(.*\.state,Closing\)"]])[0]]
        if not sends or not tos:
            inst.violation(he.path, "Closing arm", "the Closing arm of the server's timer has no resend or no timeout (anchor)")
        cx.guard(inst, he, sends, [[r"ne\(0,arg2\.count\)"]], construct="server disconnect resend guard")
        cx.guard(inst, he, tos, [[r"eq\(0,arg2\.count\)"]], construct="server disconnect timeout guard")
        kind_rx = r"eq\((EventType::ResendDisconnect\{\},arg2\.kind|arg2\.kind,EventType::ResendDisconnect\{\})\)"
        cx.guard(inst, he, sends + tos, [[kind_rx]], construct="disconnect retry budget consumed by a foreign timer",
                 why="a stale handshake timer firing in Closing would run a second, shorter retry chain and report Timeout before 22 s")
        # each retry is counted and the next one is scheduled one interval later (not, say, one linger period later)
        from rules import rx_comm
        srv_sends = list(sends)
        tms = [l for l, node, ps in he.field_writes(r"arg2\.time") if node["k"] == "assign" and re.fullmatch(rx_comm("add", "arg3", r"server::DISCONNECT_RESEND_INTERVAL_MS"), show(he.rvalue_expr(node["rv"])))]
        decs = [l for l, node, ps in he.field_writes(r"arg2\.count") if node["k"] == "assign" and show(he.rvalue_expr(node["rv"])) == "sub(arg2.count,1)"]
        cx.followed_by(inst, he, srv_sends, tms, "server disconnect retry not re-armed one interval later", "event.time = now + DISCONNECT_RESEND_INTERVAL_MS")
        cx.followed_by(inst, he, srv_sends, decs, "server disconnect retry not counted", "event.count -= 1")
        for l, node, ps in he.field_writes(r"arg2\.time"):
            if dnf_holds(fah.at(l), [[r"is\(.*\.state,Closing\)"]])[0] and l not in tms:
                inst.violation(he.path, "Closing timer re-armed at another time", "the disconnect retry timer is re-armed at `%s`" % show(he.rvalue_expr(node["rv"]))[:100], at=he.span_at(l))
        cl_sends = [(loc, "client resend in Closing") for loc, lab in call_sites(b, "UdpSocket::send") if dnf_holds(fa.at(loc), [[r"is\(arg1\.state,Closing\)"]])[0]]
        ctm = [l for l, node, ps in b.field_writes(r"arg1\.state@Closing\.0\.resend_time_ms") if node["k"] == "assign" and re.fullmatch(rx_comm("add", "arg2", r"client::DISCONNECT_RESEND_INTERVAL_MS"), show(b.rvalue_expr(node["rv"])))]
        cdec = [l for l, node, ps in b.field_writes(r"arg1\.state@Closing\.0\.resend_count") if node["k"] == "assign" and show(b.rvalue_expr(node["rv"])) == "sub(arg1.state@Closing.0.resend_count,1)"]
        cx.followed_by(inst, b, cl_sends, ctm, "client disconnect retry not re-armed one interval later", "resend_time_ms = now + DISCONNECT_RESEND_INTERVAL_MS")
        cx.followed_by(inst, b, cl_sends, cdec, "client disconnect retry not counted", "resend_count -= 1")
        for l, node, ps in b.field_writes(r"arg1\.state@Closing\.0\.resend_time_ms"):
            if l not in ctm:
                inst.violation(b.path, "Closing timer re-armed at another time", "the client's disconnect retry is re-armed at `%s`" % show(b.rvalue_expr(node["rv"]))[:100], at=b.span_at(l))
        for loc, lab in sends:
            if "DisconnectFrame" not in show(he.call_expr(he.node_at(loc))):
                inst.violation(he.path, "server resend frame", "the frame resent while Closing is not a DisconnectFrame", at=he.span_at(loc))
    with cx.instance("C09.d", "T2 order", "on a peer's disconnect the Active arm delivers received packets before Disconnect", floor=2) as inst:
        for fn in ("client::Client::handle_disconnect", "server::Server::handle_disconnect"):
            b = R.body(fn)
            fa = cx.fa(b, kill_fields=False)
            for loc, lab in event_pushes(b, r"Event::Disconnect"):
                act, _ = dnf_holds(fa.at(loc), [[r"is\([\w:.@\[\](),]*state,Active\)"]])
                if act:
                    cx.preceded_by(inst, b, [(loc, "Disconnect in Active arm")], call_locs(b, "HalfConnection::receive"), "Disconnect before delivery", "HalfConnection::receive(sink)")
            # a disconnect request is acknowledged in every state but Pending and Fin: any path through the handler
            # that sends nothing takes an edge on which the state is known to be Pending or Fin
            acks = [l for l in call_locs(b, "UdpSocket::send") + call_locs(b, "UdpSocket::send_to")]
            fe = cx.fa(b)
            quiet = [k for k, lits in fe.edge_lits.items() if any(re.fullmatch(r"is\([\w:.@\[\](),]*state,(Pending|Fin)\)", x) for x in lits)]
            # server: an unknown address has no client at all
            quiet += [k for k, lits in fe.edge_lits.items() if any(re.fullmatch(r"is\(HashMap::get\(arg1\.clients,arg2\),None\)", x) for x in lits)]
            for l in acks:
                inst.site(b, l, "DisconnectAck send")
            w = b.reach_exit_avoiding_flags(0, acks, fe, blocked_edges=quiet) if acks else [0]
            if w is not None:
                inst.violation(b.path, "DisconnectAck", "a disconnect request can go unacknowledged in a state other than Pending/Fin", detail={"offending_path": b.path_spans(w)[:16]})


_run_core = run


def run(cx):
    _run_core(cx)
    from props.shared import leave_implies_terminal, dispatch_table
    dispatch_table(cx, "C09.e", only={"DisconnectFrame", "DisconnectAckFrame"})
    leave_implies_terminal(cx, "C09.f")
    # "flushed" is read off the three queues: a resend entry dropped without being re-queued, or a fragment
    # wrongly read as acknowledged, empties them with reliable data undelivered
    from props.C02 import inst_resend_pairing
    inst_resend_pairing(cx, "C09.g")
    from props.C04 import inst_fragment_flags
    inst_fragment_flags(cx, "C09.h")
    # a resynchronisation offered while fragments still await (re)sending makes the receiver skip a Reliable packet,
    # after which the queues drain and the flush "completes"
    from props.C02 import inst_resync_guard
    inst_resync_guard(cx, "C09.i")
    from props.C02 import inst_delivery_guards
    inst_delivery_guards(cx, "C09.j")
    with cx.instance("C09.l", "T2 PAIR", "Client::disconnect / disconnect_now while still connecting end the connection at once (state = Fin): no Connect can follow the application's disconnect", floor=2) as inst:
        for fn in ("client::Client::disconnect", "client::Client::disconnect_now"):
            db = cx.R.body(fn)
            dfa = cx.fa(db)
            fins = [l for l, n, ps in db.field_writes(r"arg1\.state") if n["k"] == "assign" and show(db.rvalue_expr(n["rv"])).startswith("State::Fin")]
            hit = False
            for (bb, y, lab), lits in dfa.edge_lits.items():
                if "is(arg1.state,Pending)" in lits:
                    hit = True
                    inst.site(db, Loc(y, 0), "%s: Pending arm" % fn.split("::")[-1])
                    if db.reach_exit_avoiding(Loc(y, -1), fins) is not None:
                        inst.violation(db.path, "Pending arm", "%s leaves a connecting client Pending: the handshake goes on and a Connect is reported after the application disconnected" % fn.split("::")[-1])
            if not hit:
                inst.violation(db.path, "Pending arm", "no Pending arm found (anchor)")
    from props.shared import heap_order
    heap_order(cx, "C09.k", ["event"])
    # the 22 s retry budget is measured on the endpoint's clock
    from props.shared import clock_exact
    clock_exact(cx, "C09.s")
    # a Reliable packet's channel parent is named by the lead in the datagram header: a lead that the chosen header
    # width cannot hold goes out as 0, the dependent packet is delivered first and the parent is dropped as surpassed
    from bits import check_headers
    check_headers(cx, "C09.t", "C09.u")
    # the flush waits for acknowledgement: a receiver that refunds less than it charged turns a later Reliable packet
    # into a dud while its frames are still acknowledged; and the server's disconnect retries run on the timer that was
    # scheduled for them
    from props.C06 import inst_release
    inst_release(cx, "C09.v")
    from props.C17 import timers_scheduled
    timers_scheduled(cx, "C09.w")
    from props.C07 import inst_config_mirror
    inst_config_mirror(cx, "C09.x")
    # a resend entry must name the frame its datagram actually left in: a fragment closed into the previous frame
    # but logged under the next one is never resent when that frame is lost, and the flush never completes
    from props.shared import resend_ref_in_own_frame
    resend_ref_in_own_frame(cx, "C09.m")
    # the flush waits for acknowledgement, not delivery: a packet admitted against less than the receiver reserves for
    # it is refused there (dud), acknowledged anyway, and the disconnect goes out with the Reliable packet undelivered
    from props.C06 import inst_sender_alloc_pair
    inst_sender_alloc_pair(cx, "C09.n")
    from props.C06 import inst_sibling_accounting
    inst_sibling_accounting(cx, "C09.o")
    # the tail of a flushed stream is delivered only if the receiver's scan bound follows the ids across the wrap
    from props.idarith import id_arith_discipline
    id_arith_discipline(cx, "C09.p")
    from props.shared import window_walks, removal_implies_fin
    window_walks(cx, "C09.q")
    removal_implies_fin(cx, "C09.r")


SELFTEST = [
    {"name": "client no longer acknowledges repeated disconnect requests while Closed",
     "edits": [{"file": "src/client/mod.rs", "old": "                // Acknowledge subsequent disconnection requests\n                let reply = frame::Frame::DisconnectAckFrame(frame::DisconnectAckFrame {});\n                let _ = self.socket.send(&reply.write());\n", "new": "                // Acknowledge subsequent disconnection requests\n"}],
     "expect": ["C09.d"]},
    {"name": "treat DisconnectMode::Flush like Now (client)",
     "edits": [{"file": "src/client/mod.rs", "old": "Some(DisconnectMode::Flush) => !state.half_connection.is_send_pending(),", "new": "Some(DisconnectMode::Flush) => true,"}],
     "expect": ["C09.a"]},
    {"name": "is_send_pending ignores the resend queue",
     "edits": [{"file": "src/half_connection/mod.rs", "old": "self.packet_sender.pending_count() != 0 || self.pending_queue.len() != 0 || self.resend_queue.len() != 0", "new": "self.packet_sender.pending_count() != 0 || self.pending_queue.len() != 0"}],
     "expect": ["C09.a"]},
]
