#!/usr/bin/env python3
"""Re-runs the registered checks against every kept seeded change (seeded/<id>/patch.diff applied to /repo and
undone straight afterwards) and refreshes meta.json's caught_by; prints the changes the own property's check misses."""
import json, os, sys
VERIF = os.path.dirname(os.path.dirname(os.path.abspath(__file__)))
sys.path.insert(0, os.path.join(VERIF, "tools"))
import seeded
root = os.path.join(VERIF, "seeded")
only = set(sys.argv[1:])
missed = []
for d in sorted(os.listdir(root)):
    mp = os.path.join(root, d, "meta.json")
    if not os.path.exists(mp) or (only and d not in only):
        continue
    m = json.load(open(mp))
    res = seeded.check(os.path.join(root, d, "patch.diff"))
    if "error" in res:
        print(d, "ERROR", res["error"]); continue
    m["caught_by"] = res["fired"]
    m["caught_by_own_property_check"] = m["property"] in res["fired"]
    json.dump(m, open(mp, "w"), indent=1)
    print(d, "own" if m["caught_by_own_property_check"] else "MISSED-BY-OWN", {k: sorted({x.split(" @ ")[0] for x in v}) for k, v in res["fired"].items()}, flush=True)
    if not m["caught_by_own_property_check"]:
        missed.append(d)
print("missed by own property's check:", missed)
