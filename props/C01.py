"""C01 — per-channel delivery is in order, at most once, byte-exact (DESIGN.md §4 C01)."""
import re
from mirlib import show, Loc, dnf_holds
from rules import call_sites, call_locs, agg_sites, rx_comm, return_alts
from loops import cycle_avoiding
from domain import BitWidth

SCOPE = ("Decides necessary mechanisms on every path: a data frame's datagrams reach the packet window only when "
         "the frame id lies inside the frame receive window and after it was marked seen (which advances the "
         "window past it, so a duplicate or replayed frame is refused); the frame window only moves forward by "
         "1..size; a datagram reaches reassembly only if validated, inside the packet window and not older than "
         "its channel's base (exact: the refusing exits are taken only under the negations); a Closed slot is "
         "never re-opened or written and every completed packet closes its slot; delivery walks ids upward from "
         "base_id to end_id, and every delivered packet clears its data flag and moves the channel base past it; no "
         "frame is parsed unless its CRC matches; packet-id arithmetic is wrapping op & MASK over a 20-bit space "
         "with the per-frame datagram cap keeping ids unambiguous. Not decided: that these mechanisms suffice over "
         "all histories (window arithmetic across wrap-around, resend/resync interaction).")

HD = "half_connection::HalfConnection::handle_data_frame"
PR = "half_connection::packet_receiver::PacketReceiver::"
AW = "half_connection::packet_receiver::assembly_window::AssemblyWindow::"


def inst_frame_window(cx, iid):
    R = cx.R
    with cx.instance(iid, "T1 GUARD + T2 PAIR", "datagrams of a frame are handled only inside the frame window and after mark_seen of the same id", floor=1) as inst:
        b = R.body(HD)
        sinks = call_sites(b, "PacketReceiver::handle_datagram")
        cx.guard(inst, b, sinks, [[r"FrameAckQueue::window_contains\(arg1\.frame_ack_queue,arg2\.sequence_id\)"]], construct="handle_datagram without window test",
                 why="a duplicated frame's datagrams would be re-offered to the packet window")
        ms = call_locs(b, "FrameAckQueue::mark_seen", r"arg1\.frame_ack_queue,arg2\.sequence_id,")
        cx.preceded_by(inst, b, sinks, ms, "handle_datagram before mark_seen", "FrameAckQueue::mark_seen(frame.sequence_id, ..)")


# the window test, as a call of the helper or written out at the call site
CONTAINS = [[r"ReceiveWindow::contains\(arg1\.receive_window,arg2\)"], [r"lt\(u32::wrapping_sub\(arg2,arg1\.receive_window\.base_id\),arg1\.receive_window\.size\)"]]


def inst_receive_window(cx, iid):
    R = cx.R
    with cx.instance(iid, "T7 SHAPE + T1", "ReceiveWindow: contains == wrapping_sub(id, base) < size; mark_seen advances past the id; advance only by 0 < delta <= size", floor=4) as inst:
        c = R.body("ReceiveWindow::contains")
        e = show(c.local_expr(0))
        inst.site(c, None, "contains = " + e)
        if e != "lt(u32::wrapping_sub(arg2,arg1.base_id),arg1.size)":
            inst.violation(c.path, "contains", "ReceiveWindow::contains is `%s`, expected wrapping_sub(frame_id, base_id) < size" % e)
        wc = R.body("FrameAckQueue::window_contains")
        e = show(wc.local_expr(0))
        inst.site(wc, None, "window_contains = " + e)
        if e != "ReceiveWindow::contains(arg1.receive_window,arg2)":
            inst.violation(wc.path, "window_contains", "FrameAckQueue::window_contains is `%s`" % e)
        m = R.body("FrameAckQueue::mark_seen")
        adv = call_sites(m, "ReceiveWindow::advance")
        for loc, lab in adv:
            t = m.node_at(loc)
            a = show(m.operand_expr(t["args"][1]))
            inst.site(m, loc, "advance(" + a + ")")
            if a != "u32::wrapping_add(arg2,1)":
                inst.violation(m.path, "advance argument", "mark_seen advances the window to `%s`, expected frame_id + 1" % a, at=m.span_at(loc))
        if not adv:
            inst.violation(m.path, "advance", "mark_seen no longer advances the receive window: replayed frames stay acceptable")
        cx.guard(inst, m, adv, CONTAINS, construct="advance outside window")
        # every push/bit update in mark_seen is under contains too
        eff = call_sites(m, "VecDeque::push_back") + [(l, "write " + ps) for l, node, ps in m.field_writes(r".*\.(bitfield|nonce)")]
        cx.guard(inst, m, eff, CONTAINS, construct="ack state updated outside window")
        # on the contains edge advance happens on all paths: from entry, every path that passes the true edge reaches advance
        a = R.body("ReceiveWindow::advance")
        ws = [(l, "write base_id") for l, node, ps in a.field_writes(r"arg1\.base_id")]
        cx.guard(inst, a, ws, [[r"ne\(0,u32::wrapping_sub\(arg2,arg1\.base_id\)\)", r"le\(u32::wrapping_sub\(arg2,arg1\.base_id\),arg1\.size\)"]],
                 construct="window moved backwards or too far", why="the frame window may only move forward by 1..size")
        for l, lab in ws:
            v = show(a.rvalue_expr(a.node_at(l)["rv"]))
            if v != "arg2":
                inst.violation(a.path, "advance value", "advance writes `%s`" % v, at=a.span_at(l))


def inst_handle_datagram(cx, iid):
    R = cx.R
    with cx.instance(iid, "T1x EXACT-GUARD", "try_add requires datagram_is_valid, sub(seq,base) < window and not (sub(seq,base) < sub(channel_base,base)); refusals only under the negations", floor=1) as inst:
        b = R.body(PR + "handle_datagram")
        sinks = call_sites(b, "AssemblyWindow::try_add")
        ch = r"packet_id::sub\(Option::unwrap_or\(arg1\.channels\[cast<usize>\(arg2\.channel_id\)\]\.base_id,arg1\.base_id\),arg1\.base_id\)"
        sq = r"packet_id::sub\(arg2\.sequence_id,arg1\.base_id\)"
        cx.guard(inst, b, sinks, [[r"packet_receiver::datagram_is_valid\(arg2\)", r"lt\(%s,arg1\.receive_window_size\)" % sq, r"le\(%s,%s\)" % (ch, sq)]],
                 construct="try_add without window/channel/validity guard", why="a datagram outside the packet window or older than its channel base would be (re)delivered")
        # exactness: each early return (a Return reached without try_add) is under the negation of one clause
        fa = cx.fa(b)
        tl = [l for l, _ in sinks]
        ok_neg = [r"!packet_receiver::datagram_is_valid\(arg2\)", r"le\(arg1\.receive_window_size,%s\)" % sq, r"lt\(%s,%s\)" % (sq, ch)]
        # blocks from which the return is reached without passing try_add: find the switch edges leading there
        n = 0
        for bb in sorted(b.reachable):
            t = b.term(bb)
            if t["k"] != "switch":
                continue
            for y, lab in b.succ[bb]:
                # does edge (bb->y) lead to return without any path to try_add?
                if _reaches(b, y, {l.bb for l in tl}):
                    continue
                if not _reaches(b, bb, {l.bb for l in tl}):
                    continue  # already past the decision
                lits = fa.edge_lits.get((bb, y, lab[1]), [])
                n += 1
                inst.site(b, Loc(bb, len(b.stmts(bb))), "refusing edge: " + " ".join(lits)[:100])
                if not any(re.fullmatch(rx, l) for rx in ok_neg for l in lits):
                    inst.violation(b.path, "over-rejection", "handle_datagram drops a datagram on `%s`, which is not the negation of a required clause (valid datagrams would be lost: breaks delivery)" % " ∧ ".join(lits)[:160],
                                   at=sp(b, bb))
        if n != 3:
            inst.violation(b.path, "refusing edges", "expected exactly three refusing edges before try_add, found %d" % n)


def sp(b, bb):
    from mirlib import sp_str
    return sp_str(b.term(bb).get("sp"))


def _reaches(b, start, targets):
    seen = set()
    st = [start]
    while st:
        x = st.pop()
        if x in targets:
            return True
        if x in seen:
            continue
        seen.add(x)
        for y, _ in b.succ[x]:
            st.append(y)
    return False


def inst_try_add_arms(cx, iid):
    R = cx.R
    with cx.instance(iid, "T1/T3 arm purity + T2", "Closed arm of try_add writes nothing and returns None; every Some(Packet) return closes the slot", floor=3) as inst:
        b = R.body(AW + "try_add")
        fa = cx.fa(b)
        # writes to self under the Closed fact
        nclosed = 0
        for loc, s in b.assigns():
            if s["pl"]["p"]:
                ps = show(b.place_expr(s["pl"]))
                if ps.startswith("arg1"):
                    g, _ = dnf_holds(fa.at(loc), [[r"is\(arg1\.window\[arg2\],Closed\)"]])
                    if g:
                        inst.violation(b.path, "write in Closed arm", "the Closed arm of try_add writes `%s`: an already received or rejected packet id is re-opened" % ps, at=b.span_at(loc))
        for loc, t in b.calls():
            g, _ = dnf_holds(fa.at(loc), [[r"is\(arg1\.window\[arg2\],Closed\)"]])
            if g:
                sn = R.short(t.get("fn") or "")
                if not sn.startswith("mem::drop") and "drop" not in sn:
                    inst.violation(b.path, "call in Closed arm", "the Closed arm of try_add calls %s" % sn, at=b.span_at(loc))
        for loc, kind, node in b.defs.get(0, []):
            if kind == "assign":
                v = show(b.rvalue_expr(node["rv"]))
                g, _ = dnf_holds(fa.at(loc), [[r"is\(arg1\.window\[arg2\],Closed\)"]])
                if g:
                    nclosed += 1
                    inst.site(b, loc, "Closed arm returns " + v)
                    if v != "None{}":
                        inst.violation(b.path, "Closed arm return", "the Closed arm returns `%s`" % v[:60], at=b.span_at(loc))
        if nclosed != 1:
            inst.violation(b.path, "Closed arm", "expected exactly one return in the Closed arm, found %d" % nclosed)
        # Some(Packet) => slot becomes Closed
        somes = [(loc, "return Some(Packet)") for loc, kind, node in b.defs.get(0, []) if kind == "assign" and node["rv"]["k"] == "agg" and node["rv"].get("variant") == "Some"]
        closes = [l for l, node, ps in b.field_writes(r"arg1\.window\[arg2\]") if node["k"] == "assign" and show(b.rvalue_expr(node["rv"])).startswith("WindowEntry::Closed")]
        closes += [l for l, t in b.calls("mem::replace") if "WindowEntry::Closed" in show(b.call_expr(t)) and "arg1.window[arg2]" in show(b.call_expr(t))]
        if len(somes) < 3:
            inst.violation(b.path, "Some returns", "expected three Some(Packet) returns (dud, single fragment, completed), found %d" % len(somes))
        cx.preceded_by(inst, b, somes, closes, "packet produced without closing its slot", "window[idx] = Closed(..)")
        # what a produced packet carries: a datagram's own bytes only when it is the packet's only fragment
        # (fragment_id_last == 0); otherwise the finished reassembly buffer; a dud carries nothing
        for loc, kind, node in b.defs.get(0, []):
            if kind != "assign" or node["rv"]["k"] != "agg" or node["rv"].get("variant") != "Some":
                continue
            pe = b.operand_expr(node["rv"]["ops"][0])
            if pe[0] != "agg" or not pe[1].endswith("Packet") or len(pe) < 4 or "data" not in pe[3]:
                inst.violation(b.path, "Some(Packet) shape", "a produced packet is not a Packet literal: %s" % show(pe)[:80], at=b.span_at(loc))
                continue
            dv = show(pe[2][pe[3].index("data")])
            inst.site(b, loc, "Packet.data = " + dv[:70])
            if dv == "None{}":
                continue
            if dv == "Some{arg3.data}":
                cx.guard(inst, b, [(loc, "Some(Packet{data: datagram.data})")], [[r"eq\(0,arg3\.fragment_id_last\)"]],
                         construct="datagram bytes delivered as a whole packet",
                         why="only a packet that consists of one fragment may be delivered from the datagram's own bytes; a last fragment that arrives first is not the packet")
            elif re.fullmatch(r"Some\{FragmentBuffer::finalize\(.*asm_buffer\)\}", dv):
                cx.guard(inst, b, [(loc, "Some(Packet{data: finalize()})")], [[r"FragmentBuffer::is_finished\(.*asm_buffer\)"]],
                         construct="reassembly buffer delivered before it is complete",
                         why="the reassembly buffer may be handed on only once every fragment has been written")
            else:
                inst.violation(b.path, "packet payload", "a produced packet carries `%s`: neither the single fragment's bytes, nor the finished reassembly buffer, nor nothing (dud)" % dv[:100], at=b.span_at(loc))


def inst_receive_walk(cx, iid):
    R = cx.R
    with cx.instance(iid, "T2/T7", "receive walks ids upward from base_id to end_id; each delivery clears the data flag and moves the channel base past the packet", floor=5) as inst:
        b = R.body(PR + "receive")
        Ls = b.loops()
        if len(Ls) != 2:
            inst.violation(b.path, "loops", "expected two id-walking loops in receive, found %d" % len(Ls))
        bw = BitWidth(R)
        from loops import classify
        for L in Ls:
            info = classify(b, L, bw, cx.fa(b))
            inst.site(b, Loc(L["header"], 0), "%s %s %s" % (info.cls, info.desc, info.detail.get("step")))
            if info.cls != "counter" or not info.ok or info.detail.get("step") != "packet_id::add" or info.detail.get("bound") != "arg1.end_id":
                inst.violation(b.path, "id walk", "a loop of receive is not `while id != end_id { ..; id = packet_id::add(id,1) }`: %s" % (info.why or info.desc))
            # initial value of the counter is base_id
            cv = info.detail.get("counter")
        # cursor initialised from base_id: every multi-def u32 local stepped by packet_id::add has an initial def = arg1.base_id
        for l in range(len(b.locals)):
            ds = b.defs.get(l, [])
            def _v(kind, node):
                return show(b.call_expr(node)) if kind == "call" else show(b.rvalue_expr(node["rv"]))
            if len(ds) >= 2 and any(_v(kind, node) == "packet_id::add(var%d,1)" % l for loc, kind, node in ds):
                inits = [_v(kind, node) for loc, kind, node in ds if _v(kind, node) != "packet_id::add(var%d,1)" % l]
                inst.site(b, None, "cursor var initialised from %s" % inits)
                if inits != ["arg1.base_id"]:
                    inst.violation(b.path, "cursor initial value", "an id cursor of receive starts at %s, expected base_id" % inits)
        sends = call_sites(b, "PacketSink::send")
        if len(sends) != 1:
            inst.violation(b.path, "PacketSink::send", "expected exactly one delivery site in receive, found %d" % len(sends))
        clr = [l for l, node, ps in b.field_writes(r"arg1\.data_flags\[.*\]") if re.match(r"bitand\(", show(b.rvalue_expr(node["rv"])))]
        cx.followed_by(inst, b, sends, clr, "delivery without clearing the data flag", "data_flags[i] &= !bit")
        scb = [l for l, t in b.calls("PacketReceiver::set_channel_base_id") if re.search(r"packet_id::add\(var\d+,1\)\)$", show(b.call_expr(t)))]
        cx.followed_by(inst, b, sends, scb, "delivery without advancing the channel base", "set_channel_base_id(channel, id + 1)")


def inst_crc_gate(cx, iid):
    R = cx.R
    with cx.instance(iid, "T1 GUARD", "no payload reader is called unless the recomputed CRC equals the stored one", floor=5) as inst:
        rb = R.body("<frame::Frame as frame::serial::Serialize>::read")
        sinks = call_sites(rb, "re:serial::read_")
        cx.guard(inst, rb, sinks, [[r"eq\(bitor\(.*\),crc::compute\(arg1\[Range\{0,sub\(\[T\]::len\(arg1\),4\)\}\]\)\)"]], construct="payload parsed without CRC match",
                 why="a corrupted frame must never be parsed")


def inst_id_arith(cx, iid):
    R = cx.R
    with cx.instance(iid, "T7 + T9", "packet_id::add/sub == wrapping op & MASK; MASK = 0xFFFFF; SPAN = MASK+1; datagrams per frame <= SPAN/(2*MAX_FRAME_WINDOW_SIZE)", floor=5) as inst:
        for fn, op in (("packet_id::add", "u32::wrapping_add"), ("packet_id::sub", "u32::wrapping_sub")):
            b = R.body(fn)
            e = show(b.local_expr(0))
            inst.site(b, None, "%s = %s" % (fn, e))
            if not re.fullmatch(rx_comm("bitand", re.escape("%s(arg1,arg2)" % op), r"packet_id::MASK"), e):
                inst.violation(b.path, fn, "%s is `%s`, expected %s(a,b) & MASK" % (fn, e, op))
        iv = R.body("packet_id::is_valid")
        e = show(iv.local_expr(0))
        inst.site(iv, None, "is_valid = " + e)
        if e not in ("le(arg1,packet_id::MASK)", "lt(arg1,packet_id::SPAN)", "eq(0,bitand(arg1,not(packet_id::MASK)))", "eq(arg1,bitand(arg1,packet_id::MASK))", "eq(bitand(arg1,packet_id::MASK),arg1)"):
            inst.violation(iv.path, "is_valid", "packet_id::is_valid is `%s`" % e)
        mask = R.const_int("packet_id::MASK")
        span = R.const_int("packet_id::SPAN")
        inst.site("<const>", None, "MASK=%#x SPAN=%#x" % (mask, span))
        if mask != 0xFFFFF or span != mask + 1:
            inst.violation("packet_id", "MASK/SPAN", "MASK=%#x SPAN=%#x: expected a 20-bit id space with SPAN = MASK + 1" % (mask, span))
        p = R.body("DataFrameEmitter::push")
        capes = [p.call_expr(t) for l, t in p.calls("Ord::min") if "packet_id::SPAN" in show(p.call_expr(t))]
        caps = [show(c) for c in capes]
        inst.site(p, None, "per-frame datagram cap: %s" % caps)

        def cval(e):
            # the cap is a constant expression over the crate's own constants: compare its value and its ingredients
            if e[0] == "cast":
                return cval(e[2])
            if e[0] == "const":
                try:
                    return int(str(e[1]))
                except ValueError:
                    try:
                        return R.const_int(str(e[3] or e[1]))
                    except Exception:
                        return None
            if e[0] == "bin" and e[1] in ("Mul", "Div", "Add", "Sub"):
                a, b_ = cval(e[2]), cval(e[3])
                if a is None or b_ is None or (e[1] == "Div" and b_ == 0):
                    return None
                return {"Mul": a * b_, "Div": a // b_ if e[1] == "Div" else 0, "Add": a + b_, "Sub": a - b_}[e[1]]
            if e[0] == "call" and e[1] == "Ord::min" and len(e[2]) == 2:
                a, b_ = cval(e[2][0]), cval(e[2][1])
                return None if a is None or b_ is None else min(a, b_)
            return None
        try:
            wantv = min(span // (2 * R.const_int("MAX_FRAME_WINDOW_SIZE")), R.const_int("frame::serial::build::DataFrameBuilder::MAX_COUNT"))
        except Exception:
            wantv = None
        gotv = cval(capes[0]) if len(capes) == 1 else None
        if len(caps) != 1 or wantv is None or gotv != wantv or not all(x in caps[0] for x in ("packet_id::SPAN", "MAX_FRAME_WINDOW_SIZE", "DataFrameBuilder::MAX_COUNT")):
            inst.violation(p.path, "datagram cap", "per-frame datagram cap is %s (= %s), expected min(SPAN/(2*MAX_FRAME_WINDOW_SIZE), MAX_COUNT) = %s" % (caps, gotv, wantv))
        else:
            adds = call_sites(p, "DataFrameBuilder::add", r"arg1\.in_progress_frame")
            cx.guard(inst, p, adds, [[r"lt\(DataFrameBuilder::count\(arg1\.in_progress_frame@Some\.0\.fbuilder\),Ord::min\(.*\)\)"]], construct="datagram added beyond the per-frame cap")
        fw, pw = R.const_int("MAX_FRAME_WINDOW_SIZE"), R.const_int("MAX_PACKET_WINDOW_SIZE")
        if (span // (2 * fw)) * fw * 2 > span or pw * 2 > span:
            inst.violation("packet_id::SPAN", "id space", "the id space is too small for the windows: ids would be ambiguous")


def inst_slot_siblings(cx, iid):
    """T4: every per-packet slot of the receive window is addressed by the same masked id when a
    packet is stored (handle_datagram) and when it is delivered/advanced (receive), and what is
    stored is what try_add produced for that datagram"""
    R = cx.R
    with cx.instance(iid, "T4 SIBLING", "a received packet's slots are all addressed by id & mask of the same id; stored fields come from the produced packet; delivery takes the data of the cursor's slot", floor=6) as inst:
        b = R.body(PR + "handle_datagram")
        idx = "cast<usize>(bitand(arg1.receive_window_mask,arg2.sequence_id))"
        pk = "AssemblyWindow::try_add(arg1.assembly_window,%s,arg2)@Some.0" % idx
        want = {
            "channel_entries": ("arg1.channel_entries[%s]" % idx, "ChannelAdvEntry{%s.channel_id,%s.channel_parent_lead}" % (pk, pk)),
            "window_entries": ("arg1.window_entries[%s]" % idx, "WindowAdvEntry{%s.window_parent_lead}" % pk),
            "data_entries": ("arg1.data_entries[%s]" % idx, "DataEntry{%s.data}" % pk),
        }
        seen = set()
        for l, node, ps in b.field_writes(r"arg1\.(channel_entries|window_entries|data_entries)\[.*\]"):
            nm = ps.split(".")[1].split("[")[0]
            v = show(b.rvalue_expr(node["rv"]))
            seen.add(nm)
            inst.site(b, l, "store " + nm)
            if (ps, v) != want[nm]:
                inst.violation(b.path, "store " + nm, "handle_datagram stores `%s = %s`; siblings store the produced packet's field at id & mask" % (ps[:80], v[:100]), at=b.span_at(l))
        if seen != set(want):
            inst.violation(b.path, "slot stores", "expected stores to channel_entries, window_entries and data_entries (found %s)" % sorted(seen))
        bit = "shl(1,rem(%s,64))" % idx
        for l, node, ps in b.field_writes(r"arg1\.(entry_flags|data_flags)\[.*\]"):
            nm = ps.split(".")[1].split("[")[0]
            v = show(b.rvalue_expr(node["rv"]))
            inst.site(b, l, "set " + nm)
            exp_ps = "arg1.%s[div(%s,64)]" % (nm, idx)
            if ps != exp_ps or v not in ("bitor(%s,%s)" % (exp_ps, bit), "bitor(%s,%s)" % (bit, exp_ps)):
                inst.violation(b.path, "set " + nm, "flag update `%s = %s` does not address the packet's own bit" % (ps[:70], v[:90]), at=b.span_at(l))
        r = R.body(PR + "receive")
        for loc, t in r.calls("PacketSink::send"):
            e = show(r.call_expr(t))
            m = re.fullmatch(r"PacketSink::send\(arg2,Option::take\(arg1\.data_entries\[cast<usize>\(bitand\(arg1\.receive_window_mask,(var\d+)\)\)\]\.data\)@Some\.0\)", e)
            inst.site(r, loc, "deliver data_entries[cursor & mask]")
            if not m:
                inst.violation(r.path, "delivered slot", "receive delivers `%s`, expected the data stored in the cursor's own slot" % e[:140], at=r.span_at(loc))
                continue
            cur = m.group(1)
            fa = cx.fa(r)
            g, _ = dnf_holds(fa.at(loc), [[r"ne\(0,bitand\(arg1\.data_flags\[div\(cast<usize>\(bitand\(arg1\.receive_window_mask,%s\)\),64\)\],shl\(1,rem\(cast<usize>\(bitand\(arg1\.receive_window_mask,%s\)\),64\)\)\)\)" % (cur, cur)]])
            if not g:
                inst.violation(r.path, "delivery without data flag", "a slot is delivered without its own data flag being set", at=r.span_at(loc))
            # the channel consulted is the one stored for this slot
            if "arg1.channel_entries[cast<usize>(bitand(arg1.receive_window_mask,%s))].channel_id" % cur not in " ".join(" ".join(a) for a in (fa.at(loc) or [])):
                inst.violation(r.path, "channel of slot", "the delivery test does not consult the channel stored for the delivered slot", at=r.span_at(loc))


def inst_channel_markers(cx, iid):
    """channel base markers: the marker of the *old* base is cleared (computed before the base is
    overwritten), the new marker is set at the new id, and the base is unset exactly when the window
    passes its marker; nobody else writes a channel's base"""
    R = cx.R
    with cx.instance(iid, "T2 order + T3 + T7", "set_channel_base_id clears the old base's marker before overwriting the base, marks the new id; try_unset clears the base named by the marker; no other writer", floor=5) as inst:
        b = R.body(PR + "set_channel_base_id")
        ch = "arg1.channels[cast<usize>(arg2)].base_id"
        mk = lambda e: "arg1.channel_base_markers[cast<usize>(bitand(%s))]" % e
        ws = [(l, ps, show(b.rvalue_expr(node["rv"]))) for l, node, ps in b.field_writes(r"arg1\.(channel_base_markers\[.*\]|channels\[.*\]\.base_id)")]
        want = {
            (mk(ch + "@Some.0,arg1.receive_window_mask"), "None{}"): "clear old marker",
            (mk("arg1.receive_window_mask," + ch + "@Some.0"), "None{}"): "clear old marker",
            (mk("arg1.receive_window_mask,arg3"), "Some{arg2}"): "set new marker",
            (mk("arg3,arg1.receive_window_mask"), "Some{arg2}"): "set new marker",
            (ch, "Some{arg3}"): "set base",
        }
        roles = {}
        for l, ps, v in ws:
            r = want.get((ps, v))
            inst.site(b, l, "%s = %s (%s)" % (ps[-60:], v, r))
            if r is None:
                inst.violation(b.path, "marker/base write", "set_channel_base_id writes `%s = %s`" % (ps[:90], v), at=b.span_at(l))
            else:
                roles.setdefault(r, []).append(l)
        if sorted(roles) != ["clear old marker", "set base", "set new marker"]:
            inst.violation(b.path, "marker discipline", "set_channel_base_id must clear the old marker, set the new marker and set the base (found %s)" % sorted(roles))
        else:
            for w in roles["set base"]:
                for c in roles["clear old marker"]:
                    if _reaches(b, w.bb, {c.bb}) and not (w.bb == c.bb and w.idx > c.idx):
                        inst.violation(b.path, "base overwritten before old marker cleared", "the channel base is overwritten before the marker of the previous base is cleared: a stale marker survives and later unsets the base of a channel that is still ahead", at=b.span_at(w))
            cx.guard(inst, b, [(c, "clear old marker") for c in roles["clear old marker"]], [[r"is\(arg1\.channels\[cast<usize>\(arg2\)\]\.base_id,Some\)"]], construct="old marker cleared without a base")
            for nm in ("set base", "set new marker"):
                cx.followed_by(inst, b, [(Loc(0, -1), "entry")], roles[nm], nm + " skipped", nm)
        t = R.body(PR + "try_unset_channel_base_id")
        tk = "Option::take(arg1.channel_base_markers[cast<usize>(bitand(arg1.receive_window_mask,arg2))])"
        tws = [(l, ps, show(t.rvalue_expr(node["rv"]))) for l, node, ps in t.field_writes(r"arg1\.channels\[.*\]\.base_id")]
        for l, ps, v in tws:
            inst.site(t, l, "try_unset: %s = %s" % (ps[-50:], v))
            if (ps, v) != ("arg1.channels[cast<usize>(%s@Some.0)].base_id" % tk, "None{}"):
                inst.violation(t.path, "unset base", "try_unset_channel_base_id writes `%s = %s`" % (ps[:100], v), at=t.span_at(l))
        if len(tws) != 1:
            inst.violation(t.path, "unset base", "expected exactly one base unset in try_unset_channel_base_id")
        for ob in R.all_bodies():
            if "packet_receiver::" in ob.path and ob.path not in (b.path, t.path) and not ob.path.endswith("::new"):
                for l, node, ps in ob.field_writes(r".*channels\[.*\]\.base_id|.*channel_base_markers\[.*\]"):
                    inst.violation(ob.path, "unlisted writer of channel base/marker", "`%s` is written outside set/try_unset_channel_base_id" % ps[:80], at=ob.span_at(l))
        # advance_window calls try_unset for every id it passes (id+1 .. new_base)
        aw = R.body(PR + "advance_window")
        cs = call_sites(aw, "PacketReceiver::try_unset_channel_base_id")
        inst.site(aw, None, "advance_window -> try_unset_channel_base_id: %d call(s)" % len(cs))
        if len(cs) != 1 or not any(cs[0][0].bb in L["body"] for L in aw.loops()):
            inst.violation(aw.path, "try_unset in advance loop", "advance_window does not unset channel bases for every id it passes")


def run(cx):
    inst_channel_markers(cx, "C01.i")
    inst_slot_siblings(cx, "C01.h")
    inst_frame_window(cx, "C01.a")
    inst_receive_window(cx, "C01.b")
    inst_handle_datagram(cx, "C01.c")
    inst_try_add_arms(cx, "C01.d")
    inst_receive_walk(cx, "C01.e")
    inst_crc_gate(cx, "C01.f")
    inst_id_arith(cx, "C01.g")
    # "nothing is delivered on another channel or with altered contents" rests on the datagram header
    # round trip (a header bit that spills into a neighbouring field re-files the packet under another
    # channel with a valid CRC): shared with C16.e / C16.f
    from bits import check_headers
    check_headers(cx, "C01.j", "C01.k")
    # "with altered contents": a reassembled packet is the first total_size bytes of its buffer on every path
    from props.C04 import inst_sizes
    inst_sizes(cx, "C01.t")
    # at most once / in order: "this slot holds an undelivered packet" is read from the bit that was set for it
    from props.shared import receiver_flag_addressing
    receiver_flag_addressing(cx, "C01.u")
    # submission order is queue order: sequence ids are handed out as packets leave the front of the send queue
    from props.C05 import queue_discipline
    queue_discipline(cx, "C01.v")
    # "bit corruption": the CRC that gates every frame is the polynomial's table-driven recurrence over every byte
    from props.shared import share_instance
    share_instance(cx, "C16", "C16.d", "C01.w")
    # a slot the window passes is released whatever its state: stale fragments must not leak into the
    # packet that maps to the same slot one window later
    from props.shared import window_walks
    window_walks(cx, "C01.l")
    from props.idarith import id_arith_discipline
    id_arith_discipline(cx, "C01.m")
    # a slot that the window passed is re-opened whatever it held: stale fragments must not be merged into the
    # packet that maps to the same slot one window later
    from props.C06 import inst_release
    inst_release(cx, "C01.n")
    from props.shared import resync_walk
    resync_walk(cx, "C01.o")
    from props.C04 import inst_fragment_flags
    inst_fragment_flags(cx, "C01.p")
    # a resynchronisation offered while the resend queue still holds fragments of earlier packets lets the receiver
    # pass packets whose fragments then arrive late: they fall outside the window or into a re-used slot
    from props.C02 import inst_resync_guard
    inst_resync_guard(cx, "C01.q")
    from props.shared import window_pass_guard
    window_pass_guard(cx, "C01.r")
    # submission order: the send queue is a FIFO that loses packets only at its front
    from props.C05 import inst_send_queue_pops
    inst_send_queue_pops(cx, "C01.s")


SELFTEST = [
    {"name": "advance_window releases a reassembly slot only if its delivered flag is set",
     "edits": [{"file": "src/half_connection/packet_receiver/mod.rs", "old": "            self.assembly_window.clear(window_idx);\n", "new": "            if self.data_flags[window_idx / 64] & (1 << (window_idx % 64)) != 0 { self.assembly_window.clear(window_idx); }\n"}],
     "expect": ["C01.l"]},
    {"name": "end_id left behind when the window jumps past it",
     "edits": [{"file": "src/half_connection/packet_receiver/mod.rs", "old": "            self.end_id = new_base_id;\n", "new": ""}],
     "expect": ["C01.l"]},
    {"name": "raw comparison of packet ids in handle_datagram",
     "edits": [{"file": "src/half_connection/packet_receiver/mod.rs", "old": "        if packet_lead < channel_lead {", "new": "        if sequence_id < channel_base_id {"}],
     "expect": ["C01.m"]},
    {"name": "benign: delivered flag cleared only where it is set",
     "edits": [{"file": "src/half_connection/packet_receiver/mod.rs", "old": "            self.entry_flags[flags_index] &= !flag_bit;\n\n            id = packet_id::add(id, 1);", "new": "            if self.entry_flags[flags_index] & flag_bit != 0 { self.entry_flags[flags_index] &= !flag_bit; }\n\n            id = packet_id::add(id, 1);"}],
     "expect": []},
    {"name": "drop the window_contains test around the datagram loop",
     "edits": [{"file": "src/half_connection/mod.rs", "old": "        if self.frame_ack_queue.window_contains(frame.sequence_id) {\n            self.frame_ack_queue.mark_seen", "new": "        if self.frame_ack_queue.window_contains(frame.sequence_id) || true {\n            self.frame_ack_queue.mark_seen"}],
     "expect": ["C01.a"]},
    {"name": "Closed arm of try_add re-opens the slot",
     "edits": [{"file": "src/half_connection/packet_receiver/assembly_window/mod.rs", "old": "                // Packet has been rejected or has already been received\n                return None;", "new": "                // Packet has been rejected or has already been received\n                self.window[idx] = WindowEntry::Open;\n                return None;"}],
     "expect": ["C01.d"]},
    {"name": "drop the per-channel staleness test in handle_datagram",
     "edits": [{"file": "src/half_connection/packet_receiver/mod.rs", "old": "        if packet_lead < channel_lead {\n            // Packet already surpassed by this channel\n            return;\n        }\n", "new": ""}],
     "expect": ["C01.c"]},
    {"name": "benign: rename locals in handle_datagram",
     "edits": [{"file": "src/half_connection/packet_receiver/mod.rs", "old": "        let packet_lead = packet_id::sub(sequence_id, base_id);", "new": "        let pkt_lead_renamed = packet_id::sub(sequence_id, base_id);\n        let packet_lead = pkt_lead_renamed;"}],
     "expect": []},
]
